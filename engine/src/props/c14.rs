//! C14 — operational-state and global-pause gating of financial instructions.
//!
//! An exhaustive matrix (instruction x bank state x pause column x time around the expiry second)
//! evaluated inside generated worlds. The expectation table is written from the property statement;
//! "is the group paused" is decided from the cached bytes in the group account
//! (flag set AND now < cached start + 1800), never by calling the program's own predicate.
use crate::common::*;
use crate::model::*;
use crate::num::*;
use crate::snap::bits;
use crate::svm::Vm;
use crate::world::*;
use anchor_lang::{InstructionData, ToAccountMetas};
use marginfi_type_crate::types::{Bank, BankConfigOpt, BankOperationalState};
use num_traits::{Signed, ToPrimitive};
use proptest::prelude::*;
use serde::{Deserialize, Serialize};
use serde_json::{json, Value};
use solana_program::{instruction::Instruction, pubkey::Pubkey};
use std::collections::BTreeMap;

/// PAUSE_DURATION of the statement, in seconds
const P: i64 = 1800;

// bank indices
const T: usize = 0; // the bank whose state is varied
const O: usize = 1; // ordinary second bank
const X: usize = 2; // crashable collateral (bankruptcies)

// user indices (main scenario)
const UL: usize = 0; // lender, liquidator, receiver
const UD: usize = 1; // depositor in T, no debt
const UB: usize = 2; // borrower: collateral O, debt T
const ULL: usize = 3; // liquidatee with T as liability bank
const ULA: usize = 4; // liquidatee with T as asset bank
const UF: usize = 5; // flash-loan user
const UK: usize = 6; // bankrupt-to-be (collateral X, debt T)
const UDU: usize = 7; // holder of an empty (dust) balance in T
const UTR: usize = 8; // account that is transferred
const UR9: usize = 9; // only collateral in T, debt in O (ReduceOnly valuation clause)
const UR10: usize = 10; // only collateral in T, no debt (ReduceOnly valuation clause)
const UFEE: usize = 11; // early borrower that generates fees in T
const UE: usize = 12; // depositor in T that earns emissions
const N_USERS: u8 = 13;

// ------------------------------------------------------------------------------------------
// the alphabet
// ------------------------------------------------------------------------------------------
#[derive(Clone, Copy, Debug, PartialEq, Eq, PartialOrd, Ord, Serialize, Deserialize)]
pub enum Row {
    Deposit,
    Withdraw,
    WithdrawAll,
    Borrow,
    Repay,
    RepayAll,
    LiqAsset,
    LiqLiab,
    Bankruptcy,
    Flash,
    RecvLiab,
    RecvAsset,
    Transfer,
    TransferPda,
    CollectFees,
    WithdrawFees,
    WithdrawInsurance,
    WithdrawFeesPermissionless,
    EmisWithdraw,
    EmisWithdrawPermissionless,
    // executed and counted, never asserted (open question Q1)
    CloseBalance,
    Accrue,
    Pulse,
    FlashBare,
    RecvBare,
    EmisSettle,
}
use Row::*;

pub const ROWS: [Row; 26] = [
    Deposit,
    Withdraw,
    WithdrawAll,
    Borrow,
    Repay,
    RepayAll,
    LiqAsset,
    LiqLiab,
    Bankruptcy,
    Flash,
    RecvLiab,
    RecvAsset,
    Transfer,
    TransferPda,
    CollectFees,
    WithdrawFees,
    WithdrawInsurance,
    WithdrawFeesPermissionless,
    EmisWithdraw,
    EmisWithdrawPermissionless,
    CloseBalance,
    Accrue,
    Pulse,
    FlashBare,
    RecvBare,
    EmisSettle,
];

impl Row {
    pub fn name(&self) -> &'static str {
        match self {
            Deposit => "deposit",
            Withdraw => "withdraw",
            WithdrawAll => "withdraw_all",
            Borrow => "borrow",
            Repay => "repay",
            RepayAll => "repay_all",
            LiqAsset => "liquidate(asset-bank)",
            LiqLiab => "liquidate(liab-bank)",
            Bankruptcy => "handle_bankruptcy",
            Flash => "flashloan[start,borrow,repay_all,end]",
            RecvLiab => "receivership[start,withdraw,repay(bank),end]",
            RecvAsset => "receivership[start,withdraw(bank),repay,end]",
            Transfer => "transfer_to_new_account",
            TransferPda => "transfer_to_new_account_pda",
            CollectFees => "collect_bank_fees",
            WithdrawFees => "withdraw_fees",
            WithdrawInsurance => "withdraw_insurance",
            WithdrawFeesPermissionless => "withdraw_fees_permissionless",
            EmisWithdraw => "withdraw_emissions",
            EmisWithdrawPermissionless => "withdraw_emissions_permissionless",
            CloseBalance => "close_balance",
            Accrue => "accrue_interest",
            Pulse => "pulse_health",
            FlashBare => "flashloan[start,end]",
            RecvBare => "receivership[start,end]",
            EmisSettle => "settle_emissions",
        }
    }
    /// executed and counted only
    pub fn counted_only(&self) -> bool {
        matches!(self, CloseBalance | Accrue | Pulse | FlashBare | RecvBare | EmisSettle)
    }
    /// "deposit, withdrawal, borrow, repayment, liquidation or bankruptcy" touching bank T (a bracket
    /// that commits contains such a withdrawal / borrow / repayment)
    pub fn touches_bank(&self) -> bool {
        matches!(self, Deposit | Withdraw | WithdrawAll | Borrow | Repay | RepayAll | LiqAsset | LiqLiab | Bankruptcy | Flash | RecvLiab | RecvAsset)
    }
    /// refused while T is reduce-only (deposit, borrow; the flash bracket contains a borrow of T)
    pub fn refused_reduce_only(&self) -> bool {
        matches!(self, Deposit | Borrow | Flash)
    }
    /// "withdrawals and repayments still work"
    pub fn works_reduce_only(&self) -> bool {
        // ... also for whoever holds the account in receivership: the bracket that withdraws from / repays into the bank
        matches!(self, Withdraw | WithdrawAll | Repay | RepayAll | RecvLiab | RecvAsset)
    }
}

#[derive(Clone, Copy, Debug, PartialEq, Eq, PartialOrd, Ord, Serialize, Deserialize)]
pub enum BState {
    Operational,
    Paused,
    ReduceOnly,
    /// KilledByBankruptcy written into the bank bytes (counted as injected)
    KilledInjected,
    /// injected kill followed by an admin configure_bank(operational_state = n) attempt (0 Paused, 1 Operational, 2 ReduceOnly)
    KilledThenConfigure(u8),
    /// injected kill, then the admin FREEZES the bank's settings (a frozen bank's configure requests take another code
    /// path) and then attempts configure_bank(operational_state = n)
    KilledFrozenThenConfigure(u8),
    /// Paused / injected kill on a bank that also carries TOKENLESS_REPAYMENTS_ALLOWED (set by the admin through
    /// configure_bank): the sunset flag must not soften the bank state
    PausedTokenless,
    KilledTokenless,
}
impl BState {
    pub fn name(&self) -> &'static str {
        match self {
            BState::Operational => "Operational",
            BState::Paused => "Paused",
            BState::ReduceOnly => "ReduceOnly",
            BState::KilledInjected => "Killed",
            BState::KilledThenConfigure(_) => "Killed+configure",
            BState::KilledFrozenThenConfigure(_) => "Killed+freeze+configure",
            BState::PausedTokenless => "Paused+tokenless-flag",
            BState::KilledTokenless => "Killed+tokenless-flag",
        }
    }
    fn killed(&self) -> bool {
        matches!(self, BState::KilledInjected | BState::KilledThenConfigure(_) | BState::KilledFrozenThenConfigure(_) | BState::KilledTokenless)
    }
}
pub const STATES: [BState; 4] = [BState::Operational, BState::Paused, BState::ReduceOnly, BState::KilledInjected];

#[derive(Clone, Copy, Debug, PartialEq, Eq, PartialOrd, Ord, Serialize, Deserialize)]
pub enum PCol {
    /// never paused (the reference for every absolute time used below)
    Never,
    /// paused at Tb+P and propagated; observed while in force (same second, +1, middle, last second)
    Active,
    /// same pause, nobody touches anything afterwards; observed around the expiry second
    ExpiredUntouched,
    /// same pause; just before the instruction somebody calls the permissionless unpause on the fee
    /// state (succeeds only once expired) but nobody propagates: the cache stays stale
    ExpiredFeeCleared,
    /// paused at Tb and propagated, paused again at Tb+k (start moves to Tb+P) and propagated
    Extended,
    /// as Extended but the second pause is not propagated: the cache still carries the first start
    ExtendedUnpropagated,
    /// paused in the fee state at Tb+P, never propagated: the group is not paused
    Unpropagated,
    /// paused at Tb+P and propagated, admin-unpaused in the fee state at Tb+P+u, not propagated
    AdminUnpausedStale,
}
pub const PCOLS: [PCol; 8] = [PCol::Never, PCol::Active, PCol::ExpiredUntouched, PCol::ExpiredFeeCleared, PCol::Extended, PCol::ExtendedUnpropagated, PCol::Unpropagated, PCol::AdminUnpausedStale];

impl PCol {
    pub fn name(&self) -> &'static str {
        match self {
            PCol::Never => "never",
            PCol::Active => "active",
            PCol::ExpiredUntouched => "expired-untouched",
            PCol::ExpiredFeeCleared => "expired-fee-state-cleared",
            PCol::Extended => "extended",
            PCol::ExtendedUnpropagated => "extended-unpropagated",
            PCol::Unpropagated => "unpropagated",
            PCol::AdminUnpausedStale => "admin-unpaused-stale-cache",
        }
    }
    /// observation times as offsets from the base time Tb
    pub fn times(&self) -> &'static [i64] {
        match self {
            PCol::Never => &[P - 1, P, P + 1, P + 900, 2 * P - 1, 2 * P, 2 * P + 1],
            PCol::Active => &[P, P + 1, P + 900, 2 * P - 1],
            PCol::ExpiredUntouched | PCol::ExpiredFeeCleared | PCol::Unpropagated | PCol::AdminUnpausedStale => &[2 * P - 1, 2 * P, 2 * P + 1],
            PCol::Extended => &[P - 1, P, P + 1, 2 * P - 1, 2 * P, 2 * P + 1],
            PCol::ExtendedUnpropagated => &[P - 1, P, P + 1],
        }
    }
    /// (flag, start offset from Tb) the group's cache must carry after the recipe
    fn intended_cache(&self) -> (bool, i64) {
        match self {
            PCol::Never | PCol::Unpropagated => (false, 0),
            PCol::Active | PCol::ExpiredUntouched | PCol::ExpiredFeeCleared | PCol::Extended | PCol::AdminUnpausedStale => (true, P),
            PCol::ExtendedUnpropagated => (true, 0),
        }
    }
    /// columns in which "accepted again once the cached pause has expired" is asserted
    fn success_asserted(&self) -> bool {
        matches!(self, PCol::ExpiredUntouched | PCol::ExpiredFeeCleared | PCol::Extended | PCol::AdminUnpausedStale)
    }
}

#[derive(Clone, Debug, PartialEq, Serialize, Deserialize)]
pub enum CellId {
    Matrix { row: Row, state: BState, col: PCol, toff: i64 },
    /// real wipe-out path: attempt 0 = the killed bank as it is, 1..=3 = after configure_bank(op_state = attempt-1)
    RealKill { row: Row, attempt: u8 },
    /// ReduceOnly valuation clause: 0 = borrow against reduce-only collateral, 1 = classic liquidation of the healthy account, 2 = receivership start on it
    Valuation { which: u8, variant: u8 },
}

#[derive(Clone, Debug, Serialize, Deserialize)]
pub struct Case {
    pub spec: WorldSpec,
    /// size of one "unit" position in USD
    pub base_usd: u64,
    /// fraction (x/65536) of the borrowing power used by the ordinary borrower
    pub borrow_frac: u32,
    /// maintenance deficit of the liquidatees as per-mille of liabilities
    pub depth_pm: u16,
    /// offset of the second pause (extended columns), 1..P-1
    pub k: u32,
    /// offset of the admin unpause after the pause, 0..P-2
    pub u: u32,
    /// fee accrual time before the matrix
    pub wait0: u32,
    /// apply the bank state before the pause timeline (true) or right before the instruction (false)
    pub state_first: bool,
    /// time the wipe-out borrower is left to accrue in the real-kill scenario
    pub kill_wait: u32,
}

fn bank_strategy(role: usize) -> impl Strategy<Value = BankSpec> {
    (
        (
            if role == X { (6u8..=9).boxed() } else { prop_oneof![4 => Just(6u8), 2 => Just(9u8), 2 => 0u8..=12].boxed() },
            0u8..3,
            0u16..300,
            prop_oneof![Just(0u64), 1u64..100_000],
        ),
        (300_000u32..=800_000, 0u32..=100_000, 0u32..=250_000, 0u32..=250_000),
        (
            prop_oneof![1 => Just(0u8), 2 => Just(1u8), 2 => Just(2u8)],
            if role == X { (1_000_000i64..500_000_000).boxed() } else { (1_000i64..500_000_000).boxed() },
            if role == X { (-8i32..=-6).boxed() } else { prop_oneof![4 => Just(-6i32), 2 => -8i32..=-3].boxed() },
            prop_oneof![2 => Just(0u16), 3 => 1u16..200],
            900u16..1100,
        ),
        (10_000_000u32..100_000_000, 100_000_000u32..1_900_000_000, 10_000u32..50_000, 10_000u32..50_000, 0u32..150_000, 0u32..150_000, prop_oneof![2 => Just(0u32), 1 => 0u32..10_000]),
        any::<bool>(),
    )
        .prop_map(move |((decimals, token, fee_bps, fee_max), (aw_i, aw_gap, lw_x, lw_gap), (okind, mant, expo, conf_bps, ema_num), (zero, hundred_x, ins_fixed, prot_fixed, ins_ir, prot_ir, orig), permless)| {
            let oracle = if okind == 0 {
                OracleSpec::fixed(mant, expo)
            } else {
                let conf = (mant as u128 * conf_bps as u128 / 10_000) as u64;
                let ema = if okind == 1 { (mant as i128 * ema_num as i128 / 1000).max(1) as i64 } else { mant };
                let ema_conf = if okind == 1 { (ema as u128 * conf_bps as u128 / 10_000) as u64 } else { conf };
                OracleSpec { kind: okind, mant, expo, conf, ema_mant: ema, ema_conf, max_age: 100, max_conf: 0 }
            };
            let curve = CurveSpec { zero, hundred: zero + hundred_x, points: vec![], ins_fixed, ins_ir, prot_fixed, prot_ir, orig };
            BankSpec {
                decimals,
                token,
                fee_bps: if token == 2 { fee_bps } else { 0 },
                fee_max: if token == 2 { fee_max } else { 0 },
                aw_i,
                aw_m: aw_i + aw_gap,
                lw_i: 1_000_000 + lw_x + lw_gap,
                lw_m: 1_000_000 + lw_x,
                isolated: false,
                deposit_limit: u64::MAX,
                borrow_limit: u64::MAX,
                init_limit: 0,
                curve,
                oracle,
                emode_tag: 0,
                emode_entries: vec![],
                asset_tag: 0,
                op_state: 1,
                permissionless_bad_debt: permless && role == T,
                staked: None,
            }
        })
}

pub fn case_strategy() -> impl Strategy<Value = Case> {
    (
        (bank_strategy(T), bank_strategy(O), bank_strategy(X)),
        (prop_oneof![2 => Just((0u32, 0u32, false)), 2 => (0u32..100_000, 0u32..300_000, any::<bool>())], prop_oneof![Just(0u32), Just(5000u32)]),
        prop_oneof![10u64..1000, 1000u64..100_000],
        13_000u32..=40_000,
        100u16..=250,
        prop_oneof![1 => Just(1u32), 1 => Just((P - 1) as u32), 3 => 1u32..(P as u32)],
        prop_oneof![1 => Just(0u32), 1 => Just((P - 2) as u32), 3 => 0u32..(P as u32 - 1)],
        prop_oneof![86_400u32..2_592_000, 2_592_000u32..31_536_000],
        any::<bool>(),
        (31_536_000u32..94_608_000, prop::bool::weighted(0.4), 0u32..150_000),
    )
        .prop_map(|((mut bt, mut bo, mut bx), ((pf, pr, pe), liq_fee), base_usd, borrow_frac, depth_pm, k, u, wait0, state_first, (kill_wait, emode, boost))| {
            // in 40 % of the worlds T's deposits enjoy an e-mode boost against debt in O (the weight selection is then
            // max(bank weight, e-mode weight): the reduce-only zeroing must survive it)
            if emode {
                bt.emode_tag = 7;
                let init = (bt.aw_i + boost).min(950_000);
                let maint = init.max(bt.aw_m).min(970_000).max(init);
                bo.emode_entries = vec![EmodeEntrySpec { tag: 7, flags: 0, init, maint }];
            }
            fit_decimals(&mut bt, 0, 12);
            fit_decimals(&mut bo, 0, 12);
            fit_decimals(&mut bx, 6, 9);
            Case {
            spec: WorldSpec {
                program_fee_fixed: pf,
                program_fee_rate: pr,
                program_fees_enabled: pe,
                bank_init_flat_sol_fee: 5000,
                liq_flat_sol_fee: liq_fee,
                liq_max_fee: 50_000,
                banks: vec![bt, bo, bx],
                n_users: N_USERS,
                user_tokens: 1 << 62,
                distinct_roles: true,
            },
            base_usd,
            borrow_frac,
            depth_pm,
            k,
            u,
            wait0,
            state_first,
            kill_wait,
            }
        })
}

/// keep the generated decimals unless $100 would be fewer than 1e6 or more than 1e13 native units
/// (positions in the three banks must be of comparable value and still fit the token amounts)
fn fit_decimals(b: &mut BankSpec, lo: u8, hi: u8) {
    let n100 = |d: u8| -> Q { q_int(100u64) * pow10(d as u32) / spot_price(b) };
    let mut d = b.decimals.clamp(lo, hi);
    while d < hi && n100(d) < q_int(1_000_000u64) {
        d += 1;
    }
    while d > lo && n100(d) > q_int(10_000_000_000_000u64) {
        d -= 1;
    }
    b.decimals = d;
}

// ------------------------------------------------------------------------------------------
// instruction constructors that world.rs does not have
// ------------------------------------------------------------------------------------------
fn mfi(accounts: Vec<solana_program::instruction::AccountMeta>, data: Vec<u8>) -> Instruction {
    Instruction { program_id: marginfi::ID, accounts, data }
}
fn mint_meta(w: &World, bi: usize, v: &mut Vec<solana_program::instruction::AccountMeta>) {
    if w.banks[bi].token_program == spl_token_2022::ID {
        v.push(solana_program::instruction::AccountMeta::new_readonly(w.banks[bi].mint, false));
    }
}
fn ix_update_fees_destination(w: &World, bi: usize, admin: Pubkey, dst: Pubkey) -> Instruction {
    mfi(
        marginfi::accounts::LendingPoolUpdateFeesDestinationAccount { group: w.group, bank: w.banks[bi].key, admin, destination_account: dst }.to_account_metas(Some(true)),
        marginfi::instruction::LendingPoolUpdateFeesDestinationAccount {}.data(),
    )
}
fn ix_withdraw_fees_permissionless(w: &World, bi: usize, dst: Pubkey, amount: u64) -> Instruction {
    let b = &w.banks[bi];
    let mut m = marginfi::accounts::LendingPoolWithdrawFeesPermissionless {
        group: w.group,
        bank: b.key,
        fee_vault: b.fv,
        fee_vault_authority: b.fv_auth,
        fees_destination_account: dst,
        token_program: b.token_program,
    }
    .to_account_metas(Some(true));
    mint_meta(w, bi, &mut m);
    mfi(m, marginfi::instruction::LendingPoolWithdrawFeesPermissionless { amount }.data())
}

fn ix_transfer_account_pda(w: &World, old: Pubkey, signer: Pubkey, new_authority: Pubkey, account_index: u16) -> Instruction {
    let new = Pubkey::find_program_address(
        &[marginfi_type_crate::constants::MARGINFI_ACCOUNT_SEED.as_bytes(), w.group.as_ref(), new_authority.as_ref(), &account_index.to_le_bytes(), &0u16.to_le_bytes()],
        &marginfi::ID,
    )
    .0;
    mfi(
        marginfi::accounts::TransferToNewAccountPda {
            group: w.group,
            old_marginfi_account: old,
            new_marginfi_account: new,
            authority: signer,
            fee_payer: signer,
            new_authority,
            global_fee_wallet: w.fee_wallet,
            instructions_sysvar: solana_program::sysvar::instructions::ID,
            system_program: solana_program::system_program::ID,
        }
        .to_account_metas(Some(true)),
        marginfi::instruction::TransferToNewAccountPda { account_index, third_party_id: None }.data(),
    )
}

// --- emissions (mint = a plain SPL mint created for the purpose)
fn emis_mint() -> Pubkey {
    kp("c14-emissions-mint", 0)
}
fn emis_auth(bank: &Pubkey) -> Pubkey {
    Pubkey::find_program_address(&[marginfi_type_crate::constants::EMISSIONS_AUTH_SEED.as_bytes(), bank.as_ref(), emis_mint().as_ref()], &marginfi::ID).0
}
fn emis_vault(bank: &Pubkey) -> Pubkey {
    Pubkey::find_program_address(&[marginfi_type_crate::constants::EMISSIONS_TOKEN_ACCOUNT_SEED.as_bytes(), bank.as_ref(), emis_mint().as_ref()], &marginfi::ID).0
}
fn ix_setup_emissions(w: &World, bi: usize, funding: Pubkey, flags: u64, rate: u64, total: u64) -> Instruction {
    let b = &w.banks[bi];
    mfi(
        marginfi::accounts::LendingPoolSetupEmissions {
            group: w.group,
            delegate_emissions_admin: w.roles.emissions,
            bank: b.key,
            emissions_mint: emis_mint(),
            emissions_auth: emis_auth(&b.key),
            emissions_token_account: emis_vault(&b.key),
            emissions_funding_account: funding,
            token_program: spl_token::ID,
            system_program: solana_program::system_program::ID,
        }
        .to_account_metas(Some(true)),
        marginfi::instruction::LendingPoolSetupEmissions { flags, rate, total_emissions: total }.data(),
    )
}
fn ix_withdraw_emissions(w: &World, bi: usize, macct: Pubkey, auth: Pubkey, dst: Pubkey) -> Instruction {
    let b = &w.banks[bi];
    mfi(
        marginfi::accounts::LendingAccountWithdrawEmissions {
            group: w.group,
            marginfi_account: macct,
            authority: auth,
            bank: b.key,
            emissions_mint: emis_mint(),
            emissions_auth: emis_auth(&b.key),
            emissions_vault: emis_vault(&b.key),
            destination_account: dst,
            token_program: spl_token::ID,
        }
        .to_account_metas(Some(true)),
        marginfi::instruction::LendingAccountWithdrawEmissions {}.data(),
    )
}
fn ix_withdraw_emissions_permissionless(w: &World, bi: usize, macct: Pubkey, dst: Pubkey) -> Instruction {
    let b = &w.banks[bi];
    mfi(
        marginfi::accounts::LendingAccountWithdrawEmissionsPermissionless {
            group: w.group,
            marginfi_account: macct,
            bank: b.key,
            emissions_mint: emis_mint(),
            emissions_auth: emis_auth(&b.key),
            emissions_vault: emis_vault(&b.key),
            destination_account: dst,
            token_program: spl_token::ID,
        }
        .to_account_metas(Some(true)),
        marginfi::instruction::LendingAccountWithdrawEmissionsPermissionless {}.data(),
    )
}
fn ix_settle_emissions(w: &World, bi: usize, macct: Pubkey) -> Instruction {
    mfi(
        marginfi::accounts::LendingAccountSettleEmissions { marginfi_account: macct, bank: w.banks[bi].key }.to_account_metas(Some(true)),
        marginfi::instruction::LendingAccountSettleEmissions {}.data(),
    )
}
fn ix_update_emissions_destination(macct: Pubkey, auth: Pubkey, dst_wallet: Pubkey) -> Instruction {
    mfi(
        marginfi::accounts::MarginfiAccountUpdateEmissionsDestinationAccount { marginfi_account: macct, authority: auth, destination_account: dst_wallet }.to_account_metas(Some(true)),
        marginfi::instruction::MarginfiAccountUpdateEmissionsDestinationAccount {}.data(),
    )
}
/// token account of user `u` for the emissions mint (direct withdrawals)
fn emis_user_token(u: usize) -> Pubkey {
    kp("c14-emissions-uta", u as u64)
}

// ------------------------------------------------------------------------------------------
// helpers
// ------------------------------------------------------------------------------------------
/// native amount worth `usd` dollars at the spec's price, clamped to [1e5, 1e15]
fn unit_amount(b: &BankSpec, usd: u64) -> u64 {
    let price = q_int(b.oracle.mant) * if b.oracle.expo >= 0 { pow10(b.oracle.expo as u32) } else { q_one() / pow10((-b.oracle.expo) as u32) };
    let n = q_int(usd) * pow10(b.decimals as u32) / price;
    q_floor(&n).to_u64().unwrap_or(u64::MAX).clamp(10_000, 20_000_000_000_000_000)
}

/// largest collateral amount whose value at the minimum price (mantissa 1) stays below $0.04
fn crash_cap(b: &BankSpec) -> u64 {
    let e = b.decimals as i32 - b.oracle.expo;
    if e <= 2 {
        return 0;
    }
    (4u128 * 10u128.pow((e - 2) as u32)).min(1u128 << 60) as u64
}

fn pos_amounts(vm: &Vm, acct: &Pubkey, bank: &Pubkey) -> (u64, u64) {
    let Some(a) = read_macct(vm, acct) else { return (0, 0) };
    let Some(b) = try_read_bank(vm, bank) else { return (0, 0) };
    for p in a.lending_account.balances.iter() {
        if p.active != 0 && p.bank_pk == *bank {
            let av = q_floor(&(q_bits(bits(p.asset_shares)) * q_w(b.asset_share_value))).to_u64().unwrap_or(u64::MAX);
            let lv = q_ceil(&(q_bits(bits(p.liability_shares)) * q_w(b.liability_share_value))).to_u64().unwrap_or(u64::MAX);
            return (av, lv);
        }
    }
    (0, 0)
}

/// borrowing power of `acct` in bank `bi` according to the reference model (not capped by liquidity)
fn power(w: &World, acct: &Pubkey, bi: usize) -> u64 {
    let Some(a) = read_macct(&w.vm, acct) else { return 0 };
    let h = health(&w.vm, &a, Req::Initial, w.vm.now());
    let bank = w.bank(bi);
    let ov = oracle_view(&w.vm, &bank, w.vm.now());
    match (h.health(), ov.high(PriceKind::Ema)) {
        (Some(hh), Some(p)) if hh.lo.is_positive() && p.hi.is_positive() => q_floor(&(&hh.lo / (&p.hi * q_w(bank.config.liability_weight_init)) * pow10(bank.mint_decimals as u32))).to_u64().unwrap_or(0),
        _ => 0,
    }
}

fn frac(x: u64, num: u64, den: u64) -> u64 {
    ((x as u128 * num as u128) / den as u128) as u64
}

fn deposit(w: &mut World, u: usize, bi: usize, amt: u64) -> bool {
    let usr = w.users[u].clone();
    let ix = w.ix_deposit(usr.accts[0], usr.auth, bi, usr.tokens[bi], amt, None);
    w.vm.exec(&ix).is_ok()
}
fn borrow(w: &mut World, u: usize, bi: usize, amt: u64) -> bool {
    if amt == 0 {
        return false;
    }
    let usr = w.users[u].clone();
    let ix = w.ix_borrow(usr.accts[0], usr.auth, bi, usr.tokens[bi], amt);
    w.vm.exec(&ix).is_ok()
}
/// borrow `num/den` of min(power, a quarter of the liquidity)
fn borrow_frac_of_power(w: &mut World, u: usize, bi: usize, num: u64, den: u64) -> bool {
    let acct = w.users[u].accts[0];
    let p = power(w, &acct, bi).min(w.tok(&w.banks[bi].lv) / 4);
    borrow(w, u, bi, frac(p, num, den))
}

/// move the price of bank `ab` so that the maintenance health of `acct` becomes -(depth/1000) x liabilities
fn steer(w: &mut World, acct: &Pubkey, ab: usize, depth_pm: u16) -> bool {
    let Some(a) = read_macct(&w.vm, acct) else { return false };
    let h = health(&w.vm, &a, Req::Maintenance, w.vm.now());
    let (Some(assets), Some(liabs)) = (h.assets.clone(), h.liabs.clone()) else { return false };
    let vj = h.positions.iter().find(|p| !p.is_liab && p.bank == w.banks[ab].key).map(|p| p.value.lo.clone()).unwrap_or_else(q_zero);
    if !vj.is_positive() {
        return false;
    }
    let want = &liabs.hi - q_ratio(depth_pm as i64, 1000i64) * &liabs.hi - (&assets.lo - &vj);
    if !want.is_positive() {
        return false;
    }
    let f = want / &vj;
    let o = w.banks[ab].spec.oracle.clone();
    let nm = q_floor(&(q_int(o.mant) * &f)).to_i64().unwrap_or(i64::MAX / 4).clamp(1, i64::MAX / 4);
    let conf = ((o.conf as u128).saturating_mul(nm as u128) / (o.mant.max(1) as u128)) as u64;
    let ema = ((o.ema_mant as u128).saturating_mul(nm as u128) / (o.mant.max(1) as u128)).clamp(1, (i64::MAX / 4) as u128) as i64;
    let ema_conf = ((o.ema_conf as u128).saturating_mul(nm as u128) / (o.mant.max(1) as u128)) as u64;
    w.set_price(ab, nm, conf, if o.kind == 1 { ema } else { nm }, if o.kind == 1 { ema_conf } else { conf }).is_ok()
}

fn spot_price(b: &BankSpec) -> Q {
    q_int(b.oracle.mant) * if b.oracle.expo >= 0 { pow10(b.oracle.expo as u32) } else { q_one() / pow10((-b.oracle.expo) as u32) }
}

/// amount of bank `to` worth `num/den` of `amt` units of bank `from` at the current spot prices
fn convert(w: &World, from: usize, to: usize, amt: u64, num: u64, den: u64) -> u64 {
    let (bf, bt) = (&w.banks[from].spec, &w.banks[to].spec);
    let v = q_int(amt) * spot_price(bf) / pow10(bf.decimals as u32);
    let n = v * q_ratio(num, den) / spot_price(bt) * pow10(bt.decimals as u32);
    q_floor(&n).to_u64().unwrap_or(u64::MAX / 4)
}

fn set_op_state_bytes(vm: &mut Vm, bank: &Pubkey, st: BankOperationalState) {
    let mut b: Bank = read_bank(vm, bank);
    b.config.operational_state = st;
    vm.modify(bank, |a| {
        let n = std::mem::size_of::<Bank>();
        a.data[8..8 + n].copy_from_slice(bytemuck::bytes_of(&b));
    });
}

fn op_state_of(vm: &Vm, bank: &Pubkey) -> BankOperationalState {
    read_bank(vm, bank).config.operational_state
}

// ------------------------------------------------------------------------------------------
// preparation of the base world
// ------------------------------------------------------------------------------------------
pub struct Prep {
    pub w: World,
    /// preparation steps the program refused (the rows that depend on them will be unreached)
    pub notes: Vec<&'static str>,
}

pub fn prepare(c: &Case) -> Result<Prep, String> {
    let mut w = World::build(&c.spec)?;
    let ut = unit_amount(&c.spec.banks[T], c.base_usd);
    let uo = unit_amount(&c.spec.banks[O], c.base_usd);
    let ux = unit_amount(&c.spec.banks[X], c.base_usd);
    for (bi, u) in [(T, ut), (O, uo), (X, ux)] {
        if !deposit(&mut w, UL, bi, u.saturating_mul(200)) {
            return Err(format!("lender deposit {bi}"));
        }
    }
    // empty balance: at share value 1 deposit and withdraw the same amount (the balance stays active with ~0 shares)
    {
        let a = (ut / 10).max(10);
        deposit(&mut w, UDU, T, a);
        let usr = w.users[UDU].clone();
        let tk = w.banks[T].key;
        let (av, _) = pos_amounts(&w.vm, &usr.accts[0], &tk);
        let sp = &c.spec.banks[T];
        let fee = |x: u64| -> u64 {
            if sp.token != 2 || sp.fee_bps == 0 {
                0
            } else {
                ((x as u128 * sp.fee_bps as u128 + 9_999) / 10_000).min(sp.fee_max as u128) as u64
            }
        };
        let guess = av - fee(av);
        for cand in [guess, guess + 1, guess.saturating_sub(1), guess + 2, guess.saturating_sub(2)] {
            let mut t = w.clone();
            let ix = t.ix_withdraw(usr.accts[0], usr.auth, T, usr.tokens[T], cand, None);
            if t.vm.exec(&ix).is_ok() && pos_amounts(&t.vm, &usr.accts[0], &tk).0 == 0 {
                w = t;
                break;
            }
        }
    }
    let mut notes: Vec<&'static str> = vec![];
    let mut step = |ok: bool, name: &'static str| {
        if !ok {
            notes.push(name);
        }
    };
    // early borrower: fees accrue in T during wait0
    step(deposit(&mut w, UFEE, O, uo.saturating_mul(40)), "fee-borrower-deposit");
    step(borrow_frac_of_power(&mut w, UFEE, T, 3, 10), "fee-borrower-borrow");
    // the emissions depositor is in early so that emissions accrue to it
    step(deposit(&mut w, UE, T, ut), "emissions-depositor");
    w.vm.advance(c.wait0 as i64);
    w.refresh_oracles();
    step(w.vm.exec(&w.ix_accrue(T)).is_ok(), "accrue");
    step(deposit(&mut w, UD, T, ut), "depositor");
    // ordinary borrower
    step(deposit(&mut w, UB, O, uo.saturating_mul(4)), "borrower-deposit");
    step(borrow_frac_of_power(&mut w, UB, T, c.borrow_frac as u64, 65_536), "borrower-borrow");
    // liquidatees
    step(deposit(&mut w, ULL, O, uo.saturating_mul(4)), "liquidatee-L-deposit");
    step(borrow_frac_of_power(&mut w, ULL, T, 8, 10), "liquidatee-L-borrow");
    step(deposit(&mut w, ULA, T, ut.saturating_mul(4)), "liquidatee-A-deposit");
    step(borrow_frac_of_power(&mut w, ULA, O, 8, 10), "liquidatee-A-borrow");
    // flash user
    step(deposit(&mut w, UF, O, uo.saturating_mul(4)), "flash-user-deposit");
    // bankrupt-to-be: collateral small enough to be worth < $0.1 at the minimum price
    let cap = crash_cap(&c.spec.banks[X]);
    step(deposit(&mut w, UK, X, ux.saturating_mul(4).min(cap).max(1)), "bankrupt-deposit");
    step(borrow_frac_of_power(&mut w, UK, T, 5, 10), "bankrupt-borrow");
    // transferred account
    step(deposit(&mut w, UTR, T, ut), "transfer-user-deposit");
    step(borrow_frac_of_power(&mut w, UTR, O, 2, 10), "transfer-user-borrow");
    // valuation clause accounts
    step(deposit(&mut w, UR9, T, ut.saturating_mul(4)), "valuation-deposit");
    step(borrow_frac_of_power(&mut w, UR9, O, 4, 10), "valuation-borrow");
    step(deposit(&mut w, UR10, T, ut.saturating_mul(4)), "valuation-deposit-2");
    // liquidation records
    for u in [ULL, ULA, UR9] {
        let ix = w.ix_init_liq_record(w.users[u].accts[0], w.users[UL].auth);
        step(w.vm.exec(&ix).is_ok(), "init-liquidation-record");
    }
    // permissionless fee withdrawals go to the lender's token account
    let ix = ix_update_fees_destination(&w, T, w.roles.admin, w.users[UL].tokens[T]);
    step(w.vm.exec(&ix).is_ok(), "fees-destination");
    Ok(Prep { w, notes })
}

fn setup_emissions(w: &mut World, c: &Case) -> bool {
    // roughly 1000 emission units per hour for the one-unit depositor
    let ut = unit_amount(&c.spec.banks[T], c.base_usd);
    let rate = (q_int(8_760_000u64) * pow10(c.spec.banks[T].decimals as u32) / q_int(ut)).to_integer().to_u64().unwrap_or(u64::MAX / 2).clamp(1, 1_000_000_000_000_000);
    // plain SPL mint with 6 decimals, funding account owned by the emissions admin
    w.vm.set(emis_mint(), spl_mint_acct(6));
    let funding = kp("c14-emissions-funding", 0);
    w.vm.set(funding, spl_token_acct(emis_mint(), w.roles.emissions, 1 << 60));
    for u in [UE, UL] {
        w.vm.set(emis_user_token(u), spl_token_acct(emis_mint(), w.users[u].auth, 0));
    }
    // canonical ATA of the depositor's wallet for the permissionless variant
    let wallet = w.users[UE].auth;
    w.vm.set(ata(&wallet, &emis_mint(), &spl_token::ID), spl_token_acct(emis_mint(), wallet, 0));
    let ix = ix_setup_emissions(w, T, funding, marginfi_type_crate::constants::EMISSIONS_FLAG_LENDING_ACTIVE, rate, 1 << 50);
    if w.vm.exec(&ix).is_err() {
        return false;
    }
    let usr = w.users[UE].clone();
    let ix = ix_update_emissions_destination(usr.accts[0], usr.auth, wallet);
    w.vm.exec(&ix).is_ok()
}

/// row-specific snapshot: price steering / fee collection so that the baseline can succeed
fn row_prep(base: &World, c: &Case, row: Row) -> Option<World> {
    let mut w = base.clone();
    match row {
        // emissions on T (lending side) exist only in the snapshots of the emissions rows: a balance with
        // outstanding emissions cannot be closed, which would make withdraw_all unreachable elsewhere
        EmisWithdraw | EmisWithdrawPermissionless | EmisSettle => {
            if !setup_emissions(&mut w, c) {
                return None;
            }
        }
        LiqLiab | RecvLiab | RecvBare => {
            let a = w.users[ULL].accts[0];
            steer(&mut w, &a, O, c.depth_pm);
        }
        LiqAsset | RecvAsset => {
            let a = w.users[ULA].accts[0];
            steer(&mut w, &a, T, c.depth_pm);
        }
        Bankruptcy => {
            let _ = w.set_price(X, 1, 0, 1, 0);
        }
        WithdrawFees | WithdrawInsurance | WithdrawFeesPermissionless => {
            let ix = w.ix_collect_fees(T);
            let _ = w.vm.exec(&ix);
        }
        _ => {}
    }
    Some(w)
}

/// the transaction of a row, built against the state of the cell
fn row_ixs(w: &World, row: Row) -> Vec<Instruction> {
    let tk = w.banks[T].key;
    let usr = |u: usize| w.users[u].clone();
    match row {
        Deposit => {
            let u = usr(UD);
            vec![w.ix_deposit(u.accts[0], u.auth, T, u.tokens[T], (unit_amount(&w.spec.banks[T], 1) / 10).max(1), None)]
        }
        Withdraw => {
            let u = usr(UD);
            let (av, _) = pos_amounts(&w.vm, &u.accts[0], &tk);
            vec![w.ix_withdraw(u.accts[0], u.auth, T, u.tokens[T], (av / 4).max(1), None)]
        }
        WithdrawAll => {
            let u = usr(UD);
            vec![w.ix_withdraw(u.accts[0], u.auth, T, u.tokens[T], 0, Some(true))]
        }
        Borrow => {
            let u = usr(UB);
            let (_, lv) = pos_amounts(&w.vm, &u.accts[0], &tk);
            vec![w.ix_borrow(u.accts[0], u.auth, T, u.tokens[T], (lv / 8).max(1))]
        }
        Repay => {
            let u = usr(UB);
            let (_, lv) = pos_amounts(&w.vm, &u.accts[0], &tk);
            vec![w.ix_repay(u.accts[0], u.auth, T, u.tokens[T], (lv / 4).max(1), None)]
        }
        RepayAll => {
            let u = usr(UB);
            vec![w.ix_repay(u.accts[0], u.auth, T, u.tokens[T], 0, Some(true))]
        }
        LiqAsset => {
            let (lq, le) = (usr(UL), usr(ULA));
            let (av, _) = pos_amounts(&w.vm, &le.accts[0], &tk);
            vec![w.ix_liquidate(lq.accts[0], lq.auth, le.accts[0], T, O, (av / 100).max(1))]
        }
        LiqLiab => {
            let (lq, le) = (usr(UL), usr(ULL));
            let (av, _) = pos_amounts(&w.vm, &le.accts[0], &w.banks[O].key);
            vec![w.ix_liquidate(lq.accts[0], lq.auth, le.accts[0], O, T, (av / 100).max(1))]
        }
        Bankruptcy => vec![w.ix_bankruptcy(T, w.users[UK].accts[0], w.roles.admin)],
        Flash => {
            let u = usr(UF);
            let amt = (w.tok(&w.banks[T].lv) / 10).min(unit_amount(&w.spec.banks[T], 1)).max(1);
            vec![
                w.ix_start_flashloan(u.accts[0], u.auth, 3),
                w.ix_borrow_with(u.accts[0], u.auth, T, u.tokens[T], amt, vec![]),
                w.ix_repay(u.accts[0], u.auth, T, u.tokens[T], 0, Some(true)),
                w.ix_end_flashloan(u.accts[0], u.auth, w.risk_metas(&u.accts[0], None, None)),
            ]
        }
        RecvLiab | RecvAsset => {
            let (lq, le, wb, rb) = if row == RecvLiab { (usr(UL), usr(ULL), O, T) } else { (usr(UL), usr(ULA), T, O) };
            let (_, lv) = pos_amounts(&w.vm, &le.accts[0], &w.banks[rb].key);
            let ra = (lv / 40).max(1);
            let wa = convert(w, rb, wb, ra, 1, 2).max(1);
            let risk = w.risk_metas(&le.accts[0], None, None);
            vec![
                w.ix_start_liquidation(le.accts[0], lq.auth),
                w.ix_withdraw_with(le.accts[0], lq.auth, wb, lq.tokens[wb], wa, None, risk.clone()),
                w.ix_repay(le.accts[0], lq.auth, rb, lq.tokens[rb], ra, None),
                w.ix_end_liquidation(le.accts[0], lq.auth, risk),
            ]
        }
        RecvBare => {
            let (lq, le) = (usr(UL), usr(ULL));
            let risk = w.risk_metas(&le.accts[0], None, None);
            vec![w.ix_start_liquidation(le.accts[0], lq.auth), w.ix_end_liquidation(le.accts[0], lq.auth, risk)]
        }
        Transfer => {
            let u = usr(UTR);
            let new = kp("c14-transfer-target", 0);
            let mut ix = w.ix_transfer_account(u.accts[0], new, u.auth, u.auth);
            for m in ix.accounts.iter_mut() {
                if m.pubkey == new {
                    m.is_signer = true;
                }
            }
            vec![ix]
        }
        TransferPda => {
            let u = usr(UTR);
            vec![ix_transfer_account_pda(w, u.accts[0], u.auth, u.auth, 7)]
        }
        CollectFees => vec![w.ix_collect_fees(T)],
        WithdrawFees => {
            let have = w.tok(&w.banks[T].fv);
            vec![w.ix_withdraw_fees(T, w.roles.admin, w.users[UL].tokens[T], (have / 2).max(1))]
        }
        WithdrawInsurance => {
            let have = w.tok(&w.banks[T].iv);
            vec![w.ix_withdraw_insurance(T, w.roles.admin, w.users[UL].tokens[T], (have / 2).max(1))]
        }
        WithdrawFeesPermissionless => {
            let have = w.tok(&w.banks[T].fv);
            vec![ix_withdraw_fees_permissionless(w, T, w.users[UL].tokens[T], (have / 2).max(1))]
        }
        EmisWithdraw => {
            let u = usr(UE);
            vec![ix_withdraw_emissions(w, T, u.accts[0], u.auth, emis_user_token(UE))]
        }
        EmisWithdrawPermissionless => {
            let u = usr(UE);
            vec![ix_withdraw_emissions_permissionless(w, T, u.accts[0], ata(&u.auth, &emis_mint(), &spl_token::ID))]
        }
        EmisSettle => vec![ix_settle_emissions(w, T, w.users[UE].accts[0])],
        CloseBalance => {
            let u = usr(UDU);
            vec![w.ix_close_balance(u.accts[0], u.auth, T)]
        }
        Accrue => vec![w.ix_accrue(T)],
        Pulse => vec![w.ix_pulse_health(w.users[UD].accts[0])],
        FlashBare => {
            let u = usr(UF);
            vec![w.ix_start_flashloan(u.accts[0], u.auth, 1), w.ix_end_flashloan(u.accts[0], u.auth, w.risk_metas(&u.accts[0], None, None))]
        }
    }
}

// ------------------------------------------------------------------------------------------
// the columns
// ------------------------------------------------------------------------------------------
fn apply_state(w: &mut World, st: BState) -> Result<(), String> {
    let tk = w.banks[T].key;
    let configure = |w: &mut World, s: BankOperationalState| {
        let mut o = BankConfigOpt::default();
        o.operational_state = Some(s);
        let ix = w.ix_configure_bank(T, o, w.roles.admin);
        w.vm.exec(&ix)
    };
    match st {
        BState::Operational => {}
        BState::Paused => configure(w, BankOperationalState::Paused).map_err(|e| format!("configure_bank(Paused) refused: {e:?}"))?,
        BState::ReduceOnly => configure(w, BankOperationalState::ReduceOnly).map_err(|e| format!("configure_bank(ReduceOnly) refused: {e:?}"))?,
        BState::KilledInjected => set_op_state_bytes(&mut w.vm, &tk, BankOperationalState::KilledByBankruptcy),
        BState::KilledThenConfigure(n) => {
            set_op_state_bytes(&mut w.vm, &tk, BankOperationalState::KilledByBankruptcy);
            let _ = configure(w, op_state(n));
        }
        BState::KilledFrozenThenConfigure(n) => {
            set_op_state_bytes(&mut w.vm, &tk, BankOperationalState::KilledByBankruptcy);
            let mut o = BankConfigOpt::default();
            o.freeze_settings = Some(true);
            let ix = w.ix_configure_bank(T, o, w.roles.admin);
            let _ = w.vm.exec(&ix);
            let _ = configure(w, op_state(n));
        }
        BState::PausedTokenless | BState::KilledTokenless => {
            let mut o = BankConfigOpt::default();
            o.tokenless_repayments_allowed = Some(true);
            let ix = w.ix_configure_bank(T, o, w.roles.admin);
            w.vm.exec(&ix).map_err(|e| format!("configure_bank(tokenless_repayments_allowed) refused: {e:?}"))?;
            if st == BState::PausedTokenless {
                configure(w, BankOperationalState::Paused).map_err(|e| format!("configure_bank(Paused) refused: {e:?}"))?;
            } else {
                set_op_state_bytes(&mut w.vm, &tk, BankOperationalState::KilledByBankruptcy);
            }
        }
    }
    Ok(())
}

const PROPAGATE_MISMATCH: &str = "PROPAGATE-MISMATCH:";

/// run the pause recipe of the column and move the clock to Tb + toff
fn run_timeline(w: &mut World, c: &Case, col: PCol, toff: i64) -> Result<(), String> {
    let tb = w.vm.now();
    fn go(w: &mut World, to: i64) {
        let d = to - w.vm.now();
        if d > 0 {
            w.vm.advance(d);
        }
    }
    let pause = |w: &mut World| {
        let ix = w.ix_panic_pause(w.roles.fee_admin);
        w.vm.exec(&ix).map_err(|e| format!("panic_pause refused: {e:?}"))
    };
    let propagate = |w: &mut World| -> Result<(), String> {
        let ix = w.ix_propagate_fee_state();
        w.vm.exec(&ix).map_err(|e| format!("propagate_fee_state refused: {e:?}"))?;
        // a successful propagation must leave the group with the pause window of the fee state
        // ("pause in force for a group" is then the same interval as the protocol-wide pause)
        let d = w.vm.data(&w.fee_state);
        let fs = bytemuck::pod_read_unaligned::<marginfi_type_crate::types::FeeState>(&d[8..8 + std::mem::size_of::<marginfi_type_crate::types::FeeState>()]);
        let pc = w.group_state().panic_state_cache;
        let (ff, cf) = (fs.panic_state.pause_flags & 1 != 0, pc.pause_flags & 1 != 0);
        if ff != cf || (ff && fs.panic_state.pause_start_timestamp != pc.pause_start_timestamp) {
            return Err(format!(
                "{PROPAGATE_MISMATCH}propagate_fee_state succeeded at t={} but the group's cached pause (flag={cf}, start={}) differs from the fee state's (flag={ff}, start={}): the pause in force protocol-wide is not the one enforced for the group",
                w.vm.now(), pc.pause_start_timestamp, fs.panic_state.pause_start_timestamp
            ));
        }
        Ok(())
    };
    match col {
        PCol::Never => {}
        PCol::Active | PCol::ExpiredUntouched | PCol::ExpiredFeeCleared => {
            go(w, tb + P);
            pause(w)?;
            propagate(w)?;
        }
        PCol::Extended => {
            pause(w)?;
            propagate(w)?;
            go(w, tb + c.k as i64);
            pause(w)?;
            propagate(w)?;
        }
        PCol::ExtendedUnpropagated => {
            pause(w)?;
            propagate(w)?;
            go(w, tb + c.k as i64);
            pause(w)?;
        }
        PCol::Unpropagated => {
            go(w, tb + P);
            pause(w)?;
        }
        PCol::AdminUnpausedStale => {
            go(w, tb + P);
            pause(w)?;
            propagate(w)?;
            go(w, tb + P + c.u as i64);
            let ix = w.ix_panic_unpause(w.roles.fee_admin);
            w.vm.exec(&ix).map_err(|e| format!("panic_unpause refused: {e:?}"))?;
        }
    }
    go(w, tb + toff);
    // the recipe must have produced the intended cache (otherwise the matrix would be vacuous)
    let pc = w.group_state().panic_state_cache;
    let (flag, start) = col.intended_cache();
    let got_flag = pc.pause_flags & 1 != 0;
    if got_flag != flag || (flag && pc.pause_start_timestamp != tb + start) {
        return Err(format!("column {} produced cache flag={} start={} (Tb={tb}), intended flag={} start={}", col.name(), got_flag, pc.pause_start_timestamp, flag, tb + start));
    }
    Ok(())
}

#[derive(Clone, Debug)]
struct Outcome {
    ok: bool,
    err: Option<(usize, u64)>,
    /// the pause is in force for the group according to the cached bytes (statement's predicate)
    paused: bool,
    cache_flag: bool,
    store_unchanged: bool,
    cache_untouched: bool,
    revived: bool,
}

fn eval_cell(rw: &World, c: &Case, row: Row, state: BState, col: PCol, toff: i64) -> Result<Outcome, String> {
    let mut w = rw.clone();
    if c.state_first {
        apply_state(&mut w, state)?;
    }
    run_timeline(&mut w, c, col, toff)?;
    w.refresh_oracles();
    if !c.state_first {
        apply_state(&mut w, state)?;
    }
    if col == PCol::ExpiredFeeCleared {
        let ix = w.ix_panic_unpause_permissionless();
        let _ = w.vm.exec(&ix);
    }
    let revived = state.killed() && op_state_of(&w.vm, &w.banks[T].key) != BankOperationalState::KilledByBankruptcy;
    let pc = w.group_state().panic_state_cache;
    let cache_flag = pc.pause_flags & 1 != 0;
    let paused = cache_flag && w.vm.now() < pc.pause_start_timestamp.saturating_add(P);
    let ixs = row_ixs(&w, row);
    let pre = w.vm.accts.clone();
    let r = w.vm.exec_tx(&ixs);
    let store_unchanged = w.vm.accts == pre;
    let cache_untouched = w.group_state().panic_state_cache == pc;
    Ok(Outcome { ok: r.ok, err: r.err.as_ref().map(|(i, e)| (*i, crate::svm::err_code(e))), paused, cache_flag, store_unchanged, cache_untouched, revived })
}

#[derive(Clone, Debug, PartialEq)]
enum Expect {
    /// must be refused; the string names the gate (bank state or pause column)
    Fail(&'static str),
    /// must be accepted (the baseline succeeded and the statement says it still works / works again)
    Succeed(&'static str),
    Silent,
}

/// The expectation table, written from the statement.
fn expectation(row: Row, state: BState, col: PCol, paused: bool, baseline_ok: bool) -> Expect {
    if row.counted_only() {
        return Expect::Silent;
    }
    // bank state
    let bank_fail = match state {
        BState::Operational => false,
        BState::Paused | BState::PausedTokenless => row.touches_bank(),
        BState::ReduceOnly => row.refused_reduce_only(),
        BState::KilledInjected | BState::KilledThenConfigure(_) | BState::KilledFrozenThenConfigure(_) | BState::KilledTokenless => row.touches_bank(),
    };
    if bank_fail {
        return Expect::Fail(state.name());
    }
    // group pause: every fund-moving / position-changing instruction of the group is refused
    if paused {
        return Expect::Fail(col.name());
    }
    let bank_allows = match state {
        BState::Operational => true,
        BState::ReduceOnly => row.works_reduce_only(),
        _ => false,
    };
    if bank_allows && baseline_ok {
        if col == PCol::Never && state != BState::Operational {
            return Expect::Succeed(state.name());
        }
        if col.success_asserted() {
            return Expect::Succeed(if state == BState::Operational { col.name() } else { state.name() });
        }
    }
    Expect::Silent
}

#[derive(Clone, Debug)]
pub struct Viol {
    pub sig: String,
    pub msg: String,
    pub cell: CellId,
}

#[derive(Default, Debug)]
pub struct Stats {
    pub labels: BTreeMap<String, u64>,
    pub nontrivial: Vec<u64>,
    pub built: bool,
    pub engine: Vec<String>,
    pub injected: u64,
    pub cells: u64,
    pub kill_reached: bool,
}
impl Stats {
    fn label(&mut self, l: String) {
        *self.labels.entry(l).or_insert(0) += 1;
    }
}

fn judge(row: Row, state: BState, col: PCol, toff: i64, o: &Outcome, baseline_ok: bool, cell: &CellId) -> Result<Expect, Viol> {
    let v = |sig: String, msg: String| Viol { sig, msg, cell: cell.clone() };
    let at = format!("{} / bank {} / pause column {} / Tb{:+}s", row.name(), state.name(), col.name(), toff);
    if o.revived {
        return Err(v(format!("gate:Killed-revived:{}", row.name()), format!("{at}: configure_bank took the bank out of KilledByBankruptcy")));
    }
    let e = expectation(row, state, col, o.paused, baseline_ok);
    match &e {
        Expect::Fail(gate) => {
            if o.ok {
                return Err(v(format!("gate:{gate}:{}", row.name()), format!("{at}: the transaction was accepted although it must be refused ({gate}); group paused by cached state = {}", o.paused)));
            }
            if !o.store_unchanged {
                return Err(v(format!("gate:atomic:{}", row.name()), format!("{at}: refused transaction changed the account store")));
            }
        }
        Expect::Succeed(gate) => {
            if !o.ok {
                return Err(v(
                    format!("gate:{gate}:{}", row.name()),
                    format!("{at}: refused with {:?} although the same transaction succeeds on the operational, never-paused reference at the same second and the statement says it {} (cache flag still set = {})", o.err, if state == BState::ReduceOnly { "still works in a reduce-only bank" } else { "is accepted again once the pause has expired" }, o.cache_flag),
                ));
            }
            if !o.cache_untouched {
                return Err(v(format!("gate:cache-touched:{}", row.name()), format!("{at}: the instruction rewrote the group's cached pause state")));
            }
        }
        Expect::Silent => {
            if !o.ok && !o.store_unchanged {
                return Err(v(format!("gate:atomic:{}", row.name()), format!("{at}: refused transaction changed the account store")));
            }
        }
    }
    Ok(e)
}

// ------------------------------------------------------------------------------------------
// the matrix
// ------------------------------------------------------------------------------------------
fn matrix_states() -> Vec<BState> {
    STATES.to_vec()
}

/// extra (state, col, toff) cells: terminality of the injected kill under admin reconfiguration
fn extra_cells() -> Vec<(BState, PCol, i64)> {
    let mut v = vec![];
    for n in 0..3u8 {
        v.push((BState::KilledThenConfigure(n), PCol::Never, 2 * P));
        v.push((BState::KilledThenConfigure(n), PCol::ExpiredUntouched, 2 * P));
        v.push((BState::KilledFrozenThenConfigure(n), PCol::Never, 2 * P));
    }
    for st in [BState::PausedTokenless, BState::KilledTokenless] {
        v.push((st, PCol::Never, 2 * P));
        v.push((st, PCol::ExpiredUntouched, 2 * P));
    }
    v
}

fn side_of(col: PCol, toff: i64) -> Option<&'static str> {
    if !col.success_asserted() {
        return None;
    }
    match toff - 2 * P {
        -1 => Some("before"),
        0 => Some("at"),
        1 => Some("after"),
        _ => None,
    }
}

fn run_matrix(p: &Prep, c: &Case, case_hash: u64, focus: Option<&CellId>, st: &mut Stats) -> Result<(), Viol> {
    for (ri, row) in ROWS.iter().enumerate() {
        let row = *row;
        if let Some(f) = focus {
            match f {
                CellId::Matrix { row: fr, .. } if *fr == row => {}
                _ => continue,
            }
        }
        let Some(rw) = row_prep(&p.w, c, row) else {
            st.label(format!("row-reached:{}:never", row.name()));
            continue;
        };
        // reference: Operational, never paused, every absolute time
        let mut base: BTreeMap<i64, bool> = BTreeMap::new();
        for &t in PCol::Never.times() {
            if let Some(CellId::Matrix { toff, .. }) = focus {
                if *toff != t {
                    continue;
                }
            }
            match eval_cell(&rw, c, row, BState::Operational, PCol::Never, t) {
                Ok(o) => {
                    base.insert(t, o.ok);
                    if focus.is_none() {
                        st.label(format!("baseline:{}:{}", row.name(), if o.ok { "ok".to_string() } else { format!("err{:?}", o.err.map(|e| e.1)) }));
                    }
                }
                Err(e) => st.engine.push(format!("reference {}: {e}", row.name())),
            }
        }
        if focus.is_none() {
            let reached = base.values().filter(|b| **b).count();
            st.label(format!("row-reached:{}:{}", row.name(), if reached == base.len() { "all-times" } else if reached > 0 { "some-times" } else { "never" }));
        }
        let mut cells: Vec<(BState, PCol, i64)> = vec![];
        for s in matrix_states() {
            for col in PCOLS {
                for &t in col.times() {
                    if s == BState::Operational && col == PCol::Never {
                        continue; // that is the reference itself
                    }
                    cells.push((s, col, t));
                }
            }
        }
        cells.extend(extra_cells());
        for (ci, (s, col, t)) in cells.into_iter().enumerate() {
            let cell = CellId::Matrix { row, state: s, col, toff: t };
            if let Some(f) = focus {
                if *f != cell {
                    continue;
                }
            }
            let baseline_ok = base.get(&t).copied().unwrap_or(false);
            let o = match eval_cell(&rw, c, row, s, col, t) {
                Ok(o) => o,
                Err(e) => {
                    if let Some(m) = e.strip_prefix(PROPAGATE_MISMATCH) {
                        return Err(Viol { sig: format!("gate:propagate-left-stale-cache:{}", col.name()), msg: format!("pause column {}: {m}", col.name()), cell });
                    }
                    st.engine.push(format!("cell {cell:?}: {e}"));
                    continue;
                }
            };
            st.cells += 1;
            if s.killed() {
                st.injected += 1;
            }
            let e = judge(row, s, col, t, &o, baseline_ok, &cell)?;
            if focus.is_some() {
                continue;
            }
            let gate_open = if o.paused { "group-paused" } else { "group-open" };
            if s == BState::Operational && !row.counted_only() && baseline_ok {
                st.label(format!("column:{}:{}:{}", col.name(), gate_open, if o.ok { "accepted" } else { "refused" }));
            }
            match e {
                Expect::Fail(_) => {
                    st.label(format!("refused-as-required:{}:{}:{}", row.name(), s.name(), gate_open));
                    if baseline_ok {
                        st.nontrivial.push(splitmix(case_hash ^ ((ri as u64) << 32 | ci as u64)));
                        if let (Some(side), BState::Operational) = (side_of(col, t), s) {
                            st.label(format!("expiry-side:{}:{}:refused", row.name(), side));
                        }
                    } else {
                        st.label(format!("unreached-cell:{}", row.name()));
                    }
                }
                Expect::Succeed(_) => {
                    st.label(format!("accepted-as-required:{}:{}:{}", row.name(), s.name(), if o.cache_flag { "stale-cache" } else { "clean-cache" }));
                    st.nontrivial.push(splitmix(case_hash ^ ((ri as u64) << 32 | ci as u64)));
                    if let (Some(side), BState::Operational) = (side_of(col, t), s) {
                        st.label(format!("expiry-side:{}:{}:accepted", row.name(), side));
                    }
                }
                Expect::Silent => {
                    if row.counted_only() {
                        st.label(format!("counted:{}:{}:{}:{}", row.name(), s.name(), gate_open, if o.ok { "accepted" } else { "refused" }));
                    } else if !baseline_ok {
                        st.label(format!("unreached-cell:{}", row.name()));
                    } else {
                        st.label(format!("not-asserted:{}:{}:{}", row.name(), s.name(), if o.ok { "accepted" } else { "refused" }));
                    }
                }
            }
        }
    }
    Ok(())
}

// ------------------------------------------------------------------------------------------
// ReduceOnly valuation clause
// ------------------------------------------------------------------------------------------
fn run_valuation(p: &Prep, case_hash: u64, focus: Option<&CellId>, st: &mut Stats) -> Result<(), Viol> {
    if let Some(f) = focus {
        if !matches!(f, CellId::Valuation { .. }) {
            return Ok(());
        }
    }
    let base = &p.w;
    let mut ro = base.clone();
    if let Err(e) = apply_state(&mut ro, BState::ReduceOnly) {
        st.engine.push(e);
        return Ok(());
    }
    let tk = base.banks[T].key;
    // (0) an account whose only collateral is in the reduce-only bank cannot borrow at all
    {
        let u = base.users[UR10].clone();
        let pw = power(base, &u.accts[0], O).min(base.tok(&base.banks[O].lv) / 4);
        for (vi, amt) in [1u64, (pw / 1000).max(1), (pw / 2).max(1)].into_iter().enumerate() {
            let cell = CellId::Valuation { which: 0, variant: vi as u8 };
            if let Some(f) = focus {
                if *f != cell {
                    continue;
                }
            }
            let ix = base.ix_borrow(u.accts[0], u.auth, O, u.tokens[O], amt);
            let base_ok = base.vm.clone().exec(&ix).is_ok();
            let mut vm = ro.vm.clone();
            let pre = vm.accts.clone();
            let ok = vm.exec(&ix).is_ok();
            if ok {
                return Err(Viol { sig: "gate:ReduceOnly:borrow-against-reduce-only-collateral".into(), msg: format!("an account whose only collateral sits in the reduce-only bank borrowed {amt} units of another bank"), cell });
            }
            if vm.accts != pre {
                return Err(Viol { sig: "gate:atomic:borrow".into(), msg: "refused borrow changed the store".into(), cell });
            }
            if focus.is_none() {
                st.label(format!("valuation:borrow-against-ro:{}", if base_ok { "refused(baseline-ok)" } else { "refused(baseline-failed)" }));
                if base_ok {
                    st.nontrivial.push(splitmix(case_hash ^ (0xA000 + vi as u64)));
                }
            }
        }
    }
    // (1)/(2) its deposits still count for liquidation purposes: a healthy-at-maintenance account is not liquidatable
    {
        let le = base.users[UR9].clone();
        let lq = base.users[UL].clone();
        let Some(a) = read_macct(&ro.vm, &le.accts[0]) else { return Ok(()) };
        let hm = health(&ro.vm, &a, Req::Maintenance, ro.vm.now());
        let hi = health(&ro.vm, &a, Req::Initial, ro.vm.now());
        let counts = hm.positions.iter().any(|p| !p.is_liab && p.bank == tk && p.value.lo.is_positive());
        let healthy = hm.health().map(|h| (&h.lo - &hm.ignored).is_positive()).unwrap_or(false);
        let init_negative = hi.health().map(|h| h.hi.is_negative()).unwrap_or(false) && hi.reduce_only_collateral;
        if focus.is_none() {
            st.label(format!("valuation:model:maint-counts-deposit={counts}:healthy={healthy}:init-zeroed-and-negative={init_negative}"));
        }
        if healthy && hm.n_liabs > 0 {
            let (av, _) = pos_amounts(&ro.vm, &le.accts[0], &tk);
            for (vi, amt) in [1u64, (av / 100).max(1), (av / 2).max(1)].into_iter().enumerate() {
                let cell = CellId::Valuation { which: 1, variant: vi as u8 };
                if let Some(f) = focus {
                    if *f != cell {
                        continue;
                    }
                }
                let ix = ro.ix_liquidate(lq.accts[0], lq.auth, le.accts[0], T, O, amt);
                let mut vm = ro.vm.clone();
                if vm.exec(&ix).is_ok() {
                    return Err(Viol {
                        sig: "gate:ReduceOnly:liquidate-healthy".into(),
                        msg: format!("classic liquidation (seize {amt}) succeeded on an account that is healthy at maintenance when its reduce-only deposit is counted (the state change made it liquidatable)"),
                        cell,
                    });
                }
                if focus.is_none() {
                    st.label("valuation:liquidate-healthy:refused".into());
                    if init_negative {
                        st.nontrivial.push(splitmix(case_hash ^ (0xB000 + vi as u64)));
                    }
                }
            }
            let cell = CellId::Valuation { which: 2, variant: 0 };
            if focus.map(|f| *f == cell).unwrap_or(true) {
                let risk = ro.risk_metas(&le.accts[0], None, None);
                let ixs = vec![ro.ix_start_liquidation(le.accts[0], lq.auth), ro.ix_end_liquidation(le.accts[0], lq.auth, risk)];
                let mut vm = ro.vm.clone();
                if vm.exec_tx(&ixs).ok {
                    return Err(Viol { sig: "gate:ReduceOnly:receivership-healthy".into(), msg: "start_liquidation accepted an account that is healthy at maintenance when its reduce-only deposit is counted".into(), cell });
                }
                if focus.is_none() {
                    st.label("valuation:receivership-healthy:refused".into());
                }
            }
            // (3) ... nor does its debt qualify as bad debt: the bankruptcy assessment counts the reduce-only deposit too
            let cell = CellId::Valuation { which: 3, variant: 0 };
            if focus.map(|f| *f == cell).unwrap_or(true) {
                let ix = ro.ix_bankruptcy(O, le.accts[0], ro.roles.admin);
                let mut vm = ro.vm.clone();
                if vm.exec(&ix).is_ok() {
                    return Err(Viol { sig: "gate:ReduceOnly:bankruptcy-of-solvent-account".into(), msg: "handle_bankruptcy wrote off the debt of an account that is healthy at maintenance when its reduce-only deposit is counted".into(), cell });
                }
                if focus.is_none() {
                    st.label("valuation:bankruptcy-solvent:refused".into());
                }
            }
        }
    }
    Ok(())
}

// ------------------------------------------------------------------------------------------
// the real wipe-out path
// ------------------------------------------------------------------------------------------
const KILL_ROWS: [Row; 10] = [Deposit, Withdraw, WithdrawAll, Borrow, Repay, RepayAll, LiqLiab, LiqAsset, Bankruptcy, RecvLiab];
// users of the kill scenario
const KL: usize = 0;
const KD: usize = 1;
const KS: usize = 2;
const KLL: usize = 3;
const KLA: usize = 4;
const KV: usize = 5;
const KW: usize = 6;

fn kill_ixs(w: &World, row: Row) -> Vec<Instruction> {
    let tk = w.banks[T].key;
    let usr = |u: usize| w.users[u].clone();
    match row {
        Deposit => {
            let u = usr(KD);
            vec![w.ix_deposit(u.accts[0], u.auth, T, u.tokens[T], 1000, None)]
        }
        Withdraw => {
            let u = usr(KD);
            vec![w.ix_withdraw(u.accts[0], u.auth, T, u.tokens[T], 1, None)]
        }
        WithdrawAll => {
            let u = usr(KD);
            vec![w.ix_withdraw(u.accts[0], u.auth, T, u.tokens[T], 0, Some(true))]
        }
        Borrow => {
            let u = usr(KS);
            vec![w.ix_borrow(u.accts[0], u.auth, T, u.tokens[T], 1)]
        }
        Repay => {
            let u = usr(KS);
            let (_, lv) = pos_amounts(&w.vm, &u.accts[0], &tk);
            vec![w.ix_repay(u.accts[0], u.auth, T, u.tokens[T], (lv / 4).max(1), None)]
        }
        RepayAll => {
            let u = usr(KS);
            vec![w.ix_repay(u.accts[0], u.auth, T, u.tokens[T], 0, Some(true))]
        }
        LiqLiab => {
            let (lq, le) = (usr(KL), usr(KLL));
            let (av, _) = pos_amounts(&w.vm, &le.accts[0], &w.banks[O].key);
            vec![w.ix_liquidate(lq.accts[0], lq.auth, le.accts[0], O, T, (av / 100).max(1))]
        }
        LiqAsset => {
            let (lq, le) = (usr(KL), usr(KLA));
            vec![w.ix_liquidate(lq.accts[0], lq.auth, le.accts[0], T, O, 1)]
        }
        Bankruptcy => vec![w.ix_bankruptcy(T, w.users[KW].accts[0], w.roles.admin)],
        _ => {
            let (lq, le) = (usr(KL), usr(KLL));
            let (_, lv) = pos_amounts(&w.vm, &le.accts[0], &tk);
            let ra = (lv / 40).max(1);
            let wa = convert(w, T, O, ra, 1, 2).max(1);
            let risk = w.risk_metas(&le.accts[0], None, None);
            vec![
                w.ix_start_liquidation(le.accts[0], lq.auth),
                w.ix_withdraw_with(le.accts[0], lq.auth, O, lq.tokens[O], wa, None, risk.clone()),
                w.ix_repay(le.accts[0], lq.auth, T, lq.tokens[T], ra, None),
                w.ix_end_liquidation(le.accts[0], lq.auth, risk),
            ]
        }
    }
}

/// Build a bank that is killed by a real wipe-out bankruptcy. None = the scenario did not reach a kill.
fn build_killed(c: &Case, st: &mut Stats) -> Option<World> {
    let mut w = World::build(&c.spec).ok()?;
    let uo = unit_amount(&c.spec.banks[O], c.base_usd);
    let cap = crash_cap(&c.spec.banks[X]);
    if cap == 0 {
        st.label("real-kill:skipped:no-crashable-collateral".into());
        return None;
    }
    // the victim's collateral, and from it the size of the whole T market
    if !deposit(&mut w, KV, X, cap) {
        st.label("real-kill:skipped:victim-deposit".into());
        return None;
    }
    let pv = power(&w, &w.users[KV].accts[0], T);
    let total = frac(pv, 9, 10);
    if total < 100_000 {
        st.label("real-kill:skipped:market-too-small".into());
        return None;
    }
    if !deposit(&mut w, KL, T, frac(total, 98, 100)) || !deposit(&mut w, KD, T, frac(total, 2, 100).max(1)) {
        st.label("real-kill:skipped:lender-deposit".into());
        return None;
    }
    deposit(&mut w, KL, O, uo.saturating_mul(200));
    // small healthy borrower, small liquidatee, second bankrupt
    let tiny = (total / 2000).max(1);
    deposit(&mut w, KS, O, uo.saturating_mul(4));
    let ps = power(&w, &w.users[KS].accts[0], T);
    borrow(&mut w, KS, T, tiny.min(ps / 3));
    deposit(&mut w, KLL, O, uo.saturating_mul(4));
    let pl = power(&w, &w.users[KLL].accts[0], T);
    borrow(&mut w, KLL, T, tiny.min(frac(pl, 8, 10)));
    deposit(&mut w, KW, X, (cap / 100).max(1));
    let pw = power(&w, &w.users[KW].accts[0], T);
    borrow(&mut w, KW, T, tiny.min(pw / 2));
    deposit(&mut w, KLA, T, (total / 100).max(1));
    borrow_frac_of_power(&mut w, KLA, O, 5, 10);
    // the victim takes (nearly) all the liquidity
    let mut amt = frac(w.tok(&w.banks[T].lv), 995, 1000);
    let mut ok = false;
    for _ in 0..5 {
        if borrow(&mut w, KV, T, amt) {
            ok = true;
            break;
        }
        amt -= amt / 50 + 1.min(amt);
    }
    if !ok {
        st.label("real-kill:skipped:victim-borrow".into());
        return None;
    }
    let ix = w.ix_init_liq_record(w.users[KLL].accts[0], w.users[KL].auth);
    let _ = w.vm.exec(&ix);
    w.vm.advance(c.kill_wait as i64);
    w.refresh_oracles();
    let _ = w.set_price(X, 1, 0, 1, 0);
    let a = w.users[KLL].accts[0];
    steer(&mut w, &a, O, c.depth_pm);
    let ix = w.ix_bankruptcy(T, w.users[KV].accts[0], w.roles.admin);
    if let Err(e) = w.vm.exec(&ix) {
        st.label(format!("real-kill:skipped:bankruptcy-refused:{}", crate::svm::err_code(&e)));
        return None;
    }
    if op_state_of(&w.vm, &w.banks[T].key) != BankOperationalState::KilledByBankruptcy {
        st.label("real-kill:skipped:loss-did-not-wipe-out".into());
        return None;
    }
    Some(w)
}

fn run_real_kill(c: &Case, case_hash: u64, focus: Option<&CellId>, st: &mut Stats) -> Result<(), Viol> {
    if let Some(f) = focus {
        if !matches!(f, CellId::RealKill { .. }) {
            return Ok(());
        }
    }
    let mut scratch = Stats::default();
    let Some(k) = build_killed(c, if focus.is_none() { st } else { &mut scratch }) else { return Ok(()) };
    let tk = k.banks[T].key;
    if focus.is_none() {
        st.label("real-kill:reached".into());
        st.kill_reached = true;
    }
    for (ri, row) in KILL_ROWS.iter().enumerate() {
        let row = *row;
        // counterfactual baseline: the same store with only the state byte put back to Operational
        let mut kp_ = k.clone();
        set_op_state_bytes(&mut kp_.vm, &tk, BankOperationalState::Operational);
        let base_ok = {
            let ixs = kill_ixs(&kp_, row);
            kp_.vm.exec_tx(&ixs).ok
        };
        if focus.is_none() {
            st.label(format!("real-kill:counterfactual:{}:{}", row.name(), if base_ok { "ok" } else { "fails-anyway" }));
        }
        for attempt in 0u8..=3 {
            let cell = CellId::RealKill { row, attempt };
            if let Some(f) = focus {
                if *f != cell {
                    continue;
                }
            }
            let mut w = k.clone();
            if attempt > 0 {
                let mut o = BankConfigOpt::default();
                o.operational_state = Some(op_state(attempt - 1));
                let ix = w.ix_configure_bank(T, o, w.roles.admin);
                let _ = w.vm.exec(&ix);
                if op_state_of(&w.vm, &tk) != BankOperationalState::KilledByBankruptcy {
                    return Err(Viol { sig: format!("gate:Killed-revived:{}", row.name()), msg: format!("configure_bank(operational_state = {:?}) took a bank killed by a real wipe-out out of KilledByBankruptcy", op_state(attempt - 1)), cell });
                }
            }
            let ixs = kill_ixs(&w, row);
            let pre = w.vm.accts.clone();
            let r = w.vm.exec_tx(&ixs);
            if r.ok {
                return Err(Viol { sig: format!("gate:Killed:{}", row.name()), msg: format!("{} was accepted by a bank killed through a real wipe-out bankruptcy (after {} admin reconfiguration attempt)", row.name(), if attempt == 0 { "no".to_string() } else { format!("a configure_bank({:?})", op_state(attempt - 1)) }), cell });
            }
            if w.vm.accts != pre {
                return Err(Viol { sig: format!("gate:atomic:{}", row.name()), msg: "refused transaction changed the store".into(), cell });
            }
            if focus.is_none() {
                st.cells += 1;
                if base_ok {
                    st.nontrivial.push(splitmix(case_hash ^ (0xC000 + (ri as u64) * 8 + attempt as u64)));
                    st.label(format!("real-kill:refused-as-required:{}", row.name()));
                }
            }
        }
    }
    Ok(())
}

// ------------------------------------------------------------------------------------------
// one world
// ------------------------------------------------------------------------------------------
pub fn run_world(c: &Case, focus: Option<&CellId>, st: &mut Stats) -> Result<(), Viol> {
    let case_hash = hash_json(&serde_json::to_value(c).unwrap());
    let p = match prepare(c) {
        Ok(p) => p,
        Err(e) => {
            st.label(format!("world-not-built:{}", e.split(':').next().unwrap_or("")));
            return Ok(());
        }
    };
    st.built = true;
    if focus.is_none() {
        for n in &p.notes {
            st.label(format!("prep-step-refused:{n}"));
        }
    }
    // the small scenarios first (a defect in the state gate shows there within milliseconds)
    run_real_kill(c, case_hash, focus, st)?;
    run_valuation(&p, case_hash, focus, st)?;
    run_matrix(&p, c, case_hash, focus, st)?;
    Ok(())
}

const RULE: &str = "Worlds are generated by proptest (3 banks: target bank T with a fee-bearing curve, a second bank O, a crashable collateral bank X; generated decimals, SPL / Token-2022 / transfer-fee mints, fixed / Pyth / Switchboard oracles with confidence, weights, program fees, position sizes, borrow fractions, liquidation depth, second-pause offset k, admin-unpause offset u, fee accrual time, order of bank-state vs pause application); worlds are SAMPLED, but inside every world the matrix is ENUMERATED COMPLETELY: 26 rows (deposit, withdraw, withdraw_all, borrow, repay, repay_all, classic liquidation with T as asset bank / as liability bank, handle_bankruptcy, flash-loan bracket [start,borrow,repay_all,end], receivership bracket [start,withdraw,repay,end] with T as repaid / as withdrawn bank, transfer_to_new_account, transfer_to_new_account_pda, collect_bank_fees, withdraw_fees, withdraw_insurance, withdraw_fees_permissionless, withdraw_emissions, withdraw_emissions_permissionless; executed and counted but never asserted (Q1): close_balance, accrue_interest, pulse_health, bare flash-loan and receivership brackets, settle_emissions) x bank state {Operational, Paused, ReduceOnly (both through the admin's configure_bank), KilledByBankruptcy INJECTED into the bank bytes with vm.modify (count in coverage.injected_killed_cells), injected kill + configure_bank(Paused|Operational|ReduceOnly) attempt} x pause column {never; paused+propagated while active (same second, +1 s, +900 s, last second); expired and untouched; expired with the fee state cleared by panic_unpause_permissionless but the group cache stale; extended by a second pause at +k (cached start moved one duration ahead; observed 1 s before the new start, at it, and around the new expiry); extended but the extension not propagated; paused in the fee state but never propagated; propagated then admin-unpaused in the fee state with the cache stale} x time {-1 s, 0 s, +1 s} around the expiry second of the CACHED state. Every cell is a clone of a row-specific prepared state (a depositor without debt, a borrower, liquidatees steered to a generated maintenance deficit, an account made bankrupt by crashing its collateral, accrued and collected fees, an initialised liquidation record, emissions set up on T). Oracle, from the statement: the group is paused iff the cached flag is set and now < cached start + 1800 (read from the account bytes); Paused/Killed bank => the six kinds and every bracket containing one are refused; ReduceOnly => deposit, borrow and the flash bracket refused, withdraw / withdraw_all / repay / repay_all and the receivership brackets that withdraw from / repay into the bank accepted whenever the Operational never-paused reference at the same second accepted them; group paused => every asserted row refused; not paused in the expired / extended / admin-unpaused columns => accepted again whenever the reference accepted, with the cached pause bytes untouched; every refusal leaves the store unchanged; an injected kill survives configure_bank. Not asserted (counted in labels): everything in the unpropagated columns after the cached expiry, bank states the statement is silent about. Separately per world: (a) ReduceOnly valuation clause (in 40 % of the worlds T carries an e-mode tag that O's e-mode entry boosts) - an account whose only collateral is in T cannot borrow 1 / 0.1% / 50% of its former power, the reference model's maintenance health still counts the deposit, and a classic liquidation or start_liquidation of such a healthy-at-maintenance indebted account is refused; (b) REAL wipe-out: a victim borrows 99.5% of T's liquidity, 1-3 years of fee-bearing interest, collateral crashed, handle_bankruptcy without insurance kills the bank; deposit, withdraw, withdraw_all, borrow, repay, repay_all, liquidation with T as liability / asset bank, a second bankruptcy and a receivership bracket must be refused, also after each configure_bank(operational_state) attempt, with the bank still Killed (baseline = the same store with only the state byte put back to Operational). Non-trivial = an asserted cell whose reference (Operational, never paused, same second) succeeded; distinct count by (world, cell). Per row the labels row-reached / expiry-side show that both sides of the expiry second were observed; a row never reached in the whole run is reported as an engine error.";

fn pack(v: &Viol) -> String {
    format!("{}|{}|{}", v.sig, v.msg.replace('|', "/"), serde_json::to_string(&v.cell).unwrap())
}
fn unpack(s: &str) -> (String, String, Option<CellId>) {
    let mut it = s.splitn(3, '|');
    let sig = it.next().unwrap_or("").to_string();
    let msg = it.next().unwrap_or("").to_string();
    let cell = it.next().and_then(|c| serde_json::from_str(c).ok());
    (sig, msg, cell)
}

pub fn run(ctx: &Ctx) -> Report {
    let cases: u32 = ctx.tier.pick(32, 320);
    let mut rep = par_workers(ctx.threads, |wi| {
        let mut rep = Report::new(RULE);
        let strat = case_strategy();
        let mut focus: Option<(String, CellId)> = None;
        let mut shrink_runs = 0u32;
        let outcome = run_prop(ctx.seed_bytes("c14", wi as u64), cases, &strat, |c, counting| {
            let mut st = Stats::default();
            let r = if counting {
                run_world(c, None, &mut st)
            } else {
                // shrinking: re-check only the cell that failed, and keep only the same clause
                shrink_runs += 1;
                match &focus {
                    // shrinking re-builds a world per candidate: bounded so that a failing run stays quick
                    _ if shrink_runs > 400 => Ok(()),
                    Some((sig, cell)) => match run_world(c, Some(cell), &mut st) {
                        Err(v) if v.sig == *sig => Err(v),
                        _ => Ok(()),
                    },
                    None => Ok(()),
                }
            };
            if counting {
                rep.eval();
                for (k, v) in st.labels {
                    rep.label_n(&k, v);
                }
                for h in st.nontrivial {
                    rep.nontrivial_hash(h);
                }
                rep.add_extra("cells_evaluated", st.cells);
                rep.add_extra("injected_killed_cells", st.injected);
                rep.add_extra("worlds_built", st.built as u64);
                rep.add_extra("real_kill_worlds", st.kill_reached as u64);
                for e in st.engine.into_iter().take(3) {
                    if rep.engine_errors.len() < 5 {
                        rep.engine_errors.push(e);
                    }
                }
                if rep.samples.len() < 2 && st.built {
                    rep.sample(json!({"banks": c.spec.banks.iter().map(|b| json!({"decimals": b.decimals, "token": b.token, "oracle_kind": b.oracle.kind})).collect::<Vec<_>>(), "k": c.k, "u": c.u, "state_first": c.state_first, "base_usd": c.base_usd}));
                }
                if let Err(v) = &r {
                    focus = Some((v.sig.clone(), v.cell.clone()));
                }
            }
            r.map_err(|v| pack(&v))
        });
        if let Some((c, msg)) = outcome.failure {
            let (sig, m, cell) = unpack(&msg);
            rep.violation(&sig, m, json!({"case": c, "cell": cell, "recipe": "World::build(case.spec); c14::prepare(case); row_prep(row); clone; apply bank state + pause column; exec row transaction"}));
        }
        rep
    });
    // per-row reachability and both sides of the expiry second
    let mut unreached = serde_json::Map::new();
    for row in ROWS {
        let n = |pfx: &str| -> u64 { rep.labels.iter().filter(|(k, _)| k.starts_with(pfx)).map(|(_, v)| *v).sum() };
        let reached = n(&format!("row-reached:{}:all-times", row.name())) + n(&format!("row-reached:{}:some-times", row.name()));
        let never = n(&format!("row-reached:{}:never", row.name()));
        let unreached_cells = rep.labels.get(&format!("unreached-cell:{}", row.name())).copied().unwrap_or(0);
        unreached.insert(row.name().to_string(), json!({"worlds_reached": reached, "worlds_unreached": never, "unreached_cells": unreached_cells}));
        if rep.violations.is_empty() && reached == 0 && never > 0 {
            rep.engine_errors.push(format!("row {} was never reached (its baseline never succeeded): generator bug", row.name()));
        }
        if rep.violations.is_empty() && !row.counted_only() && reached > 0 {
            let before = n(&format!("expiry-side:{}:before:refused", row.name()));
            let after = n(&format!("expiry-side:{}:at:accepted", row.name())) + n(&format!("expiry-side:{}:after:accepted", row.name()));
            if before == 0 || after == 0 {
                rep.engine_errors.push(format!("row {}: both sides of the expiry second were not observed (refused before: {before}, accepted at/after: {after})", row.name()));
            }
        }
    }
    rep.extra.insert("rows".into(), Value::Object(unreached));
    rep.exhaustive = false;
    rep.nontrivial_floor = ctx.tier.pick(150_000, 3_000_000);
    rep
}

pub fn replay(_ctx: &Ctx, case: &Value) -> Report {
    let mut rep = Report::new(RULE);
    rep.nontrivial_floor = 0;
    let c: Result<Case, _> = serde_json::from_value(case.get("case").cloned().unwrap_or(Value::Null));
    let cell: Option<CellId> = case.get("cell").and_then(|c| serde_json::from_value(c.clone()).ok());
    match c {
        Ok(c) => {
            rep.eval();
            let mut st = Stats::default();
            if let Err(v) = run_world(&c, cell.as_ref(), &mut st) {
                rep.violation(&v.sig, v.msg.clone(), json!({"case": c, "cell": v.cell}));
            }
            for e in st.engine {
                rep.engine_errors.push(e);
            }
        }
        Err(e) => rep.engine_errors.push(format!("bad replay: {e}")),
    }
    rep
}
