//! C19 — fees and emissions reach only their destinations, in exactly accrued amounts.
//!
//! Three drivers (all through the real `marginfi::entry`):
//!  A. `collect`  — constructed worlds (fee bank on SPL / Token-2022 / transfer-fee mint, a twin bank on
//!     the SAME mint, a collateral bank), a lender and a borrower that drains the liquidity, real accrual,
//!     then `collect_bank_fees` interleaved with user activity; exact oracle from pre/post snapshots and
//!     a destination-substitution matrix on the same state.
//!  B. `frame`    — the shared stateful campaign plus fee-withdrawal ops by every identity; after every
//!     committed transaction an insurance / fee vault may only decrease through the enumerated paths.
//!  C. `emissions`— setup/update emissions, positions of many sizes on both sides, time, every path
//!     that claims, payouts by every identity / destination; conservation, per-claim formula, capping,
//!     payout destination.
use crate::campaign::{self, GenCfg, Op, Runner};
use crate::common::*;
use crate::num::*;
use crate::snap::{bank_snap, BankSnap};
use crate::svm::{Acct, Vm};
use crate::world::*;
use anchor_lang::{InstructionData, ToAccountMetas};
use marginfi_type_crate::types::{Balance, Bank, FeeState, MarginfiAccount, ACCOUNT_DISABLED, ACCOUNT_FROZEN};
use num_traits::{Signed, ToPrimitive, Zero};
use proptest::prelude::*;
use serde::{Deserialize, Serialize};
use serde_json::{json, Value};
use solana_program::{
    instruction::{AccountMeta, Instruction},
    pubkey::Pubkey,
    system_program,
};
use std::collections::BTreeMap;
use std::sync::Arc;

type Fail = (String, String);
fn fail<T>(sig: impl Into<String>, msg: impl Into<String>) -> Result<T, Fail> {
    Err((sig.into(), msg.into()))
}

// ------------------------------------------------------------------------------------------
// helpers
// ------------------------------------------------------------------------------------------
fn mfi(accounts: Vec<AccountMeta>, data: Vec<u8>) -> Instruction {
    Instruction { program_id: marginfi::ID, accounts, data }
}

/// Token-2022 transfer fee withheld on a transfer of `x` (statement: fee(x)=min(ceil(x*bps/1e4), max))
fn fee_of(kind: u8, bps: u16, max: u64, x: u64) -> u64 {
    if kind != 2 || bps == 0 || x == 0 {
        return 0;
    }
    (((x as u128) * bps as u128 + 9_999) / 10_000).min(max as u128) as u64
}
fn net_of(kind: u8, bps: u16, max: u64, x: u64) -> u64 {
    x - fee_of(kind, bps, max, x)
}

fn token_acct_for(vm: &Vm, mint: &Pubkey, tp: &Pubkey, owner: Pubkey, amount: u64) -> Acct {
    if *tp == spl_token::ID {
        spl_token_acct(*mint, owner, amount)
    } else {
        t22_token_acct(vm.data(mint), *mint, owner, amount)
    }
}

/// keys whose account differs between two stores (created, removed or modified)
fn changed_keys(pre: &Vm, post: &Vm) -> Vec<Pubkey> {
    let mut v = vec![];
    for (k, a) in post.accts.iter() {
        match pre.accts.get(k) {
            Some(b) => {
                if !Arc::ptr_eq(a, b) && **a != **b {
                    v.push(*k);
                }
            }
            None => v.push(*k),
        }
    }
    for k in pre.accts.keys() {
        if !post.accts.contains_key(k) {
            v.push(*k);
        }
    }
    v
}

fn q_u(x: u64) -> Q {
    q_int(x)
}
fn is_integer(x: &Q) -> bool {
    x.is_integer()
}

// ------------------------------------------------------------------------------------------
// instruction constructors that world.rs does not have
// ------------------------------------------------------------------------------------------
fn t22_mint_meta(tp: &Pubkey, mint: &Pubkey, m: &mut Vec<AccountMeta>) {
    if *tp == spl_token_2022::ID {
        m.push(AccountMeta::new_readonly(*mint, false));
    }
}

pub fn ix_update_fees_dest(w: &World, bi: usize, signer: Pubkey, dst: Pubkey) -> Instruction {
    mfi(
        marginfi::accounts::LendingPoolUpdateFeesDestinationAccount { group: w.group, bank: w.banks[bi].key, admin: signer, destination_account: dst }.to_account_metas(Some(true)),
        marginfi::instruction::LendingPoolUpdateFeesDestinationAccount {}.data(),
    )
}

pub fn ix_withdraw_fees_permissionless(w: &World, bi: usize, dst: Pubkey, amount: u64) -> Instruction {
    let b = &w.banks[bi];
    let mut m = marginfi::accounts::LendingPoolWithdrawFeesPermissionless {
        group: w.group,
        bank: b.key,
        fee_vault: b.fv,
        fee_vault_authority: b.fv_auth,
        fees_destination_account: dst,
        token_program: b.token_program,
    }
    .to_account_metas(Some(true));
    t22_mint_meta(&b.token_program, &b.mint, &mut m);
    mfi(m, marginfi::instruction::LendingPoolWithdrawFeesPermissionless { amount }.data())
}

/// the emissions mint of a scenario
#[derive(Clone, Debug)]
pub struct Em {
    pub mint: Pubkey,
    pub tp: Pubkey,
    pub auth: Pubkey,
    pub vault: Pubkey,
    pub funding: Pubkey,
    pub kind: u8,
    pub bps: u16,
    pub max: u64,
}

fn em_pdas(bank: &Pubkey, mint: &Pubkey) -> (Pubkey, Pubkey) {
    use marginfi_type_crate::constants::{EMISSIONS_AUTH_SEED, EMISSIONS_TOKEN_ACCOUNT_SEED};
    (
        Pubkey::find_program_address(&[EMISSIONS_AUTH_SEED.as_bytes(), bank.as_ref(), mint.as_ref()], &marginfi::ID).0,
        Pubkey::find_program_address(&[EMISSIONS_TOKEN_ACCOUNT_SEED.as_bytes(), bank.as_ref(), mint.as_ref()], &marginfi::ID).0,
    )
}

pub fn ix_setup_emissions(w: &World, bi: usize, em: &Em, signer: Pubkey, flags: u64, rate: u64, total: u64) -> Instruction {
    mfi(
        marginfi::accounts::LendingPoolSetupEmissions {
            group: w.group,
            delegate_emissions_admin: signer,
            bank: w.banks[bi].key,
            emissions_mint: em.mint,
            emissions_auth: em.auth,
            emissions_token_account: em.vault,
            emissions_funding_account: em.funding,
            token_program: em.tp,
            system_program: system_program::ID,
        }
        .to_account_metas(Some(true)),
        marginfi::instruction::LendingPoolSetupEmissions { flags, rate, total_emissions: total }.data(),
    )
}

pub fn ix_update_emissions(w: &World, bi: usize, em: &Em, signer: Pubkey, flags: Option<u64>, rate: Option<u64>, add: Option<u64>) -> Instruction {
    mfi(
        marginfi::accounts::LendingPoolUpdateEmissionsParameters {
            group: w.group,
            delegate_emissions_admin: signer,
            bank: w.banks[bi].key,
            emissions_mint: em.mint,
            emissions_token_account: em.vault,
            emissions_funding_account: em.funding,
            token_program: em.tp,
        }
        .to_account_metas(Some(true)),
        marginfi::instruction::LendingPoolUpdateEmissionsParameters { emissions_flags: flags, emissions_rate: rate, additional_emissions: add }.data(),
    )
}

pub fn ix_settle_emissions(w: &World, bi: usize, macct: Pubkey) -> Instruction {
    mfi(
        marginfi::accounts::LendingAccountSettleEmissions { marginfi_account: macct, bank: w.banks[bi].key }.to_account_metas(Some(true)),
        marginfi::instruction::LendingAccountSettleEmissions {}.data(),
    )
}

pub fn ix_withdraw_emissions(w: &World, bi: usize, em: &Em, macct: Pubkey, signer: Pubkey, dst: Pubkey) -> Instruction {
    mfi(
        marginfi::accounts::LendingAccountWithdrawEmissions {
            group: w.group,
            marginfi_account: macct,
            authority: signer,
            bank: w.banks[bi].key,
            emissions_mint: em.mint,
            emissions_auth: em.auth,
            emissions_vault: em.vault,
            destination_account: dst,
            token_program: em.tp,
        }
        .to_account_metas(Some(true)),
        marginfi::instruction::LendingAccountWithdrawEmissions {}.data(),
    )
}

pub fn ix_withdraw_emissions_permissionless(w: &World, bi: usize, em: &Em, macct: Pubkey, dst: Pubkey) -> Instruction {
    mfi(
        marginfi::accounts::LendingAccountWithdrawEmissionsPermissionless {
            group: w.group,
            marginfi_account: macct,
            bank: w.banks[bi].key,
            emissions_mint: em.mint,
            emissions_auth: em.auth,
            emissions_vault: em.vault,
            destination_account: dst,
            token_program: em.tp,
        }
        .to_account_metas(Some(true)),
        marginfi::instruction::LendingAccountWithdrawEmissionsPermissionless {}.data(),
    )
}

pub fn ix_update_emissions_dest(_w: &World, macct: Pubkey, signer: Pubkey, wallet: Pubkey) -> Instruction {
    mfi(
        marginfi::accounts::MarginfiAccountUpdateEmissionsDestinationAccount { marginfi_account: macct, authority: signer, destination_account: wallet }.to_account_metas(Some(true)),
        marginfi::instruction::MarginfiAccountUpdateEmissionsDestinationAccount {}.data(),
    )
}

/// A second bank on the SAME mint as bank `of` (so that a substituted vault would accept the tokens
/// if the address constraints were missing). Returns its index in `w.banks`.
fn add_twin_bank(w: &mut World, of: usize) -> Result<usize, String> {
    let src = w.banks[of].clone();
    let i = w.banks.len();
    let bank = kp("bank_twin", i as u64);
    let mut spec = src.spec.clone();
    spec.oracle = OracleSpec::fixed(1, 0);
    spec.op_state = 1;
    spec.emode_tag = 0;
    spec.emode_entries.clear();
    let info = BankInfo {
        key: bank,
        mint: src.mint,
        token_program: src.token_program,
        decimals: src.decimals,
        oracle_kind: 0,
        oracle_key: kp("oracle_twin", i as u64),
        oracle_extra: vec![],
        lv: bank_pda("liquidity_vault", &bank),
        lv_auth: bank_pda("liquidity_vault_auth", &bank),
        iv: bank_pda("insurance_vault", &bank),
        iv_auth: bank_pda("insurance_vault_auth", &bank),
        fv: bank_pda("fee_vault", &bank),
        fv_auth: bank_pda("fee_vault_auth", &bank),
        fee_ata: src.fee_ata,
        spec: spec.clone(),
    };
    let admin = w.roles.admin;
    let cfg = bank_config_compact(&spec);
    let ix = mfi(
        marginfi::accounts::LendingPoolAddBank {
            marginfi_group: w.group,
            admin,
            fee_payer: admin,
            fee_state: w.fee_state,
            global_fee_wallet: w.fee_wallet,
            bank_mint: src.mint,
            bank,
            liquidity_vault_authority: info.lv_auth,
            liquidity_vault: info.lv,
            insurance_vault_authority: info.iv_auth,
            insurance_vault: info.iv,
            fee_vault_authority: info.fv_auth,
            fee_vault: info.fv,
            token_program: src.token_program,
            system_program: system_program::ID,
        }
        .to_account_metas(Some(true)),
        marginfi::instruction::LendingPoolAddBank { bank_config: cfg }.data(),
    );
    w.vm.exec(&ix).map_err(|e| format!("twin add_bank: {e:?}"))?;
    w.banks.push(info);
    let ix = w.ix_set_fixed_price(i, spec.oracle.fixed_price().into(), admin);
    w.vm.exec(&ix).map_err(|e| format!("twin fixed price: {e:?}"))?;
    Ok(i)
}

// ==========================================================================================
// Part A — collect_bank_fees
// ==========================================================================================
#[derive(Clone, Debug, Serialize, Deserialize, PartialEq)]
pub enum AOp {
    Wait { secs: u32 },
    Accrue,
    Collect,
    /// the lender deposits so that the vault reaches a level chosen relative to the buckets:
    /// mode 0: x/65536 of 2*sum(buckets); mode 1: sum(floor(bucket)) + (x%5) - 2;
    /// mode 2: floor(insurance bucket) + (x%5) - 2; mode 3: floor(ins)+floor(group) + (x%5) - 2
    TopUp { mode: u8, x: u32 },
    LenderWithdraw { frac: u32 },
    Repay { frac: u32 },
    BorrowMore { frac: u32 },
    /// the global fee admin names a new fee wallet (`edit_global_fee_state`); `propagate` = somebody also runs the
    /// permissionless `propagate_fee_state` for the group afterwards. From now on the canonical destination of the
    /// program fees is the NEW wallet's token account, whatever the group's cached copy says.
    RotateFeeWallet { propagate: bool },
}

#[derive(Clone, Debug, Serialize, Deserialize)]
pub struct ACase {
    /// banks[0] = fee bank, banks[1] = collateral bank
    pub spec: WorldSpec,
    pub twin: bool,
    pub lend: u64,
    /// x/65536 of the liquidity; 65536 = everything the utilisation rule allows
    pub borrow_frac: u32,
    pub ops: Vec<AOp>,
}

#[derive(Default, Debug)]
pub struct AStats {
    pub built: bool,
    pub collects_ok: u64,
    pub collects_err: u64,
    pub binding_fractional: u64,
    pub binding: u64,
    pub all_zero: u64,
    pub moved_all3: u64,
    pub subst_cells: u64,
    pub rotations: u64,
    pub collects_after_unpropagated_rotation: u64,
    pub witnesses: Vec<Value>,
}

fn a_fee_bank_strategy() -> impl Strategy<Value = BankSpec> {
    (
        prop_oneof![4 => Just(6u8), 3 => Just(9u8), 3 => 0u8..=12],
        0u8..3,
        prop_oneof![2 => Just(0u16), 4 => 1u16..1000, 1 => Just(10_000u16), 1 => 1000u16..10_000],
        prop_oneof![Just(0u64), 1u64..1_000_000, Just(u64::MAX)],
        campaign::curve_strategy(),
        prop::array::uniform5(prop_oneof![2 => Just(0u32), 3 => 1u32..200_000, 1 => 200_000u32..1_000_000]),
        prop::bool::weighted(0.8),
    )
        .prop_map(|(decimals, token, fee_bps, fee_max, mut curve, fees, force)| {
            if force {
                curve.ins_fixed = fees[0];
                curve.ins_ir = fees[1];
                curve.prot_fixed = fees[2];
                curve.prot_ir = fees[3];
                curve.orig = fees[4] / 10;
            }
            let price = if decimals < 6 { OracleSpec::fixed(1, -6) } else { OracleSpec::fixed(1, 0) };
            BankSpec {
                decimals,
                token,
                fee_bps: if token == 2 { fee_bps } else { 0 },
                fee_max: if token == 2 { fee_max } else { 0 },
                curve,
                oracle: price,
                ..BankSpec::default()
            }
        })
}

fn collateral_bank() -> BankSpec {
    BankSpec { decimals: 6, aw_i: 900_000, aw_m: 950_000, oracle: OracleSpec::fixed(1_000_000, 0), ..BankSpec::default() }
}

fn a_op_strategy() -> impl Strategy<Value = AOp> {
    prop_oneof![
        5 => prop_oneof![1 => Just(0u32), 2 => 1u32..3600, 3 => 3600u32..10_000_000, 2 => 10_000_000u32..100_000_000].prop_map(|secs| AOp::Wait { secs }),
        4 => Just(AOp::Accrue),
        8 => Just(AOp::Collect),
        5 => (0u8..4, any::<u32>()).prop_map(|(mode, x)| AOp::TopUp { mode, x: if mode == 0 { x % 65_537 } else { x } }),
        1 => (0u32..=65_536).prop_map(|frac| AOp::LenderWithdraw { frac }),
        1 => (0u32..=65_536).prop_map(|frac| AOp::Repay { frac }),
        1 => (0u32..=65_536).prop_map(|frac| AOp::BorrowMore { frac }),
        2 => prop::bool::weighted(0.4).prop_map(|propagate| AOp::RotateFeeWallet { propagate }),
    ]
}

pub fn a_case_strategy() -> impl Strategy<Value = ACase> {
    (
        a_fee_bank_strategy(),
        prop_oneof![1 => Just((0u32, 0u32)), 4 => (prop_oneof![Just(0u32), 1u32..100_000], prop_oneof![Just(0u32), 1u32..500_000])],
        prop::bool::weighted(0.9),
        prop::bool::weighted(0.7),
        prop_oneof![1 => 1u64..1000, 3 => 1000u64..1_000_000_000, 2 => 1_000_000_000u64..1_000_000_000_000_000],
        prop_oneof![5 => Just(65_536u32), 3 => 1u32..65_536, 1 => Just(0u32)],
        prop_oneof![1 => Just(0u32), 2 => 1u32..100_000, 4 => 100_000u32..40_000_000, 1 => 40_000_000u32..160_000_000],
        prop::collection::vec(a_op_strategy(), 1..=10),
    )
        .prop_map(|(fb, (pf, pr), pe, twin, lend, borrow_frac, first_wait, mut ops)| {
            let mut pre = vec![AOp::Wait { secs: first_wait }, AOp::Accrue];
            pre.append(&mut ops);
            ACase {
                spec: WorldSpec { program_fee_fixed: pf, program_fee_rate: pr, program_fees_enabled: pe, banks: vec![fb, collateral_bank()], n_users: 3, ..WorldSpec::default() },
                twin,
                lend,
                borrow_frac,
                ops: pre,
            }
        })
}

fn bank_bytes_without_buckets(b: &Bank) -> Vec<u8> {
    let mut c = *b;
    let z: marginfi_type_crate::types::WrappedI80F48 = fixed::types::I80F48::ZERO.into();
    c.collected_insurance_fees_outstanding = z;
    c.collected_group_fees_outstanding = z;
    c.collected_program_fees_outstanding = z;
    bytemuck::bytes_of(&c).to_vec()
}

/// the oracle for one successful collect (pre/post stores)
fn check_collect(w: &World, pre: &Vm, post: &Vm, bi: usize, st: &mut AStats) -> Result<(), Fail> {
    let info = &w.banks[bi];
    let sp = &info.spec;
    let b0: BankSnap = bank_snap(pre, &info.key).unwrap();
    let b1: BankSnap = bank_snap(post, &info.key).unwrap();
    let ata0 = token_amount(pre.data(&info.fee_ata));
    let ata1 = token_amount(post.data(&info.fee_ata));
    let avail = b0.vault;
    let names = ["insurance", "group", "program"];
    let pre_b = [b0.f_ins.clone(), b0.f_grp.clone(), b0.f_prog.clone()];
    let post_b = [b1.f_ins.clone(), b1.f_grp.clone(), b1.f_prog.clone()];
    let dst0 = [b0.ins_vault, b0.fee_vault, ata0];
    let dst1 = [b1.ins_vault, b1.fee_vault, ata1];
    let mut moved: Vec<u64> = vec![];
    let mut sum_floor = q_zero();
    let mut any_fractional = false;
    for k in 0..3 {
        if pre_b[k].is_negative() {
            // not producible by the program; the statement's quantifier covers real bucket values only
            return Ok(());
        }
        if post_b[k].is_negative() {
            return fail("collect:bucket-negative", format!("{} bucket went negative: {} -> {}", names[k], q_str(&pre_b[k]), q_str(&post_b[k])));
        }
        let m = &pre_b[k] - &post_b[k];
        if m.is_negative() {
            return fail("collect:bucket-increased", format!("{} bucket increased in a collect: {} -> {}", names[k], q_str(&pre_b[k]), q_str(&post_b[k])));
        }
        if !is_integer(&m) {
            return fail("collect:bucket-reduced-by-non-integer", format!("{} bucket {} reduced by {} which is not a whole number of tokens", names[k], q_str(&pre_b[k]), q_str(&m)));
        }
        let fl = Q::from_integer(q_floor(&pre_b[k]));
        if m > fl {
            return fail("collect:moved-more-than-whole-part", format!("{} bucket {} reduced by {}", names[k], q_str(&pre_b[k]), q_str(&m)));
        }
        if m > q_u(avail) {
            return fail("collect:moved-more-than-liquidity", format!("{} bucket reduced by {} with only {} in the vault", names[k], q_str(&m), avail));
        }
        if !is_integer(&pre_b[k]) {
            any_fractional = true;
        }
        sum_floor += fl;
        moved.push(m.to_integer().to_u64().unwrap());
    }
    let total: u128 = moved.iter().map(|x| *x as u128).sum();
    // the liquidity vault pays exactly the sum
    let vault_out = b0.vault as i128 - b1.vault as i128;
    if vault_out != total as i128 {
        return fail("collect:vault-delta", format!("liquidity vault changed by {} but buckets were reduced by {:?}", -vault_out, moved));
    }
    // each destination receives exactly what left the vault for it (net of the mint's transfer fee)
    for k in 0..3 {
        let got = dst1[k] as i128 - dst0[k] as i128;
        let want = net_of(sp.token, sp.fee_bps, sp.fee_max, moved[k]) as i128;
        if got != want {
            return fail(
                format!("collect:destination-{}", names[k]),
                format!("{} bucket reduced by {} (net of transfer fee {}) but its destination balance changed by {} (moved {:?}, destinations {:?} -> {:?})", names[k], moved[k], want, got, moved, dst0, dst1),
            );
        }
    }
    // limited only by liquidity: the total is min(avail, sum of whole parts); not binding => every bucket gives its whole part
    let want_total = q_min(q_u(avail), sum_floor.clone());
    if Q::from_integer(total.into()) != want_total {
        return fail("collect:total-moved", format!("moved {} in total; whole parts sum to {} and the vault held {}", total, q_str(&sum_floor), avail));
    }
    let binding = sum_floor > q_u(avail);
    if !binding {
        for k in 0..3 {
            if Q::from_integer(moved[k].into()) != Q::from_integer(q_floor(&pre_b[k])) {
                return fail("collect:not-whole-part", format!("liquidity not binding but {} bucket {} was reduced by {}", names[k], q_str(&pre_b[k]), moved[k]));
            }
        }
    }
    // frame: nothing else changes
    let allowed = [info.key, info.lv, info.iv, info.fv, info.fee_ata];
    for k in changed_keys(pre, post) {
        if !allowed.contains(&k) {
            return fail("collect:frame", format!("collect changed account {k} which is neither the bank, its three vaults nor the fee ATA"));
        }
    }
    if bank_bytes_without_buckets(&b0.raw) != bank_bytes_without_buckets(&b1.raw) {
        return fail("collect:frame-bank-fields", "collect changed a bank field other than the three fee buckets".to_string());
    }
    for k in [info.lv, info.iv, info.fv, info.fee_ata] {
        if pre.data(&k).len() < 64 || post.data(&k).len() < 64 || pre.data(&k)[..64] != post.data(&k)[..64] {
            return fail("collect:frame-token-header", format!("mint/owner of token account {k} changed"));
        }
    }
    // statistics
    st.collects_ok += 1;
    if binding {
        st.binding += 1;
    }
    if total == 0 {
        st.all_zero += 1;
    }
    if moved.iter().all(|m| *m > 0) {
        st.moved_all3 += 1;
    }
    if binding && any_fractional {
        st.binding_fractional += 1;
        st.witnesses.push(json!({"moved": moved, "avail": avail, "tok": sp.token, "dec": sp.decimals, "frac": pre_b.iter().map(|b| !is_integer(b)).collect::<Vec<_>>()}));
    }
    Ok(())
}

const A_SLOTS: [(usize, &str); 6] = [(2, "liquidity_vault_authority"), (3, "liquidity_vault"), (4, "insurance_vault"), (5, "fee_vault"), (6, "fee_state"), (7, "fee_ata")];

/// every destination slot replaced by plausible other accounts, on the state where the correct
/// instruction succeeds: all must fail
fn subst_matrix(w: &World, pre: &Vm, bi: usize, twin: Option<usize>, st: &mut AStats) -> Result<(), Fail> {
    let info = w.banks[bi].clone();
    let other = w.banks[1].clone();
    let base = w.ix_collect_fees(bi);
    let mut vm = pre.clone();
    // fabricated candidates
    let stranger = w.roles.stranger;
    let stranger_ata = ata(&stranger, &info.mint, &info.token_program);
    vm.set(stranger_ata, token_acct_for(&vm, &info.mint, &info.token_program, stranger, 0));
    let user_tok = w.users[2].tokens[bi];
    let user_tok_other_mint = w.users[2].tokens[1];
    // a fake fee state naming the stranger as the global fee wallet
    let fake_fs = kp("fake_fee_state", 0);
    {
        let mut a = vm.get(&w.fee_state).cloned().unwrap();
        let off = 8;
        let mut fs: FeeState = bytemuck::pod_read_unaligned(&a.data[off..off + std::mem::size_of::<FeeState>()]);
        fs.global_fee_wallet = stranger;
        fs.key = fake_fs;
        a.data[off..off + std::mem::size_of::<FeeState>()].copy_from_slice(bytemuck::bytes_of(&fs));
        vm.set(fake_fs, a);
    }
    let mut cands: Vec<(usize, Pubkey, Option<(usize, Pubkey)>)> = vec![];
    let tw = twin.map(|t| w.banks[t].clone());
    // liquidity vault authority
    for k in [tw.as_ref().map(|t| t.lv_auth), Some(other.lv_auth), Some(info.iv_auth), Some(info.fv_auth), Some(stranger), Some(w.users[2].auth)].into_iter().flatten() {
        cands.push((2, k, None));
    }
    for k in [tw.as_ref().map(|t| t.lv), Some(other.lv), Some(user_tok), Some(info.iv), Some(info.fv), Some(user_tok_other_mint)].into_iter().flatten() {
        cands.push((3, k, None));
    }
    for k in [tw.as_ref().map(|t| t.iv), Some(other.iv), Some(user_tok), Some(info.fv), Some(info.fee_ata), Some(info.lv), Some(stranger_ata), Some(user_tok_other_mint)].into_iter().flatten() {
        cands.push((4, k, None));
    }
    for k in [tw.as_ref().map(|t| t.fv), Some(other.fv), Some(user_tok), Some(info.iv), Some(info.fee_ata), Some(info.lv), Some(stranger_ata), Some(user_tok_other_mint)].into_iter().flatten() {
        cands.push((5, k, None));
    }
    cands.push((6, fake_fs, None));
    cands.push((6, fake_fs, Some((7, stranger_ata))));
    cands.push((6, w.group, None));
    for k in [Some(user_tok), Some(stranger_ata), Some(other.fee_ata), Some(info.fv), Some(info.iv), tw.as_ref().map(|t| t.fv), Some(user_tok_other_mint), Some(info.lv)].into_iter().flatten() {
        cands.push((7, k, None));
    }
    for (slot, key, extra) in cands {
        if base.accounts[slot].pubkey == key && extra.is_none() {
            continue;
        }
        let mut ix = base.clone();
        ix.accounts[slot].pubkey = key;
        if let Some((s2, k2)) = extra {
            ix.accounts[s2].pubkey = k2;
        }
        let mut v = vm.clone();
        st.subst_cells += 1;
        if v.exec(&ix).is_ok() {
            let name = A_SLOTS.iter().find(|s| s.0 == slot).map(|s| s.1).unwrap_or("?");
            return fail(format!("collect:substituted-{name}"), format!("collect succeeded with {name} replaced by {key}{}", if extra.is_some() { " (and the fee ATA by the fake wallet's ATA)" } else { "" }));
        }
    }
    Ok(())
}

pub fn run_a(c: &ACase, st: &mut AStats) -> Result<(), Fail> {
    if c.spec.banks.len() < 2 || c.spec.n_users < 3 {
        return Ok(());
    }
    let Ok(mut w) = World::build(&c.spec) else { return Ok(()) };
    let (fb, cb) = (0usize, 1usize);
    let twin = if c.twin { add_twin_bank(&mut w, fb).ok() } else { None };
    let lender = w.users[0].clone();
    let borrower = w.users[1].clone();
    if w.vm.exec(&w.ix_deposit(lender.accts[0], lender.auth, fb, lender.tokens[fb], c.lend, None)).is_err() {
        return Ok(());
    }
    if w.vm.exec(&w.ix_deposit(borrower.accts[0], borrower.auth, cb, borrower.tokens[cb], 1_000_000_000_000, None)).is_err() {
        return Ok(());
    }
    let liq = w.tok(&w.banks[fb].lv);
    let orig = c.spec.banks[fb].curve.orig as u128;
    let mut amt = if c.borrow_frac >= 65_536 { ((liq as u128 * 1_000_000) / (1_000_000 + orig)) as u64 } else { ((liq as u128 * c.borrow_frac as u128) >> 16) as u64 };
    for _ in 0..4 {
        if amt == 0 {
            break;
        }
        if w.vm.exec(&w.ix_borrow(borrower.accts[0], borrower.auth, fb, borrower.tokens[fb], amt)).is_ok() {
            break;
        }
        amt = amt - amt / 64 - 1;
    }
    st.built = true;
    let fkey = w.banks[fb].key;
    // token accounts of fee wallets that the global fee admin has since replaced
    let mut retired: Vec<Pubkey> = vec![];
    let mut unpropagated = false;
    for op in &c.ops {
        match op {
            AOp::Wait { secs } => {
                w.vm.advance(*secs as i64);
                w.refresh_oracles();
            }
            AOp::Accrue => {
                let _ = w.vm.exec(&w.ix_accrue(fb));
            }
            AOp::TopUp { mode, x } => {
                let b = bank_snap(&w.vm, &fkey).unwrap();
                let fl = |q: &Q| Q::from_integer(q_floor(q));
                let d = q_int((*x % 5) as i64 - 2);
                let level = match mode {
                    0 => q_ratio(*x as u64 % 65_537, 32_768u64) * b.fees(),
                    1 => fl(&b.f_ins) + fl(&b.f_grp) + fl(&b.f_prog) + d,
                    2 => fl(&b.f_ins) + d,
                    _ => fl(&b.f_ins) + fl(&b.f_grp) + d,
                };
                let level = q_floor(&level).to_u64().unwrap_or(0);
                if level > b.vault {
                    let _ = w.vm.exec(&w.ix_deposit(lender.accts[0], lender.auth, fb, lender.tokens[fb], level - b.vault, None));
                } else if level < b.vault {
                    let _ = w.vm.exec(&w.ix_withdraw(lender.accts[0], lender.auth, fb, lender.tokens[fb], b.vault - level, None));
                }
            }
            AOp::LenderWithdraw { frac } => {
                let v = w.tok(&w.banks[fb].lv);
                let a = ((v as u128 * *frac as u128) >> 16) as u64;
                let _ = w.vm.exec(&w.ix_withdraw(lender.accts[0], lender.auth, fb, lender.tokens[fb], a, None));
            }
            AOp::Repay { frac } => {
                let a = ((amt as u128 * *frac as u128) >> 16) as u64;
                let _ = w.vm.exec(&w.ix_repay(borrower.accts[0], borrower.auth, fb, borrower.tokens[fb], a, None));
            }
            AOp::BorrowMore { frac } => {
                let v = w.tok(&w.banks[fb].lv);
                let a = ((v as u128 * *frac as u128) >> 16) as u64;
                let _ = w.vm.exec(&w.ix_borrow(borrower.accts[0], borrower.auth, fb, borrower.tokens[fb], a));
            }
            AOp::RotateFeeWallet { propagate } => {
                use anchor_lang::{InstructionData, ToAccountMetas};
                let new_wallet = kp("c19_rotated_fee_wallet", retired.len() as u64);
                w.vm.set(new_wallet, wallet_acct(1_000_000_000));
                let ix = mfi(
                    marginfi::accounts::EditFeeState { global_fee_admin: w.roles.fee_admin, fee_state: w.fee_state }.to_account_metas(Some(true)),
                    marginfi::instruction::EditGlobalFeeState {
                        admin: w.roles.fee_admin,
                        fee_wallet: new_wallet,
                        bank_init_flat_sol_fee: w.spec.bank_init_flat_sol_fee,
                        liquidation_flat_sol_fee: w.spec.liq_flat_sol_fee,
                        program_fee_fixed: w_mill(w.spec.program_fee_fixed),
                        program_fee_rate: w_mill(w.spec.program_fee_rate),
                        liquidation_max_fee: w_mill(w.spec.liq_max_fee),
                    }
                    .data(),
                );
                if w.vm.exec(&ix).is_ok() {
                    st.rotations += 1;
                    retired.push(w.banks[fb].fee_ata);
                    w.fee_wallet = new_wallet;
                    for i in 0..w.banks.len() {
                        let info = w.banks[i].clone();
                        let k = ata(&new_wallet, &info.mint, &info.token_program);
                        if w.vm.get(&k).is_none() {
                            let a = token_acct_for(&w.vm, &info.mint, &info.token_program, new_wallet, 0);
                            w.vm.set(k, a);
                        }
                        w.banks[i].fee_ata = k;
                    }
                    unpropagated = !*propagate;
                    if *propagate {
                        let _ = w.vm.exec(&w.ix_propagate_fee_state());
                    }
                }
            }
            AOp::Collect => {
                let pre = w.vm.clone();
                // whatever the current wallet's collection does, the token account of a RETIRED fee wallet is never a
                // valid destination any more
                for old in &retired {
                    let mut ix = w.ix_collect_fees(fb);
                    ix.accounts[7].pubkey = *old;
                    let mut probe = pre.clone();
                    let before = token_amount(probe.data(old));
                    st.subst_cells += 1;
                    if probe.exec(&ix).is_ok() && token_amount(probe.data(old)) != before || { let mut p2 = pre.clone(); p2.exec(&ix).is_ok() } {
                        return fail("collect:retired-fee-wallet", format!("collect_bank_fees accepted the token account {old} of a fee wallet that the global fee admin has replaced (group cache refreshed since: {})", !unpropagated));
                    }
                }
                if unpropagated {
                    st.collects_after_unpropagated_rotation += 1;
                }
                let r = w.vm.exec(&w.ix_collect_fees(fb));
                if r.is_err() {
                    st.collects_err += 1;
                    continue;
                }
                let post = w.vm.clone();
                check_collect(&w, &pre, &post, fb, st)?;
                subst_matrix(&w, &pre, fb, twin, st)?;
            }
        }
    }
    Ok(())
}

// ==========================================================================================
// Part B — flow frame for insurance / fee vault draw-down
// ==========================================================================================
#[derive(Clone, Debug, Serialize, Deserialize, PartialEq)]
pub enum BOp {
    Base(Op),
    /// kind: 0 withdraw_fees, 1 withdraw_insurance, 2 update_fees_destination_account,
    /// 3 withdraw_fees_permissionless. who: index into identities(). dst: destination selector.
    Fee { kind: u8, b: u16, who: u8, dst: u8, amt: u8 },
}

const B_IDENTITIES: [&str; 10] = ["admin", "emode_admin", "curve_admin", "limit_admin", "emissions_admin", "metadata_admin", "risk_admin", "fee_admin", "stranger", "user"];
fn identity(w: &World, who: u8) -> Pubkey {
    match who % 10 {
        0 => w.roles.admin,
        1 => w.roles.emode,
        2 => w.roles.curve,
        3 => w.roles.limit,
        4 => w.roles.emissions,
        5 => w.roles.metadata,
        6 => w.roles.risk,
        7 => w.roles.fee_admin,
        8 => w.roles.stranger,
        _ => w.users[0].auth,
    }
}

fn b_op_strategy() -> impl Strategy<Value = BOp> {
    prop_oneof![
        55 => campaign::op_strategy().prop_map(BOp::Base),
        6 => any::<u16>().prop_map(|b| BOp::Base(Op::Collect { b })),
        3 => any::<u16>().prop_map(|b| BOp::Base(Op::Accrue { b })),
        36 => (0u8..4, any::<u16>(), prop_oneof![4 => Just(0u8), 6 => 1u8..10], prop_oneof![3 => Just(2u8), 5 => 0u8..5], 0u8..4).prop_map(|(kind, b, who, dst, amt)| BOp::Fee { kind, b, who, dst, amt }),
    ]
}

pub fn b_case_strategy(cfg: &GenCfg) -> impl Strategy<Value = (WorldSpec, Vec<BOp>)> {
    let max_ops = cfg.max_ops;
    (
        campaign::world_strategy(cfg),
        prop::bool::weighted(0.8),
        campaign::prefix_strategy(),
        prop::bool::weighted(0.75),
        prop::collection::vec(b_op_strategy(), 1..=max_ops),
    )
        .prop_map(|(mut spec, force_fees, prefix, use_prefix, ops)| {
            if force_fees {
                for b in spec.banks.iter_mut() {
                    if b.curve.ins_fixed == 0 && b.curve.ins_ir == 0 {
                        b.curve.ins_fixed = 30_000;
                    }
                    if b.curve.prot_fixed == 0 && b.curve.prot_ir == 0 {
                        b.curve.prot_fixed = 20_000;
                    }
                }
            }
            let mut v: Vec<BOp> = vec![];
            if use_prefix {
                let b0 = match &prefix[0] {
                    Op::Deposit { b, .. } => *b,
                    _ => 0,
                };
                v.extend(prefix.into_iter().map(BOp::Base));
                v.push(BOp::Base(Op::Wait { secs: 20_000_000 }));
                v.push(BOp::Base(Op::Accrue { b: b0 }));
                v.push(BOp::Base(Op::Collect { b: b0 }));
            }
            v.extend(ops);
            (spec, v)
        })
}

#[derive(Default, Debug)]
pub struct BStats {
    pub built: bool,
    pub ins_draws: u64,
    pub fee_draws_admin: u64,
    pub fee_draws_permissionless: u64,
    pub dest_set: u64,
    pub rejected_cells: Vec<(u8, u8, u8)>,
    pub fee_ok: Vec<(u8, u8)>,
    pub bankruptcy_draw: u64,
}

pub fn run_b(spec: &WorldSpec, ops: &[BOp], st: &mut BStats) -> Result<(), Fail> {
    let Ok(mut r) = Runner::new(spec) else { return Ok(()) };
    st.built = true;
    // an account of another mint / fabricated token accounts are not needed: users hold one token account per bank
    let mut model_dst: BTreeMap<Pubkey, Pubkey> = BTreeMap::new();
    for op in ops {
        let pre = r.snap.clone();
        // what this step is allowed to draw: (bank key, insurance?, fee?)
        let mut allow_ins: Option<Pubkey> = None;
        let mut allow_fee: Option<Pubkey> = None;
        let name: String;
        let committed: bool;
        match op {
            BOp::Base(o) => {
                let step = r.step(o);
                name = o.name().to_string();
                committed = step.ok && !step.skipped;
                if let Some(bi) = step.bank {
                    let k = r.w.banks[bi].key;
                    match o {
                        Op::Bankrupt { .. } => allow_ins = Some(k),
                        Op::WithdrawFees { ins: true, .. } => allow_ins = Some(k),
                        Op::WithdrawFees { ins: false, .. } => allow_fee = Some(k),
                        _ => {}
                    }
                }
                if matches!(o, Op::Wait { .. } | Op::Distress { .. } | Op::Price { .. }) {
                    // state-only ops keep their own snapshot
                } else {
                    r.refresh_snapshot();
                }
            }
            BOp::Fee { kind, b, who, dst, amt } => {
                let nb = r.w.banks.len();
                let bi = idx(*b, nb);
                let info = r.w.banks[bi].clone();
                let signer = identity(&r.w, *who);
                let configured = model_dst.get(&info.key).copied();
                let other_bi = (bi + 1) % nb;
                let dst_key = match dst % 5 {
                    0 => r.w.users[0].tokens[bi],
                    1 => r.w.users[1].tokens[bi],
                    2 => configured.unwrap_or(r.w.users[0].tokens[bi]),
                    3 => r.w.users[0].tokens[other_bi],
                    _ => Pubkey::default(),
                };
                let have = r.w.tok(if *kind == 1 { &info.iv } else { &info.fv });
                let a = match amt % 4 {
                    0 => have,
                    1 => have / 2 + 1,
                    2 => 1,
                    _ => u64::MAX,
                };
                let build = |w: &World, signer: Pubkey, dst_key: Pubkey| -> Instruction {
                    match kind % 4 {
                        0 => w.ix_withdraw_fees(bi, signer, dst_key, a),
                        1 => w.ix_withdraw_insurance(bi, signer, dst_key, a),
                        2 => ix_update_fees_dest(w, bi, signer, dst_key),
                        _ => ix_withdraw_fees_permissionless(w, bi, dst_key, a),
                    }
                };
                name = ["withdraw_fees", "withdraw_insurance", "update_fees_destination_account", "withdraw_fees_permissionless"][(*kind % 4) as usize].to_string();
                let ix = build(&r.w, signer, dst_key);
                let pre_vm = r.w.vm.clone();
                let ok = r.w.vm.exec(&ix).is_ok();
                committed = ok;
                let is_admin = signer == r.w.roles.admin;
                if ok {
                    st.fee_ok.push((*kind % 4, *who % 10));
                    match kind % 4 {
                        0 if is_admin => allow_fee = Some(info.key),
                        1 if is_admin => allow_ins = Some(info.key),
                        2 => {
                            if !is_admin {
                                return fail(
                                    format!("frame:destination-set-by-{}", B_IDENTITIES[(*who % 10) as usize]),
                                    format!("update_fees_destination_account on bank {bi} succeeded for signer {} who is not the group admin", B_IDENTITIES[(*who % 10) as usize]),
                                );
                            }
                            model_dst.insert(info.key, dst_key);
                            st.dest_set += 1;
                        }
                        3 => {
                            if configured == Some(dst_key) {
                                allow_fee = Some(info.key);
                            } else {
                                // whatever the balance did, tokens were released to a destination the admin did not fix
                                return fail(
                                    "frame:permissionless-destination",
                                    format!("withdraw_fees_permissionless on bank {bi} succeeded into {dst_key} while the admin-configured destination is {:?} (fee vault {} -> {})", configured, have, r.w.tok(&info.fv)),
                                );
                            }
                        }
                        _ => {}
                    }
                } else {
                    // a rejected cell is evidence only if the correct signer / destination succeeds in the same state
                    let wrong_identity = kind % 4 != 3 && !is_admin;
                    let wrong_dst = kind % 4 == 3 && configured.is_some() && configured != Some(dst_key);
                    if wrong_identity || wrong_dst {
                        let mut vm = pre_vm.clone();
                        let base = if kind % 4 == 3 { build(&r.w, signer, configured.unwrap()) } else { build(&r.w, r.w.roles.admin, dst_key) };
                        if vm.exec(&base).is_ok() {
                            st.rejected_cells.push((*kind % 4, *who % 10, *dst % 5));
                        }
                    }
                }
                r.refresh_snapshot();
            }
        }
        let post = r.snap.clone();
        // ---- the frame, for every bank
        for (k, b0) in pre.banks.iter() {
            let Some(b1) = post.banks.get(k) else { continue };
            if b1.ins_vault < b0.ins_vault {
                if !(committed && allow_ins == Some(*k)) {
                    return fail(format!("frame:insurance-vault-drawn:{name}"), format!("insurance vault of bank {k} fell {} -> {} in `{name}` which is neither bankruptcy cover on that bank nor withdraw_insurance signed by the group admin", b0.ins_vault, b1.ins_vault));
                }
                st.ins_draws += 1;
                if name == "bankruptcy" {
                    st.bankruptcy_draw += 1;
                }
            }
            if b1.fee_vault < b0.fee_vault {
                if !(committed && allow_fee == Some(*k)) {
                    return fail(format!("frame:fee-vault-drawn:{name}"), format!("fee vault of bank {k} fell {} -> {} in `{name}` which is neither withdraw_fees signed by the group admin nor a permissionless withdrawal into the admin-configured destination", b0.fee_vault, b1.fee_vault));
                }
                if name == "withdraw_fees_permissionless" {
                    st.fee_draws_permissionless += 1;
                } else {
                    st.fee_draws_admin += 1;
                }
            }
            let want = model_dst.get(k).copied().unwrap_or_default();
            if b1.raw.fees_destination_account != want {
                return fail(format!("frame:destination-changed:{name}"), format!("bank {k} fees_destination_account is {} but the group admin last set {}", b1.raw.fees_destination_account, want));
            }
        }
    }
    Ok(())
}

// ==========================================================================================
// Part C — emissions
// ==========================================================================================
#[derive(Clone, Debug, Serialize, Deserialize, PartialEq)]
pub enum COp {
    Wait { secs: u32 },
    Accrue,
    Deposit { u: u8, amt: u64 },
    Withdraw { u: u8, frac: u32, all: bool },
    Borrow { u: u8, frac: u32 },
    Repay { u: u8, frac: u32, all: bool },
    CloseBalance { u: u8 },
    Settle { u: u8 },
    /// who: 0 authority, 1 group admin, 2 stranger, 3 another user, 4 emissions admin; dst: 0 own, 1 another user's, 2 stranger's
    WithdrawEm { u: u8, who: u8, dst: u8 },
    /// dst: 0 ATA(configured wallet, or the authority when none), 1 the user's plain token account,
    /// 2 ATA(stranger), 3 ATA(next wallet after the configured one)
    WithdrawEmPermissionless { u: u8, dst: u8 },
    /// who: 0 authority, 1 group admin, 2 stranger, 3 another user; wallet index into the wallet list
    SetDest { u: u8, who: u8, wallet: u8 },
    /// who: 0 emissions admin, 1 group admin, 2 stranger
    Params { flags: Option<u8>, rate: Option<u64>, add: Option<u64>, who: u8 },
    Setup { flags: u8, rate: u64, total: u64, who: u8 },
    Freeze { u: u8, on: bool },
}
impl COp {
    fn name(&self) -> &'static str {
        match self {
            COp::Wait { .. } => "wait",
            COp::Accrue => "accrue",
            COp::Deposit { .. } => "deposit",
            COp::Withdraw { all: true, .. } => "withdraw_all",
            COp::Withdraw { .. } => "withdraw",
            COp::Borrow { .. } => "borrow",
            COp::Repay { all: true, .. } => "repay_all",
            COp::Repay { .. } => "repay",
            COp::CloseBalance { .. } => "close_balance",
            COp::Settle { .. } => "settle_emissions",
            COp::WithdrawEm { .. } => "withdraw_emissions",
            COp::WithdrawEmPermissionless { .. } => "withdraw_emissions_permissionless",
            COp::SetDest { .. } => "update_emissions_destination_account",
            COp::Params { .. } => "update_emissions_parameters",
            COp::Setup { .. } => "setup_emissions",
            COp::Freeze { .. } => "freeze",
        }
    }
}

#[derive(Clone, Debug, Serialize, Deserialize)]
pub struct CCase {
    /// banks[0] = emissions bank, banks[1] = collateral bank
    pub spec: WorldSpec,
    /// 0 SPL, 1 Token-2022, 2 Token-2022 with transfer fee
    pub em_kind: u8,
    pub em_dec: u8,
    pub em_bps: u16,
    pub em_max: u64,
    /// per user: (0 lender / 1 borrower / 2 none, amount or fraction)
    pub positions: Vec<(u8, u64)>,
    pub ops: Vec<COp>,
}

#[derive(Default, Debug)]
pub struct CStats {
    /// independent time base: when this harness last saw an account's shares in the emissions bank change
    pub last_share_change: std::collections::BTreeMap<solana_program::pubkey::Pubkey, i64>,
    pub built: bool,
    pub setup_ok: bool,
    pub claims_positive: u64,
    pub claims_capped: u64,
    pub claims_uncapped: u64,
    pub claims_zero_inactive: u64,
    pub payouts_auth: u64,
    pub payouts_perm: u64,
    pub payouts_admin_frozen: u64,
    pub receivership_probes: u64,
    pub receivership_claims_committed_empty: u64,
    pub rejected_cells: Vec<(&'static str, u8, u8)>,
    pub ok_ops: Vec<&'static str>,
    pub fail_ops: Vec<&'static str>,
    pub funding_ok: u64,
    pub max_rel_err: f64,
    pub witnesses: Vec<Value>,
}

fn c_rate_strategy() -> impl Strategy<Value = u64> {
    prop_oneof![
        1 => Just(0u64),
        2 => 1u64..1000,
        6 => 1000u64..100_000_000,
        3 => 100_000_000u64..1_000_000_000_000,
        1 => Just(u64::MAX),
        1 => any::<u64>(),
    ]
}
fn c_total_strategy() -> impl Strategy<Value = u64> {
    prop_oneof![
        1 => Just(0u64),
        2 => 1u64..100,
        4 => 100u64..1_000_000,
        4 => 1_000_000u64..1_000_000_000_000,
        1 => 1_000_000_000_000u64..(1u64 << 60),
    ]
}

fn c_op_strategy() -> impl Strategy<Value = COp> {
    let u = || 0u8..6;
    prop_oneof![
        10 => prop_oneof![1 => Just(0u32), 2 => 1u32..3600, 4 => 3600u32..5_000_000, 3 => 5_000_000u32..80_000_000].prop_map(|secs| COp::Wait { secs }),
        2 => Just(COp::Accrue),
        5 => (u(), prop_oneof![0u64..10, 10u64..1_000_000, 1_000_000u64..1_000_000_000_000]).prop_map(|(u, amt)| COp::Deposit { u, amt }),
        5 => (u(), 0u32..=65_536, prop::bool::weighted(0.2)).prop_map(|(u, frac, all)| COp::Withdraw { u, frac, all }),
        4 => (u(), 0u32..=65_536).prop_map(|(u, frac)| COp::Borrow { u, frac }),
        4 => (u(), 0u32..=65_536, prop::bool::weighted(0.2)).prop_map(|(u, frac, all)| COp::Repay { u, frac, all }),
        1 => u().prop_map(|u| COp::CloseBalance { u }),
        10 => u().prop_map(|u| COp::Settle { u }),
        10 => (u(), prop_oneof![5 => Just(0u8), 4 => 1u8..5], 0u8..3).prop_map(|(u, who, dst)| COp::WithdrawEm { u, who, dst }),
        10 => (u(), prop_oneof![4 => Just(0u8), 3 => 1u8..4]).prop_map(|(u, dst)| COp::WithdrawEmPermissionless { u, dst }),
        5 => (u(), prop_oneof![5 => Just(0u8), 3 => 1u8..4], 0u8..8).prop_map(|(u, who, wallet)| COp::SetDest { u, who, wallet }),
        4 => (prop::option::weighted(0.4, 0u8..4), prop::option::weighted(0.4, c_rate_strategy()), prop::option::weighted(0.5, c_total_strategy()), prop_oneof![6 => Just(0u8), 1 => 1u8..3])
            .prop_map(|(flags, rate, add, who)| COp::Params { flags, rate, add, who }),
        1 => (0u8..4, c_rate_strategy(), c_total_strategy(), 0u8..3).prop_map(|(flags, rate, total, who)| COp::Setup { flags, rate, total, who }),
        2 => (u(), prop::bool::weighted(0.6)).prop_map(|(u, on)| COp::Freeze { u, on }),
    ]
}

pub fn c_case_strategy() -> impl Strategy<Value = CCase> {
    (
        a_fee_bank_strategy(),
        (0u8..3, prop_oneof![Just(6u8), Just(9u8), 0u8..=12], prop_oneof![2 => Just(0u16), 3 => 1u16..1000, 1 => Just(10_000u16)], prop_oneof![Just(0u64), 1u64..1_000_000, Just(u64::MAX)]),
        prop::collection::vec((prop_oneof![5 => Just(0u8), 4 => Just(1u8), 1 => Just(2u8)], prop_oneof![1u64..1000, 1000u64..1_000_000_000, 1_000_000_000u64..1_000_000_000_000_000]), 2..=5),
        prop_oneof![1 => Just(0u32), 3 => 1u32..40_000_000],
        (prop_oneof![1 => Just(0u8), 3 => Just(1u8), 4 => Just(2u8), 4 => Just(3u8)], c_rate_strategy(), c_total_strategy()),
        prop::bool::weighted(0.85),
        prop::collection::vec(c_op_strategy(), 1..=30),
    )
        .prop_map(|(mut eb, (em_kind, em_dec, em_bps, em_max), positions, pre_wait, (flags, rate, total), setup_first, mut ops)| {
            // no insurance dust rules are involved here; keep the curve, drop the limits
            eb.deposit_limit = u64::MAX;
            eb.borrow_limit = u64::MAX;
            let mut v = vec![COp::Wait { secs: pre_wait }];
            if setup_first {
                v.push(COp::Setup { flags, rate, total, who: 0 });
            }
            v.append(&mut ops);
            CCase {
                spec: WorldSpec { banks: vec![eb, collateral_bank()], n_users: positions.len() as u8 + 1, ..WorldSpec::default() },
                em_kind,
                em_dec,
                em_bps: if em_kind == 2 { em_bps } else { 0 },
                em_max: if em_kind == 2 { em_max } else { 0 },
                positions,
                ops: v,
            }
        })
}

struct CWorld {
    w: World,
    em: Em,
    /// the user's plain token account for the emissions mint
    em_tokens: Vec<Pubkey>,
    stranger_token: Pubkey,
    wallets: Vec<Pubkey>,
    /// destination wallet the AUTHORITY configured, per marginfi account
    model_dest: BTreeMap<Pubkey, Pubkey>,
    setup_done: bool,
    /// a funding step credited more than reached the vault (transfer-fee mint)
    short_funded: bool,
}

fn find_balance<'a>(a: &'a MarginfiAccount, bank: &Pubkey) -> Option<&'a Balance> {
    a.lending_account.balances.iter().find(|b| b.active != 0 && b.bank_pk == *bank)
}

/// Σ outstanding over all accounts for `bank`, and the per-account values
fn outstanding_map(vm: &Vm, bank: &Pubkey) -> BTreeMap<Pubkey, Q> {
    let mut m = BTreeMap::new();
    for (k, a) in all_maccts(vm) {
        if let Some(b) = find_balance(&a, bank) {
            m.insert(k, q_w(b.emissions_outstanding));
        }
    }
    m
}

const SECONDS_PER_YEAR_U: u64 = 31_536_000;
const MIN_EMISSIONS_START_TIME_U: u64 = 1_681_989_983;

/// exact emissions the statement promises for one claim, and the truncation allowance
/// returns (exact, allowance, dust)
fn expected_claim(bank_pre: &Bank, asv: &Q, lsv: &Q, bal: Option<&Balance>, now: i64, model_last: Option<i64>) -> (Q, Q, bool) {
    let Some(bal) = bal else { return (q_zero(), q_zero(), false) };
    let a = q_w(bal.asset_shares);
    let l = q_w(bal.liability_shares);
    let lending_active = bank_pre.flags & 2 == 2;
    let borrow_active = bank_pre.flags & 1 == 1;
    let one = q_one();
    let (amount, dust) = if l >= one {
        if !borrow_active {
            return (q_zero(), q_zero(), false);
        }
        (&l * lsv, false)
    } else if a >= one {
        if !lending_active {
            return (q_zero(), q_zero(), false);
        }
        (&a * asv, false)
    } else {
        // below one share the program treats the position as empty; the statement is silent: accept 0..formula
        let amt = if l.is_positive() && borrow_active {
            &l * lsv
        } else if a.is_positive() && lending_active {
            &a * asv
        } else {
            return (q_zero(), q_zero(), false);
        };
        (amt, true)
    };
    // The accrual period starts at the later of the on-chain timestamp and the time at which THIS
    // HARNESS last saw the position's shares change (independent time base: a position cannot earn
    // for a period in which it did not exist with that size, whatever the stored timestamp says).
    let chain_last = bal.last_update;
    let start = match model_last {
        Some(m) if m >= 0 && (m as u64) > chain_last => m as u64,
        _ => chain_last,
    };
    let period: u64 = if chain_last < MIN_EMISSIONS_START_TIME_U { 0 } else { (now as u64).saturating_sub(start) };
    let p = q_u(period);
    let y = q_u(SECONDS_PER_YEAR_U);
    let rate = q_u(bank_pre.emissions_rate);
    let dec = pow10(bank_pre.mint_decimals as u32);
    let exact = &p * &amount / &dec * &rate / &y;
    // amount' in (A-ulp, A]; ui' in (amount'/10^dec - ulp, .]; p*ui' exact; /Y loses < 1 ulp; *rate exact
    let allow = &rate * ulp() * (&p * (q_one() + q_one() / &dec) / &y + q_one());
    (exact, allow, dust)
}

impl CWorld {
    fn build(c: &CCase) -> Option<CWorld> {
        let mut w = World::build(&c.spec).ok()?;
        let eb = 0usize;
        let mint = kp("emissions_mint", 0);
        let tp = if c.em_kind == 0 { spl_token::ID } else { spl_token_2022::ID };
        match c.em_kind {
            0 => w.vm.set(mint, spl_mint_acct(c.em_dec)),
            1 => w.vm.set(mint, t22_mint_acct(c.em_dec, None)),
            _ => w.vm.set(mint, t22_mint_acct(c.em_dec, Some((c.em_bps, c.em_max)))),
        }
        let (auth, vault) = em_pdas(&w.banks[eb].key, &mint);
        let funding = kp("emissions_funding", 0);
        let fa = token_acct_for(&w.vm, &mint, &tp, w.roles.emissions, 1u64 << 63);
        w.vm.set(funding, fa);
        let mut em_tokens = vec![];
        let mut wallets = vec![];
        for (i, u) in w.users.clone().iter().enumerate() {
            let k = kp("em_token", i as u64);
            let a = token_acct_for(&w.vm, &mint, &tp, u.auth, 0);
            w.vm.set(k, a);
            em_tokens.push(k);
            wallets.push(u.auth);
        }
        wallets.push(w.roles.stranger);
        wallets.push(kp("dest_wallet", 0));
        wallets.push(kp("dest_wallet", 1));
        for wl in &wallets {
            let k = ata(wl, &mint, &tp);
            let a = token_acct_for(&w.vm, &mint, &tp, *wl, 0);
            w.vm.set(k, a);
        }
        let stranger_token = kp("em_token_stranger", 0);
        let a = token_acct_for(&w.vm, &mint, &tp, w.roles.stranger, 0);
        w.vm.set(stranger_token, a);
        let em = Em { mint, tp, auth, vault, funding, kind: c.em_kind, bps: c.em_bps, max: c.em_max };
        Some(CWorld { w, em, em_tokens, stranger_token, wallets, model_dest: BTreeMap::new(), setup_done: false, short_funded: false })
    }

    fn position_amount(&self, macct: &Pubkey, bi: usize) -> (u64, u64) {
        let Some(a) = read_macct(&self.w.vm, macct) else { return (0, 0) };
        let bank = self.w.bank(bi);
        match find_balance(&a, &self.w.banks[bi].key) {
            Some(b) => (
                q_floor(&(q_w(b.asset_shares) * q_w(bank.asset_share_value))).to_u64().unwrap_or(u64::MAX),
                q_ceil(&(q_w(b.liability_shares) * q_w(bank.liability_share_value))).to_u64().unwrap_or(u64::MAX),
            ),
            None => (0, 0),
        }
    }
}

pub fn run_c(c: &CCase, st: &mut CStats) -> Result<(), Fail> {
    if c.spec.banks.len() < 2 || c.positions.is_empty() || (c.spec.n_users as usize) < c.positions.len() {
        return Ok(());
    }
    let Some(mut cw) = CWorld::build(c) else { return Ok(()) };
    let (eb, cb) = (0usize, 1usize);
    let ekey = cw.w.banks[eb].key;
    let nu = cw.w.users.len();
    // positions: lenders first, then borrowers
    for (i, (side, amt)) in c.positions.iter().enumerate() {
        let u = cw.w.users[i].clone();
        let _ = cw.w.vm.exec(&cw.w.ix_deposit(u.accts[0], u.auth, cb, u.tokens[cb], 1_000_000_000_000, None));
        if *side == 0 {
            let _ = cw.w.vm.exec(&cw.w.ix_deposit(u.accts[0], u.auth, eb, u.tokens[eb], *amt, None));
        }
    }
    for (i, (side, amt)) in c.positions.iter().enumerate() {
        if *side == 1 {
            let u = cw.w.users[i].clone();
            let liq = cw.w.tok(&cw.w.banks[eb].lv);
            let a = (*amt).min(liq / 2);
            if a > 0 {
                let _ = cw.w.vm.exec(&cw.w.ix_borrow(u.accts[0], u.auth, eb, u.tokens[eb], a));
            }
        }
    }
    st.built = true;
    for op in &c.ops {
        let w = &cw.w;
        let user = |u: u8| w.users[(u as usize) % nu].clone();
        // resolve
        let mut touched: Option<Pubkey> = None;
        let ix: Option<Instruction>;
        let mut payout: Option<(Pubkey, Pubkey, bool)> = None; // (signer, dst, permissionless)
        let mut funding: Option<Q> = None; // credited amount if the op succeeds
        let mut setdest: Option<(Pubkey, Pubkey, Pubkey)> = None; // (macct, signer, wallet)
        match op {
            COp::Wait { secs } => {
                cw.w.vm.advance(*secs as i64);
                cw.w.refresh_oracles();
                continue;
            }
            COp::Accrue => ix = Some(w.ix_accrue(eb)),
            COp::Deposit { u, amt } => {
                let us = user(*u);
                touched = Some(us.accts[0]);
                ix = Some(w.ix_deposit(us.accts[0], us.auth, eb, us.tokens[eb], *amt, None));
            }
            COp::Withdraw { u, frac, all } => {
                let us = user(*u);
                touched = Some(us.accts[0]);
                let (av, _) = cw.position_amount(&us.accts[0], eb);
                let a = ((av as u128 * *frac as u128) >> 16) as u64;
                ix = Some(w.ix_withdraw(us.accts[0], us.auth, eb, us.tokens[eb], a, if *all { Some(true) } else { None }));
            }
            COp::Borrow { u, frac } => {
                let us = user(*u);
                touched = Some(us.accts[0]);
                let liq = w.tok(&w.banks[eb].lv);
                let a = (((liq / 2) as u128 * *frac as u128) >> 16) as u64;
                ix = Some(w.ix_borrow(us.accts[0], us.auth, eb, us.tokens[eb], a));
            }
            COp::Repay { u, frac, all } => {
                let us = user(*u);
                touched = Some(us.accts[0]);
                let (_, lv) = cw.position_amount(&us.accts[0], eb);
                let a = ((lv as u128 * *frac as u128) >> 16) as u64;
                ix = Some(w.ix_repay(us.accts[0], us.auth, eb, us.tokens[eb], a, if *all { Some(true) } else { None }));
            }
            COp::CloseBalance { u } => {
                let us = user(*u);
                touched = Some(us.accts[0]);
                ix = Some(w.ix_close_balance(us.accts[0], us.auth, eb));
            }
            COp::Settle { u } => {
                let us = user(*u);
                touched = Some(us.accts[0]);
                ix = Some(ix_settle_emissions(w, eb, us.accts[0]));
            }
            COp::WithdrawEm { u, who, dst } => {
                let ui = (*u as usize) % nu;
                let us = w.users[ui].clone();
                touched = Some(us.accts[0]);
                let signer = match who % 5 {
                    0 => us.auth,
                    1 => w.roles.admin,
                    2 => w.roles.stranger,
                    3 => w.users[(ui + 1) % nu].auth,
                    _ => w.roles.emissions,
                };
                let d = match dst % 3 {
                    0 => cw.em_tokens[ui],
                    1 => cw.em_tokens[(ui + 1) % nu],
                    _ => cw.stranger_token,
                };
                payout = Some((signer, d, false));
                ix = Some(ix_withdraw_emissions(w, eb, &cw.em, us.accts[0], signer, d));
            }
            COp::WithdrawEmPermissionless { u, dst } => {
                let ui = (*u as usize) % nu;
                let us = w.users[ui].clone();
                touched = Some(us.accts[0]);
                let conf = cw.model_dest.get(&us.accts[0]).copied();
                let d = match dst % 4 {
                    0 => ata(&conf.unwrap_or(us.auth), &cw.em.mint, &cw.em.tp),
                    1 => cw.em_tokens[ui],
                    2 => ata(&w.roles.stranger, &cw.em.mint, &cw.em.tp),
                    _ => {
                        let pos = conf.and_then(|c| cw.wallets.iter().position(|x| *x == c)).unwrap_or(0);
                        ata(&cw.wallets[(pos + 1) % cw.wallets.len()], &cw.em.mint, &cw.em.tp)
                    }
                };
                payout = Some((Pubkey::default(), d, true));
                ix = Some(ix_withdraw_emissions_permissionless(w, eb, &cw.em, us.accts[0], d));
            }
            COp::SetDest { u, who, wallet } => {
                let ui = (*u as usize) % nu;
                let us = w.users[ui].clone();
                let signer = match who % 4 {
                    0 => us.auth,
                    1 => w.roles.admin,
                    2 => w.roles.stranger,
                    _ => w.users[(ui + 1) % nu].auth,
                };
                let wl = cw.wallets[(*wallet as usize) % cw.wallets.len()];
                setdest = Some((us.accts[0], signer, wl));
                ix = Some(ix_update_emissions_dest(w, us.accts[0], signer, wl));
            }
            COp::Params { flags, rate, add, who } => {
                let signer = match who % 3 {
                    0 => w.roles.emissions,
                    1 => w.roles.admin,
                    _ => w.roles.stranger,
                };
                funding = Some(q_u(add.unwrap_or(0)));
                ix = Some(ix_update_emissions(w, eb, &cw.em, signer, flags.map(|f| (f % 4) as u64), *rate, *add));
            }
            COp::Setup { flags, rate, total, who } => {
                let signer = match who % 3 {
                    0 => w.roles.emissions,
                    1 => w.roles.admin,
                    _ => w.roles.stranger,
                };
                funding = Some(q_u(*total));
                ix = Some(ix_setup_emissions(w, eb, &cw.em, signer, (*flags % 4) as u64, *rate, *total));
            }
            COp::Freeze { u, on } => {
                let us = user(*u);
                ix = Some(w.ix_set_freeze(us.accts[0], w.roles.admin, *on));
            }
        }
        let ix = ix.unwrap();
        let pre = cw.w.vm.clone();
        let res = cw.w.vm.exec(&ix);
        let name = op.name();
        if res.is_err() {
            st.fail_ops.push(name);
            // -- a payout by the authority must not fail for lack of vault funds
            if let (Some((signer, _dst, false)), Some(m)) = (payout, touched) {
                let a = read_macct(&pre, &m).unwrap();
                let frozen = a.account_flags & ACCOUNT_FROZEN != 0;
                let disabled = a.account_flags & ACCOUNT_DISABLED != 0;
                if signer == a.authority && !frozen && !disabled && cw.setup_done && !cw.short_funded {
                    let mut probe = pre.clone();
                    if probe.exec(&ix_settle_emissions(&cw.w, eb, m)).is_ok() {
                        let out = outstanding_map(&probe, &ekey).get(&m).cloned().unwrap_or_else(q_zero);
                        let vault = token_amount(pre.data(&cw.em.vault));
                        return fail(
                            "emissions:payout-failed",
                            format!("withdraw_emissions signed by the account authority failed ({:?}) although the claim itself succeeds; outstanding {} vault {}", res.err(), q_str(&out), vault),
                        );
                    }
                }
            }
            // -- rejected identity / destination cells whose baseline succeeds in the same state
            if let (Some((signer, dst, perm)), Some(m)) = (payout, touched) {
                let a = read_macct(&pre, &m).unwrap();
                let mut probe = pre.clone();
                let base = if perm {
                    cw.model_dest.get(&m).map(|wl| ix_withdraw_emissions_permissionless(&cw.w, eb, &cw.em, m, ata(wl, &cw.em.mint, &cw.em.tp)))
                } else if signer != a.authority {
                    Some(ix_withdraw_emissions(&cw.w, eb, &cw.em, m, a.authority, dst))
                } else {
                    None
                };
                if let Some(b) = base {
                    if b != ix && probe.exec(&b).is_ok() {
                        if let COp::WithdrawEm { who, dst, .. } = op {
                            st.rejected_cells.push(("withdraw_emissions", *who % 5, *dst % 3));
                        }
                        if let COp::WithdrawEmPermissionless { dst, .. } = op {
                            st.rejected_cells.push(("withdraw_emissions_permissionless", 0, *dst % 4));
                        }
                    }
                }
            }
            if let Some((m, signer, wl)) = setdest {
                let a = read_macct(&pre, &m).unwrap();
                if signer != a.authority {
                    let mut probe = pre.clone();
                    if probe.exec(&ix_update_emissions_dest(&cw.w, m, a.authority, wl)).is_ok() {
                        if let COp::SetDest { who, .. } = op {
                            st.rejected_cells.push(("update_emissions_destination_account", *who % 4, 0));
                        }
                    }
                }
            }
            continue;
        }
        st.ok_ops.push(name);
        let post = cw.w.vm.clone();
        let now = post.now();
        // ------------------------------------------------------------------ observations
        let bank0 = read_bank(&pre, &ekey);
        let bank1 = read_bank(&post, &ekey);
        let rem0 = q_w(bank0.emissions_remaining);
        let rem1 = q_w(bank1.emissions_remaining);
        let out0 = outstanding_map(&pre, &ekey);
        let out1 = outstanding_map(&post, &ekey);
        let vault0 = token_amount(pre.data(&cw.em.vault));
        let vault1 = token_amount(post.data(&cw.em.vault));
        let sum0: Q = out0.values().fold(q_zero(), |a, b| a + b);
        let sum1: Q = out1.values().fold(q_zero(), |a, b| a + b);
        let t0 = &sum0 + &rem0;
        let t1 = &sum1 + &rem1;
        let dv = q_int(vault1 as i128 - vault0 as i128);
        if rem1.is_negative() {
            return fail("emissions:remaining-negative", format!("`{name}` left emissions_remaining = {} (was {})", q_str(&rem1), q_str(&rem0)));
        }
        for (k, v) in out1.iter() {
            if v.is_negative() {
                return fail("emissions:outstanding-negative", format!("`{name}` left emissions_outstanding of {k} = {}", q_str(v)));
            }
        }
        if let Some(credited) = funding {
            // ---- funding step: the pool grows by exactly the stated amount, nobody is credited
            let setup = matches!(op, COp::Setup { .. });
            let grew = if setup { rem1.clone() } else { &rem1 - &rem0 };
            if grew != credited {
                return fail("emissions:funding-credit", format!("`{name}` credited {} to emissions_remaining for a stated amount of {}", q_str(&grew), q_str(&credited)));
            }
            if out0 != out1 {
                return fail("emissions:claim-frame", format!("`{name}` changed a position's emissions_outstanding"));
            }
            if setup {
                cw.setup_done = true;
                st.setup_ok = true;
            }
            if dv < credited {
                cw.short_funded = true;
                return fail(
                    "emissions:credited-exceeds-funded",
                    format!("`{name}` credited {} to emissions_remaining but only {} reached the emissions vault (mint kind {} fee {} bps max {})", q_str(&credited), q_str(&dv), cw.em.kind, cw.em.bps, cw.em.max),
                );
            }
            st.funding_ok += 1;
            continue;
        }
        // ---- conservation: credited rewards + pool never grow by more than what reached the vault
        if &t1 - &t0 > dv {
            return fail(
                "emissions:conservation",
                format!("`{name}`: outstanding+remaining changed by {} while the emissions vault changed by {} (remaining {} -> {}, sum outstanding {} -> {})", q_str(&(&t1 - &t0)), q_str(&dv), q_str(&rem0), q_str(&rem1), q_str(&sum0), q_str(&sum1)),
            );
        }
        // ---- non-funding step: at most one claim, by the touched balance
        let e = &rem0 - &rem1;
        if e.is_negative() {
            return fail("emissions:remaining-increased", format!("`{name}` increased emissions_remaining {} -> {} without funding", q_str(&rem0), q_str(&rem1)));
        }
        let paid = vault0 as i128 - vault1 as i128;
        if paid < 0 {
            return fail("emissions:vault-increased", format!("`{name}` increased the emissions vault"));
        }
        if paid > 0 && payout.is_none() {
            return fail(format!("emissions:vault-drawn:{name}"), format!("`{name}` took {paid} out of the emissions vault"));
        }
        for (k, v0) in out0.iter() {
            if Some(*k) == touched {
                continue;
            }
            if out1.get(k) != Some(v0) {
                return fail("emissions:claim-frame", format!("`{name}` on {:?} changed emissions_outstanding of the untouched account {k}: {} -> {:?}", touched, q_str(v0), out1.get(k).map(q_str)));
            }
        }
        for (k, v1) in out1.iter() {
            if Some(*k) != touched && !out0.contains_key(k) && !v1.is_zero() {
                return fail("emissions:claim-frame", format!("`{name}` created a position for {k} with outstanding emissions {}", q_str(v1)));
            }
        }
        let mut closed = false;
        if let Some(m) = touched {
            let o0 = out0.get(&m).cloned().unwrap_or_else(q_zero);
            match out1.get(&m) {
                Some(o1) => {
                    let credited = o1 + q_int(paid) - &o0;
                    if credited != e {
                        return fail(
                            "emissions:claim-vs-pool",
                            format!("`{name}`: position credited {} (outstanding {} -> {}, paid {}) but the pool fell by {}", q_str(&credited), q_str(&o0), q_str(o1), paid, q_str(&e)),
                        );
                    }
                }
                None => {
                    if out0.contains_key(&m) {
                        closed = true;
                        if &o0 + &e >= q_one() || paid != 0 {
                            return fail("emissions:closed-with-rewards", format!("`{name}` closed a position holding {} + {} accrued emissions", q_str(&o0), q_str(&e)));
                        }
                    } else if !e.is_zero() {
                        return fail("emissions:claim-vs-pool", format!("`{name}`: pool fell by {} but the account has no position", q_str(&e)));
                    }
                }
            }
        } else if !e.is_zero() {
            return fail("emissions:claim-vs-pool", format!("`{name}` touched no position but the pool fell by {}", q_str(&e)));
        }
        // ---- the pool + credited rewards only shrink through payouts (or < 1 token dropped at close)
        let shrink = &t0 - &t1;
        if shrink.is_positive() {
            let ok = shrink == q_int(paid) || (closed && shrink < q_one());
            if !ok {
                return fail("emissions:vanished", format!("`{name}`: outstanding+remaining fell by {} with {} paid out", q_str(&shrink), paid));
            }
        }
        // ---- the claim formula
        if let Some(m) = touched {
            let a0 = read_macct(&pre, &m);
            let bal0 = a0.as_ref().and_then(|a| find_balance(a, &ekey));
            // a claim is what happens between two values of the position's last_update; an instruction
            // that leaves last_update alone (e.g. a zero-amount deposit returns early) must not credit anything
            let a1 = read_macct(&post, &m);
            let bal1 = a1.as_ref().and_then(|a| find_balance(a, &ekey));
            let claimed = match (bal0, bal1) {
                (Some(b0), Some(b1)) => b0.last_update != b1.last_update,
                (Some(_), None) => true,
                _ => false,
            };
            let claim_time = bal1.map(|b| b.last_update as i64).unwrap_or(now);
            if claimed && claim_time != now {
                return fail("emissions:claim-time", format!("`{name}` moved the position's last_update to {claim_time} at clock {now}"));
            }
            let (exact, allow, dust) = if claimed { expected_claim(&bank0, &q_w(bank1.asset_share_value), &q_w(bank1.liability_share_value), bal0, now, st.last_share_change.get(&m).copied()) } else { (q_zero(), q_zero(), false) };
            let lo_raw = if dust { q_zero() } else { q_max(&exact - &allow, q_zero()) };
            let lo = q_min(lo_raw, rem0.clone());
            let hi = q_min(&exact + &allow, rem0.clone());
            if e < lo || e > hi {
                let dummy = bank0_dummy_balance();
                let b = bal0.unwrap_or(&dummy);
                return fail(
                    "emissions:claim-amount",
                    format!(
                        "`{name}`: claim of {} but dt*amount/10^dec*rate/year = {} (allowance {}), remaining {}; rate {} dec {} flags {:#b} shares a={} l={} last_update {} now {}",
                        q_str(&e), q_str(&exact), q_str(&allow), q_str(&rem0), bank0.emissions_rate, bank0.mint_decimals, bank0.flags, q_str(&q_w(b.asset_shares)), q_str(&q_w(b.liability_shares)), b.last_update, now
                    ),
                );
            }
            if e.is_positive() && e < rem0 {
                st.claims_uncapped += 1;
            }
            if e.is_positive() {
                st.claims_positive += 1;
                if exact.is_positive() {
                    let rel = q_f64(&((&e - &exact).abs() / &exact));
                    if e < rem0 && rel > st.max_rel_err {
                        st.max_rel_err = rel;
                    }
                }
            }
            if &exact - &allow > rem0 && !dust {
                st.claims_capped += 1;
                st.witnesses.push(json!({"op": name, "rate": bank0.emissions_rate.to_string(), "rem": q_str(&rem0), "exact": q_str(&exact), "dec": bank0.mint_decimals, "emk": cw.em.kind}));
            }
            if exact.is_zero() && bal0.is_some() && bank0.emissions_rate > 0 && bank0.flags & 3 != 3 {
                st.claims_zero_inactive += 1;
            }
        }
        // ---- independent time base: remember when each account's shares in the emissions bank changed
        for (k, a1) in all_maccts(&post) {
            let s1 = find_balance(&a1, &ekey).map(|b| (b.asset_shares, b.liability_shares));
            let s0 = read_macct(&pre, &k).as_ref().and_then(|a| find_balance(a, &ekey).map(|b| (b.asset_shares, b.liability_shares)));
            if s0 != s1 {
                st.last_share_change.insert(k, now);
            }
        }
        // ---- payouts
        if let (Some((signer, dst, perm)), Some(m)) = (payout, touched) {
            let a0 = read_macct(&pre, &m).unwrap();
            let frozen = a0.account_flags & ACCOUNT_FROZEN != 0;
            if perm {
                let wl = a0.emissions_destination_account;
                let model = cw.model_dest.get(&m).copied();
                if wl == Pubkey::default() || model != Some(wl) {
                    return fail("emissions:permissionless-without-destination", format!("withdraw_emissions_permissionless succeeded for {m} whose authority configured {:?} (stored {wl})", model));
                }
                if dst != ata(&wl, &cw.em.mint, &cw.em.tp) {
                    return fail("emissions:permissionless-destination", format!("withdraw_emissions_permissionless paid into {dst} which is not the ATA of the configured wallet {wl}"));
                }
                if paid > 0 {
                    st.payouts_perm += 1;
                }
            } else {
                let entitled = if frozen { signer == cw.w.roles.admin } else { signer == a0.authority };
                if !entitled {
                    return fail("emissions:payout-signer", format!("withdraw_emissions succeeded for signer {signer} (authority {}, frozen {frozen})", a0.authority));
                }
                if paid > 0 {
                    if frozen {
                        st.payouts_admin_frozen += 1;
                    } else {
                        st.payouts_auth += 1;
                    }
                }
            }
            // amount = whole part, the fraction stays
            let o1 = out1.get(&m).cloned().unwrap_or_else(q_zero);
            if o1 >= q_one() {
                return fail("emissions:payout-amount", format!("after `{name}` the position still holds {} whole emissions tokens", q_str(&o1)));
            }
            // destination receives exactly what left the vault (net of the emissions mint's transfer fee); nothing else moves
            let d0 = token_amount(pre.data(&dst));
            let d1 = token_amount(post.data(&dst));
            let want = net_of(cw.em.kind, cw.em.bps, cw.em.max, paid as u64) as i128;
            if d1 as i128 - d0 as i128 != want {
                return fail("emissions:payout-destination", format!("`{name}`: {paid} left the emissions vault but the passed destination changed by {}", d1 as i128 - d0 as i128));
            }
            let allowed = [m, ekey, cw.em.vault, dst];
            for k in changed_keys(&pre, &post) {
                if !allowed.contains(&k) {
                    return fail("emissions:payout-frame", format!("`{name}` changed account {k}"));
                }
            }
        }
        // ---- destination bookkeeping
        if let Some((m, signer, wl)) = setdest {
            let a0 = read_macct(&pre, &m).unwrap();
            if signer != a0.authority {
                return fail("emissions:destination-set-by-non-authority", format!("update_emissions_destination_account on {m} succeeded for signer {signer}"));
            }
            cw.model_dest.insert(m, wl);
        }
        for (k, a) in all_maccts(&post) {
            let want = cw.model_dest.get(&k).copied().unwrap_or_default();
            if a.emissions_destination_account != want {
                return fail(format!("emissions:destination-changed:{name}"), format!("account {k} emissions_destination_account is {} but its authority last set {}", a.emissions_destination_account, want));
            }
        }
        // ---- cumulative form: the vault covers the pool and every credited reward
        if !cw.short_funded && q_u(vault1) < t1 {
            return fail("emissions:vault-underfunded", format!("after `{name}` the emissions vault holds {} < remaining + outstanding = {}", vault1, q_str(&t1)));
        }
    }
    probe_receivership_claim(&cw, st)?;
    Ok(())
}

/// What-if probe at the end of a history ("can be paid only to the account authority's chosen destination" must also
/// hold while a third party holds the account in receivership): on a clone of the world every indebted account is made
/// liquidatable (its collateral price is crashed), another user opens a receivership bracket on it and, inside the
/// bracket, signs `withdraw_emissions` (and, in a second attempt, `withdraw_emissions_permissionless` towards its own
/// ATA) for the victim's rewards. If such a transaction commits and reward tokens left the vault for the third party's
/// account, the rewards were paid to somebody the authority never chose.
fn probe_receivership_claim(cw: &CWorld, st: &mut CStats) -> Result<(), Fail> {
    if !cw.setup_done {
        return Ok(());
    }
    let (eb, cb) = (0usize, 1usize);
    let nu = cw.w.users.len();
    if nu < 2 {
        return Ok(());
    }
    for ui in 0..nu {
        let us = cw.w.users[ui].clone();
        let m = us.accts[0];
        let Some(a) = read_macct(&cw.w.vm, &m) else { continue };
        if a.account_flags & (ACCOUNT_DISABLED | ACCOUNT_FROZEN) != 0 {
            continue;
        }
        let indebted = a.lending_account.balances.iter().any(|b| b.active != 0 && q_w(b.liability_shares) >= q_one());
        if !indebted {
            continue;
        }
        let li = (ui + 1) % nu;
        let l = cw.w.users[li].clone();
        let mut w = cw.w.clone();
        if w.set_price(cb, 1, 0, 1, 0).is_err() {
            continue;
        }
        w.refresh_oracles();
        if w.vm.get(&World::liq_record_key(&m)).is_none() && w.vm.exec(&w.ix_init_liq_record(m, l.auth)).is_err() {
            continue;
        }
        let risk = w.risk_metas(&m, None, None);
        // positive control: the empty bracket commits, i.e. the account really can be taken into receivership
        {
            let mut probe = w.vm.clone();
            if !probe.exec_tx(&[w.ix_start_liquidation(m, l.auth), w.ix_end_liquidation(m, l.auth, risk.clone())]).ok {
                continue;
            }
        }
        st.receivership_probes += 1;
        let dests = [cw.em_tokens[li], ata(&l.auth, &cw.em.mint, &cw.em.tp)];
        let attempts: Vec<(&str, Instruction, Pubkey)> = vec![
            ("withdraw_emissions signed by the liquidator", ix_withdraw_emissions(&w, eb, &cw.em, m, l.auth, dests[0]), dests[0]),
            ("withdraw_emissions_permissionless into the liquidator's ATA", ix_withdraw_emissions_permissionless(&w, eb, &cw.em, m, dests[1]), dests[1]),
        ];
        for (what, ix, dst) in attempts {
            let mut vm = w.vm.clone();
            let configured = a.emissions_destination_account;
            if dst == ata(&configured, &cw.em.mint, &cw.em.tp) {
                continue; // the authority itself chose this wallet
            }
            let d0 = token_amount(vm.data(&dst));
            let v0 = token_amount(vm.data(&cw.em.vault));
            let r = vm.exec_tx(&[w.ix_start_liquidation(m, l.auth), ix, w.ix_end_liquidation(m, l.auth, risk.clone())]);
            if r.ok {
                let d1 = token_amount(vm.data(&dst));
                let v1 = token_amount(vm.data(&cw.em.vault));
                if d1 > d0 || v1 < v0 {
                    return fail(
                        "emissions:paid-to-third-party-in-receivership",
                        format!("[start_liquidation, {what}, end_liquidation] on account {m} signed only by {} committed: the emissions vault went {v0} -> {v1}, the third party's account {dst} {d0} -> {d1}", l.auth),
                    );
                }
                st.receivership_claims_committed_empty += 1;
            }
        }
    }
    Ok(())
}

fn bank0_dummy_balance() -> Balance {
    Balance::empty_deactivated()
}

// ==========================================================================================
// driver
// ==========================================================================================
const RULE: &str = "three proptest drivers through marginfi::entry. (A) collect: fee bank on SPL / Token-2022 / transfer-fee mint with generated fee-bearing curve, origination fee and program fee, a twin bank on the same mint, a lender and a borrower draining 0..100% of the liquidity, generated waits/accruals, vault level steered to {0, fractions of, exactly +-2 around the whole parts of} the buckets, then collect_bank_fees repeatedly interleaved with deposits/withdraws/repays/borrows; exact oracle on every successful collect (bucket deltas are whole, <= floor(bucket), <= liquidity, total = min(liquidity, sum of whole parts), each destination receives its amount net of the mint's transfer fee, vault pays the sum, nothing else changes) + 35-cell destination substitution matrix on the same state (must all fail). (B) frame: the shared stateful campaign + withdraw_fees / withdraw_insurance / update_fees_destination_account / withdraw_fees_permissionless by 10 identities and 5 destinations; after every committed transaction an insurance vault decreases only in {bankruptcy on that bank, withdraw_insurance by the group admin}, a fee vault only in {withdraw_fees by the group admin, permissionless withdrawal into the admin-configured destination}; bank.fees_destination_account only changes through the admin. (C) emissions: emissions mint SPL / Token-2022 / transfer-fee, flags 0..3, rate 0..u64::MAX, funding 0..2^60, 2-5 positions (lenders and borrowers, 1..1e15) on a bank with real interest, ops: wait, deposit, withdraw(+all), borrow, repay(+all), close, accrue, settle, withdraw_emissions (5 signers x 3 destinations), permissionless (4 destinations), update destination (4 signers), update parameters, freeze; after every committed transaction: outstanding+remaining never grows by more than reached the vault, remaining >= 0, one claim per transaction equal to min(dt*amount/10^dec*rate/year, remaining) within rate*ulp*(dt(1+10^-dec)/year+1), untouched positions unchanged, payout = whole part to the passed destination by the entitled signer only / to ATA(configured wallet) only, vault >= remaining + outstanding. Non-trivial = (A) a collect with >= 1 fractional bucket and binding liquidity, (B/C) a rejected identity/destination cell whose baseline succeeds in the same state, (C) a claim capped by remaining.";

fn split(msg: &str) -> (String, String) {
    msg.split_once('|').map(|(a, b)| (a.to_string(), b.to_string())).unwrap_or((msg.to_string(), msg.to_string()))
}

fn run_part_a(ctx: &Ctx, cases: u32) -> Report {
    par_workers(ctx.threads, |wi| {
        let mut rep = Report::new(RULE);
        let strat = a_case_strategy();
        let outcome = run_prop(ctx.seed_bytes("c19a", wi as u64), cases, &strat, |c, counting| {
            let mut st = AStats::default();
            let r = run_a(c, &mut st);
            if counting {
                rep.eval();
                rep.label("A:case");
                if st.built {
                    rep.label("A:built");
                }
                rep.label_n("A:collect-ok", st.collects_ok);
                rep.label_n("A:collect-err", st.collects_err);
                rep.label_n("A:fee-wallet-rotations", st.rotations);
                rep.label_n("A:collects-after-unpropagated-rotation", st.collects_after_unpropagated_rotation);
                rep.label_n("A:collect-binding", st.binding);
                rep.label_n("A:collect-binding-fractional", st.binding_fractional);
                rep.label_n("A:collect-nothing-moved", st.all_zero);
                rep.label_n("A:collect-all-three-moved", st.moved_all3);
                rep.label_n(&format!("A:collect-ok:token{}", c.spec.banks[0].token), st.collects_ok);
                rep.add_extra("A_substitution_cells_rejected", st.subst_cells);
                for w in &st.witnesses {
                    rep.nontrivial_case(&json!({"A": w}));
                    if rep.samples.len() < 2 {
                        rep.sample(json!({"part": "A", "witness": w}));
                    }
                }
            }
            r.map_err(|(s, m)| format!("{s}|{m}"))
        });
        if let Some((c, msg)) = outcome.failure {
            let (sig, m) = split(&msg);
            rep.violation(&sig, m, json!({"part": "A", "case": c}));
        }
        rep
    })
}

fn run_part_b(ctx: &Ctx, cases: u32) -> Report {
    let cfg = GenCfg { max_ops: ctx.tier.pick(40, 80), max_banks: 3, ..GenCfg::default() };
    par_workers(ctx.threads, |wi| {
        let mut rep = Report::new(RULE);
        let strat = b_case_strategy(&cfg);
        let outcome = run_prop(ctx.seed_bytes("c19b", wi as u64), cases, &strat, |(spec, ops), counting| {
            let mut st = BStats::default();
            let r = run_b(spec, ops, &mut st);
            if counting {
                rep.eval();
                rep.label("B:case");
                rep.label_n("B:insurance-draw", st.ins_draws);
                rep.label_n("B:insurance-draw-bankruptcy", st.bankruptcy_draw);
                rep.label_n("B:fee-draw-admin", st.fee_draws_admin);
                rep.label_n("B:fee-draw-permissionless", st.fee_draws_permissionless);
                rep.label_n("B:destination-set", st.dest_set);
                for (k, w) in &st.fee_ok {
                    rep.label(&format!("B:ok:kind{k}:{}", B_IDENTITIES[*w as usize]));
                }
                for (k, w, d) in &st.rejected_cells {
                    rep.label(&format!("B:rejected:kind{k}:{}", B_IDENTITIES[*w as usize]));
                    rep.nontrivial_case(&json!({"B": [k, w, d], "banks": spec.banks.len(), "tok": spec.banks.iter().map(|b| b.token).collect::<Vec<_>>()}));
                }
            }
            r.map_err(|(s, m)| format!("{s}|{m}"))
        });
        if let Some(((spec, ops), msg)) = outcome.failure {
            let (sig, m) = split(&msg);
            rep.violation(&sig, m, json!({"part": "B", "spec": spec, "ops": ops}));
        }
        rep
    })
}

fn run_part_c(ctx: &Ctx, cases: u32) -> Report {
    par_workers(ctx.threads, |wi| {
        let mut rep = Report::new(RULE);
        let strat = c_case_strategy();
        let outcome = run_prop(ctx.seed_bytes("c19c", wi as u64), cases, &strat, |c, counting| {
            let mut st = CStats::default();
            let r = run_c(c, &mut st);
            if counting {
                rep.eval();
                rep.label("C:case");
                if st.setup_ok {
                    rep.label(&format!("C:setup-ok:mint{}", c.em_kind));
                }
                rep.label_n("C:claim-positive", st.claims_positive);
                rep.label_n("C:claim-capped", st.claims_capped);
                rep.label_n("C:claim-positive-uncapped", st.claims_uncapped);
                rep.label_n("C:claim-zero-side-inactive", st.claims_zero_inactive);
                rep.label_n("C:payout-authority", st.payouts_auth);
                rep.label_n("C:payout-permissionless", st.payouts_perm);
                rep.label_n("C:payout-admin-on-frozen", st.payouts_admin_frozen);
                rep.label_n("C:receivership-claim-probes", st.receivership_probes);
                rep.label_n("C:receivership-claim-committed-without-payout", st.receivership_claims_committed_empty);
                rep.label_n("C:funding-steps", st.funding_ok);
                rep.set_max("C_max_relative_claim_error", st.max_rel_err);
                for o in &st.ok_ops {
                    rep.label(&format!("C:ok:{o}"));
                }
                for o in &st.fail_ops {
                    rep.label(&format!("C:fail:{o}"));
                }
                for (n, w, d) in &st.rejected_cells {
                    rep.label(&format!("C:rejected:{n}:{w}:{d}"));
                    rep.nontrivial_case(&json!({"C": [n, w, d], "emk": c.em_kind, "n": c.positions.len()}));
                }
                for w in &st.witnesses {
                    rep.nontrivial_case(&json!({"C": w}));
                    if rep.samples.len() < 4 {
                        rep.sample(json!({"part": "C", "capped_claim": w}));
                    }
                }
            }
            r.map_err(|(s, m)| format!("{s}|{m}"))
        });
        if let Some((c, msg)) = outcome.failure {
            let (sig, m) = split(&msg);
            rep.violation(&sig, m, json!({"part": "C", "case": c}));
        }
        rep
    })
}

pub fn run(ctx: &Ctx) -> Report {
    let mut rep = run_part_a(ctx, ctx.tier.pick(2600, 20_000));
    let b = run_part_b(ctx, ctx.tier.pick(1100, 9_000));
    let c = run_part_c(ctx, ctx.tier.pick(2600, 20_000));
    // per-part floors (a part that produced no evidence makes the run inconclusive)
    let count = |r: &Report, l: &str| r.labels.get(l).copied().unwrap_or(0);
    let mut problems = vec![];
    if count(&rep, "A:collect-binding-fractional") < ctx.tier.pick(50, 500) {
        problems.push("part A produced too few binding+fractional collects");
    }
    if b.labels.iter().filter(|(k, _)| k.starts_with("B:rejected:")).map(|(_, v)| *v).sum::<u64>() < ctx.tier.pick(50, 500) {
        problems.push("part B produced too few rejected cells with a succeeding baseline");
    }
    if count(&c, "C:claim-capped") < ctx.tier.pick(50, 500) {
        problems.push("part C produced too few capped claims");
    }
    rep.merge(b);
    rep.merge(c);
    if rep.violations.is_empty() {
        for p in problems {
            rep.engine_errors.push(format!("inconclusive: {p}"));
        }
    }
    rep.nontrivial_floor = ctx.tier.pick(150, 1500);
    rep
}

pub fn replay(_ctx: &Ctx, case: &Value) -> Report {
    let mut rep = Report::new(RULE);
    rep.nontrivial_floor = 0;
    rep.eval();
    let r: Result<(), Fail> = match case["part"].as_str() {
        Some("A") => match serde_json::from_value::<ACase>(case["case"].clone()) {
            Ok(c) => run_a(&c, &mut AStats::default()),
            Err(e) => {
                rep.engine_errors.push(format!("bad replay: {e}"));
                return rep;
            }
        },
        Some("B") => {
            let spec = serde_json::from_value::<WorldSpec>(case["spec"].clone());
            let ops = serde_json::from_value::<Vec<BOp>>(case["ops"].clone());
            match (spec, ops) {
                (Ok(s), Ok(o)) => run_b(&s, &o, &mut BStats::default()),
                (a, b) => {
                    rep.engine_errors.push(format!("bad replay: {:?} {:?}", a.err(), b.err()));
                    return rep;
                }
            }
        }
        Some("C") => match serde_json::from_value::<CCase>(case["case"].clone()) {
            Ok(c) => run_c(&c, &mut CStats::default()),
            Err(e) => {
                rep.engine_errors.push(format!("bad replay: {e}"));
                return rep;
            }
        },
        _ => {
            rep.engine_errors.push("bad replay: no part".into());
            return rep;
        }
    };
    if let Err((sig, msg)) = r {
        rep.violation(&sig, msg, case.clone());
    }
    rep
}
