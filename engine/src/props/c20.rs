//! C20 — Integration (Kamino / Solend / Drift) exchange-rate math never overstates value and
//! fails closed.
//!
//! Pure-function property test: the public conversion / price-adjustment / staleness functions of
//! `marginfi_type_crate::types::price`, `kamino_mocks::state`, `solend_mocks::state` and
//! `drift_mocks::state` are called directly on fabricated (zeroed + the fields they read) venue
//! accounts, and every returned value is compared with exact big-rational arithmetic written
//! from the property statement.
//!
//! Tolerances (derived from the operation sequences, see the individual checks):
//!  * type-crate functions taking already scaled `I80F48` supplies / ratios: an integer times an
//!    `I80F48` is exactly representable, `checked_div` truncates once and `checked_to_num` floors,
//!    and floor(trunc48(x)) == floor(x) for x >= 0 — so the legal result is exactly floor(exact),
//!    i.e. the band (exact-1, exact].
//!  * reserve-level functions (`MinimalReserve` / `SolendMinimalReserve`): on top of that the
//!    code truncates every U68F60 / WAD field to 2^-48 (`u68f60_to_i80f48`, `decimal_to_i80f48`)
//!    and divides both supplies by 10^decimals with truncation (`scale_supplies`). These are
//!    propagated with interval arithmetic (each truncation widens the interval by one ulp on the
//!    appropriate side), the ratio `total_liq/total_col` loses one more ulp downwards, and the
//!    final floor loses < 1 unit.
//!  * Drift: pure integer floor division; legal result == floor(exact) (+1 on the decrement).
use crate::common::{fnv, idx, par_workers, run_prop, Ctx, Report};
use crate::num::*;
use anchor_lang::prelude::{AccountInfo, Clock, Pubkey};
use bytemuck::Zeroable;
use drift_mocks::state::MinimalSpotMarket;
use fixed::types::I80F48;
use kamino_mocks::state::MinimalReserve;
use marginfi_type_crate::types::price as tp;
use num_bigint::BigInt;
use num_traits::{One, Signed, ToPrimitive, Zero};
use proptest::prelude::*;
use serde_json::{json, Value};
use solend_mocks::state::{
    decimal_to_i80f48, validate_solend_reserve, CollateralExchangeRate, SolendMinimalReserve,
};
use std::cell::Cell;
use std::panic::{catch_unwind, AssertUnwindSafe};
use std::sync::Once;

const RULE: &str = "construction-based proptest over 11 families (type-crate adjust_*/from_scaled/ratio/scale_supplies/convert_decimals on raw I80F48 bit patterns; Kamino and Solend reserve states built from a collateral supply in {0,1,2,small,1e6..1e18,u64::MAX-k}, an exchange-rate mode (1, 1+eps, [1,1.5], 2, 1/2, independent, 0, integer multiples, huge) split into available/borrowed(sf or wads, random sub-ulp bits)/fees, decimals 0..=19,23,24+; Solend CollateralExchangeRate and WAD decoding; Drift markets with cumulative interest in [1e10,1e20] plus {0,1,1e10-1,2^64,2^127,u128::MAX}; staleness at ts-2..ts+2 around 0, 2^63 and u64::MAX), amounts/prices in {0,1,2,rate multiples +-1, type MAX-k, random} or solved so that the exact product lies within +-2 of 2^63 / 2^64 / 2^79 / 2^127 / 2^128. NON-TRIVIAL = the exact result (or an intermediate product) lies within a factor 2 of one of those overflow cliffs, OR the exchange rate is not an integer (rate numerator not divisible by its denominator); staleness cases are never counted as non-trivial.";

// ------------------------------------------------------------------------------------------
// small exact helpers
// ------------------------------------------------------------------------------------------
fn bi<T: Into<BigInt>>(x: T) -> BigInt {
    x.into()
}
fn qn<T: Into<BigInt>>(x: T) -> Q {
    Q::from_integer(x.into())
}
fn pow2(n: u32) -> BigInt {
    BigInt::one() << (n as usize)
}
fn ten(n: u32) -> BigInt {
    BigInt::from(10u8).pow(n)
}
fn u128_of(hi: u64, lo: u64) -> u128 {
    ((hi as u128) << 64) | lo as u128
}
fn clamp_big(x: &BigInt, lo: &BigInt, hi: &BigInt) -> BigInt {
    if x < lo {
        lo.clone()
    } else if x > hi {
        hi.clone()
    } else {
        x.clone()
    }
}
fn to_u64_clamped(x: &BigInt) -> u64 {
    clamp_big(x, &BigInt::zero(), &bi(u64::MAX)).to_u64().unwrap()
}
fn to_u128_clamped(x: &BigInt) -> u128 {
    clamp_big(x, &BigInt::zero(), &bi(u128::MAX)).to_u128().unwrap()
}
fn to_i128_clamped(x: &BigInt) -> i128 {
    clamp_big(x, &bi(i128::MIN), &bi(i128::MAX)).to_i128().unwrap()
}
fn delta5(r: u64) -> i128 {
    (r % 5) as i128 - 2
}
fn q_is_int(x: &Q) -> bool {
    x.is_integer()
}
/// |x| within [t/2, 2t]
fn near_cliff(x: &Q, t: &BigInt) -> bool {
    let a = x.abs();
    a >= Q::new(t.clone(), bi(2)) && a <= qn(t.clone() * 2)
}

pub struct Viol {
    pub sig: String,
    pub msg: String,
}
macro_rules! viol {
    ($sig:expr, $($a:tt)*) => {
        return Err(Viol { sig: $sig, msg: format!($($a)*) })
    };
}

#[derive(Default)]
struct Obs {
    nontrivial: bool,
    labels: Vec<&'static str>,
}
impl Obs {
    fn l(&mut self, s: &'static str) {
        self.labels.push(s);
    }
}

/// `v` must lie in (lo_excl, hi_incl]. If no representable value can satisfy that (the whole band
/// is outside [tmin,tmax]) the function had to return None/Err: fail-closed violation.
fn band(
    name: &str,
    v: &BigInt,
    lo_excl: &Q,
    hi_incl: &Q,
    tmin: &BigInt,
    tmax: &BigInt,
    hi_sig: &str,
    ctx: &dyn Fn() -> String,
) -> Result<(), Viol> {
    let vq = qn(v.clone());
    if *lo_excl >= qn(tmax.clone()) || *hi_incl < qn(tmin.clone()) {
        viol!(
            format!("fail-closed:{name}"),
            "{name} returned {v} although the exact result band ({}, {}] lies outside the return type; {}",
            q_str(lo_excl),
            q_str(hi_incl),
            ctx()
        );
    }
    if vq > *hi_incl {
        viol!(
            format!("{hi_sig}:{name}"),
            "{name} returned {v} > upper bound {} (excess {}); {}",
            q_str(hi_incl),
            q_str(&(&vq - hi_incl)),
            ctx()
        );
    }
    if vq <= *lo_excl {
        viol!(
            format!("imprecise:{name}"),
            "{name} returned {v} <= lower bound {} (short by {}); {}",
            q_str(lo_excl),
            q_str(&(lo_excl - &vq)),
            ctx()
        );
    }
    Ok(())
}

fn guard<T>(f: impl FnOnce() -> Option<T>) -> Option<T> {
    // a panic inside the code under test aborts the transaction: it is a (crude) fail-closed
    catch_unwind(AssertUnwindSafe(f)).unwrap_or(None)
}

// ------------------------------------------------------------------------------------------
// price kinds
// ------------------------------------------------------------------------------------------
const KIND_NAMES: [&str; 3] = ["i64", "u64", "i128"];
fn kind_range(kind: u8) -> (BigInt, BigInt) {
    match kind {
        0 => (bi(i64::MIN), bi(i64::MAX)),
        1 => (bi(0), bi(u64::MAX)),
        _ => (bi(i128::MIN), bi(i128::MAX)),
    }
}
fn clamp_kind(kind: u8, x: &BigInt) -> i128 {
    let (lo, hi) = kind_range(kind);
    clamp_big(x, &lo, &hi).to_i128().unwrap()
}
fn p_add(kind: u8, p: i128, dp: u128) -> i128 {
    clamp_kind(kind, &(bi(p) + bi(dp)))
}
fn call_adjust(kind: u8, p: i128, r: I80F48) -> Option<i128> {
    match kind {
        0 => tp::adjust_i64(p as i64, r).map(|x| x as i128),
        1 => tp::adjust_u64(p as u64, r).map(|x| x as i128),
        _ => tp::adjust_i128(p, r),
    }
}
fn call_drift_adjust(m: &MinimalSpotMarket, kind: u8, p: i128) -> Option<i128> {
    match kind {
        0 => m.adjust_i64(p as i64).ok().map(|x| x as i128),
        1 => m.adjust_u64(p as u64).ok().map(|x| x as i128),
        _ => m.adjust_i128(p).ok(),
    }
}

// ------------------------------------------------------------------------------------------
// cases
// ------------------------------------------------------------------------------------------
#[derive(Clone, Debug, PartialEq)]
pub enum Case {
    /// adjust_{i64,u64,i128}(p, r) with r given as I80F48 bits; p2 = p+dp, r2 = r+dr
    Adjust { kind: u8, p: i128, dp: u128, r: i128, dr: u128 },
    /// *_from_scaled and the two ratio functions on raw I80F48 bit patterns
    Scaled { amt: u64, liq: i128, col: i128 },
    ScaleSup { liq: i128, col: u64, dec: u8 },
    ConvDec { n: i128, from: u8, to: u8 },
    /// venue 0 = Kamino (b,f are U68F60 bits), 1 = Solend (b,f[0] are WADs)
    Reserve {
        venue: u8,
        strict: bool,
        avail: u64,
        b: u128,
        f: [u128; 3],
        col: u64,
        dec: u64,
        amt: u64,
        kind: u8,
        p: i128,
        dp: u128,
        davail: u64,
        dcol: u64,
    },
    SolendRate { avail: u64, b: u128, f: u128, col: u64, amt: u64 },
    SolendDecimal { raw: u128 },
    Drift { ci: u128, dec: u32, amt: u64, scaled: u64, kind: u8, p: i128, dp: u128, dci: u128 },
    /// venue 0 kamino, 1 solend is_stale, 2 drift, 3 solend validate_solend_reserve
    Stale { venue: u8, ts: u64, now: i128 },
}

fn gs<T: std::str::FromStr>(v: &Value, k: &str) -> Option<T> {
    match v.get(k)? {
        Value::String(s) => s.parse().ok(),
        Value::Number(n) => n.to_string().parse().ok(),
        Value::Bool(b) => (if *b { "1" } else { "0" }).parse().ok(),
        _ => None,
    }
}

impl Case {
    pub fn to_json(&self) -> Value {
        match self {
            Case::Adjust { kind, p, dp, r, dr } => json!({"fam":"adjust","kind":kind.to_string(),"p":p.to_string(),"dp":dp.to_string(),"r_bits":r.to_string(),"dr_bits":dr.to_string()}),
            Case::Scaled { amt, liq, col } => json!({"fam":"scaled","amt":amt.to_string(),"liq_bits":liq.to_string(),"col_bits":col.to_string()}),
            Case::ScaleSup { liq, col, dec } => json!({"fam":"scalesup","liq_bits":liq.to_string(),"col":col.to_string(),"dec":dec.to_string()}),
            Case::ConvDec { n, from, to } => json!({"fam":"convdec","n_bits":n.to_string(),"from":from.to_string(),"to":to.to_string()}),
            Case::Reserve { venue, strict, avail, b, f, col, dec, amt, kind, p, dp, davail, dcol } => json!({
                "fam":"reserve","venue":venue.to_string(),"strict": if *strict {"1"} else {"0"},
                "avail":avail.to_string(),"b":b.to_string(),"f0":f[0].to_string(),"f1":f[1].to_string(),"f2":f[2].to_string(),
                "col":col.to_string(),"dec":dec.to_string(),"amt":amt.to_string(),"kind":kind.to_string(),"p":p.to_string(),
                "dp":dp.to_string(),"davail":davail.to_string(),"dcol":dcol.to_string()}),
            Case::SolendRate { avail, b, f, col, amt } => json!({"fam":"solendrate","avail":avail.to_string(),"b":b.to_string(),"f":f.to_string(),"col":col.to_string(),"amt":amt.to_string()}),
            Case::SolendDecimal { raw } => json!({"fam":"solenddecimal","raw":raw.to_string()}),
            Case::Drift { ci, dec, amt, scaled, kind, p, dp, dci } => json!({"fam":"drift","ci":ci.to_string(),"dec":dec.to_string(),"amt":amt.to_string(),"scaled":scaled.to_string(),"kind":kind.to_string(),"p":p.to_string(),"dp":dp.to_string(),"dci":dci.to_string()}),
            Case::Stale { venue, ts, now } => json!({"fam":"stale","venue":venue.to_string(),"ts":ts.to_string(),"now":now.to_string()}),
        }
    }
    pub fn from_json(v: &Value) -> Option<Case> {
        let fam = v.get("fam")?.as_str()?;
        Some(match fam {
            "adjust" => Case::Adjust { kind: gs(v, "kind")?, p: gs(v, "p")?, dp: gs(v, "dp")?, r: gs(v, "r_bits")?, dr: gs(v, "dr_bits")? },
            "scaled" => Case::Scaled { amt: gs(v, "amt")?, liq: gs(v, "liq_bits")?, col: gs(v, "col_bits")? },
            "scalesup" => Case::ScaleSup { liq: gs(v, "liq_bits")?, col: gs(v, "col")?, dec: gs(v, "dec")? },
            "convdec" => Case::ConvDec { n: gs(v, "n_bits")?, from: gs(v, "from")?, to: gs(v, "to")? },
            "reserve" => Case::Reserve {
                venue: gs(v, "venue")?,
                strict: gs::<u8>(v, "strict")? != 0,
                avail: gs(v, "avail")?,
                b: gs(v, "b")?,
                f: [gs(v, "f0")?, gs(v, "f1")?, gs(v, "f2")?],
                col: gs(v, "col")?,
                dec: gs(v, "dec")?,
                amt: gs(v, "amt")?,
                kind: gs(v, "kind")?,
                p: gs(v, "p")?,
                dp: gs(v, "dp")?,
                davail: gs(v, "davail")?,
                dcol: gs(v, "dcol")?,
            },
            "solendrate" => Case::SolendRate { avail: gs(v, "avail")?, b: gs(v, "b")?, f: gs(v, "f")?, col: gs(v, "col")?, amt: gs(v, "amt")? },
            "solenddecimal" => Case::SolendDecimal { raw: gs(v, "raw")? },
            "drift" => Case::Drift { ci: gs(v, "ci")?, dec: gs(v, "dec")?, amt: gs(v, "amt")?, scaled: gs(v, "scaled")?, kind: gs(v, "kind")?, p: gs(v, "p")?, dp: gs(v, "dp")?, dci: gs(v, "dci")? },
            "stale" => Case::Stale { venue: gs(v, "venue")?, ts: gs(v, "ts")?, now: gs(v, "now")? },
            _ => return None,
        })
    }
    fn hash(&self) -> u64 {
        fnv(format!("{:?}", self).as_bytes())
    }
}

// ------------------------------------------------------------------------------------------
// checks: type-crate pure functions
// ------------------------------------------------------------------------------------------
const FRAC_MASK: i128 = (1i128 << 48) - 1;

fn check_adjust(kind: u8, p: i128, dp: u128, r: i128, dr: u128, obs: &mut Obs) -> Result<(), Viol> {
    let name = format!("adjust_{}", KIND_NAMES[kind as usize]);
    let (tmin, tmax) = kind_range(kind);
    let rf = I80F48::from_bits(r);
    // exact: p * r
    let e = Q::new(bi(p) * bi(r), two48());
    let got = call_adjust(kind, p, rf);
    let cliff_t = if kind == 2 { pow2(79) } else { tmax.clone() + 1 };
    let cliff = near_cliff(&e, &cliff_t) || near_cliff(&e, &pow2(79)) || (kind == 2 && near_cliff(&qn(p), &pow2(79)));
    if cliff {
        obs.l("adjust:cliff");
    }
    if cliff || (r & FRAC_MASK) != 0 {
        obs.nontrivial = true;
    }
    obs.l(if got.is_some() { "adjust:some" } else { "adjust:none" });
    let ctx = || format!("p={p} r_bits={r} exact={}", q_str(&e));
    if let Some(v) = got {
        if p >= 0 && r >= 0 {
            // integer * I80F48 is exact; checked_to_num floors: legal value is floor(exact)
            band(&name, &bi(v), &(&e - q_one()), &e, &tmin, &tmax, "exceeds-exact", &ctx)?;
        } else {
            // conservative reading for negative inputs: only "no wrapped value"
            let slack = q_one() + ulp();
            band(&name, &bi(v), &(&e - &slack), &(&e + &slack), &tmin, &tmax, "no-wrap", &ctx)?;
        }
    }
    // monotone in the price (rate >= 0)
    if r >= 0 {
        let p2 = p_add(kind, p, dp);
        if let (Some(a), Some(b)) = (got, call_adjust(kind, p2, rf)) {
            if a > b {
                viol!(format!("monotone-price:{name}"), "{name}({p})={a} > {name}({p2})={b} at r_bits={r}");
            }
        }
    }
    // monotone in the rate (price >= 0)
    if p >= 0 {
        let r2 = to_i128_clamped(&(bi(r) + bi(dr)));
        if let (Some(a), Some(b)) = (got, call_adjust(kind, p, I80F48::from_bits(r2))) {
            if a > b {
                viol!(format!("monotone-rate:{name}"), "{name}(p={p}, r_bits={r})={a} > {name}(p, r_bits={r2})={b}");
            }
        }
    }
    Ok(())
}

fn check_scaled(amt: u64, liq: i128, col: i128, obs: &mut Obs) -> Result<(), Viol> {
    let lf = I80F48::from_bits(liq);
    let cf = I80F48::from_bits(col);
    let (zero, umax) = (bi(0), bi(u64::MAX));
    let nonneg = liq >= 0 && col >= 0;
    let slack = q_one() + ulp();
    let c2l = tp::collateral_to_liquidity_from_scaled(amt, lf, cf);
    let l2c = tp::liquidity_to_collateral_from_scaled(amt, lf, cf);
    let r_lc = tp::liq_to_col_ratio(lf, cf);
    let r_cl = tp::col_to_liq_ratio(lf, cf);
    obs.l(if c2l.is_some() { "scaled:c2l-some" } else { "scaled:c2l-none" });
    obs.l(if l2c.is_some() { "scaled:l2c-some" } else { "scaled:l2c-none" });
    // (function, numerator supply, denominator supply, result)
    for (name, num, den, got) in [("c2l_from_scaled", liq, col, c2l), ("l2c_from_scaled", col, liq, l2c)] {
        if den == 0 {
            if got.is_some() {
                viol!(format!("div-zero:{name}"), "{name}({amt}) returned {:?} with a zero divisor (liq_bits={liq}, col_bits={col})", got);
            }
            continue;
        }
        // exact: amt * num / den (the 2^48 scales cancel)
        let e = Q::new(bi(amt) * bi(num), bi(den));
        if near_cliff(&e, &pow2(64)) || near_cliff(&Q::new(bi(amt) * bi(num), two48()), &pow2(79)) {
            obs.nontrivial = true;
            obs.l("scaled:cliff");
        }
        if !q_is_int(&Q::new(bi(num), bi(den))) {
            obs.nontrivial = true;
        }
        let ctx = || format!("amt={amt} liq_bits={liq} col_bits={col} exact={}", q_str(&e));
        if let Some(v) = got {
            if nonneg {
                // amt*num exact, one truncating division, floor: legal == floor(exact)
                band(name, &bi(v), &(&e - q_one()), &e, &zero, &umax, "exceeds-exact", &ctx)?;
            } else {
                band(name, &bi(v), &(&e - &slack), &(&e + &slack), &zero, &umax, "no-wrap", &ctx)?;
            }
        }
    }
    // ratios: trunc48(num/den)
    for (name, num, den, got) in [("liq_to_col_ratio", liq, col, r_lc), ("col_to_liq_ratio", col, liq, r_cl)] {
        if den == 0 {
            if got.is_some() {
                viol!(format!("div-zero:{name}"), "{name} returned {:?} with zero divisor", got);
            }
            continue;
        }
        // in units of one ulp: exact = num * 2^48 / den
        let e = Q::new(bi(num) * two48(), bi(den));
        if near_cliff(&e, &pow2(127)) {
            obs.nontrivial = true;
            obs.l("scaled:ratio-cliff");
        }
        let (bmin, bmax) = (bi(i128::MIN), bi(i128::MAX));
        let ctx = || format!("liq_bits={liq} col_bits={col} exact_bits={}", q_str(&e));
        if let Some(v) = got {
            let vb = bi(v.to_bits());
            if nonneg {
                band(name, &vb, &(&e - q_one()), &e, &bmin, &bmax, "exceeds-exact", &ctx)?;
            } else {
                band(name, &vb, &(&e - q_one()), &(&e + q_one()), &bmin, &bmax, "no-wrap", &ctx)?;
            }
        }
    }
    // round trips on the same supplies never gain
    if nonneg {
        if let Some(x) = c2l {
            if let Some(y) = tp::liquidity_to_collateral_from_scaled(x, lf, cf) {
                obs.l("scaled:roundtrip");
                if y > amt {
                    viol!("roundtrip:scaled_col_liq_col".to_string(), "col {amt} -> liq {x} -> col {y} > {amt} (liq_bits={liq}, col_bits={col})");
                }
            }
        }
        if let Some(x) = l2c {
            if let Some(y) = tp::collateral_to_liquidity_from_scaled(x, lf, cf) {
                obs.l("scaled:roundtrip");
                if y > amt {
                    viol!("roundtrip:scaled_liq_col_liq".to_string(), "liq {amt} -> col {x} -> liq {y} > {amt} (liq_bits={liq}, col_bits={col})");
                }
            }
        }
    }
    Ok(())
}

fn check_scalesup(liq: i128, col: u64, dec: u8, obs: &mut Obs) -> Result<(), Viol> {
    let got = tp::scale_supplies(I80F48::from_bits(liq), col, dec);
    if dec as usize >= 24 {
        // 10^dec is not in the table: the function refuses (fail closed); nothing else is stated
        obs.l("scalesup:unsupported-decimals");
        return Ok(());
    }
    let Some((ls, cs)) = got else {
        obs.l("scalesup:none");
        return Ok(());
    };
    let d = ten(dec as u32);
    let el = Q::new(bi(liq), d.clone()); // in ulps
    let ec = Q::new(bi(col) * two48(), d);
    if !q_is_int(&el) || !q_is_int(&ec) {
        obs.nontrivial = true;
    }
    let (bmin, bmax) = (bi(i128::MIN), bi(i128::MAX));
    let ctx = || format!("liq_bits={liq} col={col} dec={dec}");
    if liq >= 0 {
        band("scale_supplies.liq", &bi(ls.to_bits()), &(&el - q_one()), &el, &bmin, &bmax, "exceeds-exact", &ctx)?;
    } else {
        band("scale_supplies.liq", &bi(ls.to_bits()), &(&el - q_one()), &(&el + q_one()), &bmin, &bmax, "no-wrap", &ctx)?;
    }
    band("scale_supplies.col", &bi(cs.to_bits()), &(&ec - q_one()), &ec, &bmin, &bmax, "exceeds-exact", &ctx)?;
    Ok(())
}

fn check_convdec(n: i128, from: u8, to: u8, obs: &mut Obs) -> Result<(), Viol> {
    let nf = I80F48::from_bits(n);
    let got_t = tp::convert_decimals(nf, from, to);
    let got_k = kamino_mocks::state::convert_decimals(nf, from, to).ok();
    let got_s = solend_mocks::state::convert_decimals(nf, from, to).ok();
    let diff = to as i32 - from as i32;
    // exact, in ulps
    let e = if diff >= 0 { qn(bi(n) * ten(diff as u32)) } else { Q::new(bi(n), ten((-diff) as u32)) };
    if near_cliff(&e, &pow2(127)) {
        obs.nontrivial = true;
        obs.l("convdec:cliff");
    }
    if !q_is_int(&e) {
        obs.nontrivial = true;
    }
    let (bmin, bmax) = (bi(i128::MIN), bi(i128::MAX));
    let ctx = || format!("n_bits={n} from={from} to={to} exact_bits={}", q_str(&e));
    for (name, got) in [("convert_decimals", got_t), ("kamino.convert_decimals", got_k), ("solend.convert_decimals", got_s)] {
        obs.l(if got.is_some() { "convdec:some" } else { "convdec:none" });
        if let Some(v) = got {
            let vb = bi(v.to_bits());
            if n >= 0 {
                band(name, &vb, &(&e - q_one()), &e, &bmin, &bmax, "exceeds-exact", &ctx)?;
            } else {
                band(name, &vb, &(&e - q_one()), &(&e + q_one()), &bmin, &bmax, "no-wrap", &ctx)?;
            }
        }
    }
    Ok(())
}

// ------------------------------------------------------------------------------------------
// checks: Kamino / Solend reserve level
// ------------------------------------------------------------------------------------------
enum Rsv {
    K(Box<MinimalReserve>),
    S(Box<SolendMinimalReserve>),
}
impl Rsv {
    fn build(venue: u8, avail: u64, b: u128, f: &[u128; 3], col: u64, dec: u64) -> Rsv {
        if venue == 0 {
            let mut r: Box<MinimalReserve> = Box::new(MinimalReserve::zeroed());
            r.available_amount = avail;
            r.borrowed_amount_sf = b.to_le_bytes();
            r.accumulated_protocol_fees_sf = f[0].to_le_bytes();
            r.accumulated_referrer_fees_sf = f[1].to_le_bytes();
            r.pending_referrer_fees_sf = f[2].to_le_bytes();
            r.mint_total_supply = col;
            r.mint_decimals = dec;
            Rsv::K(r)
        } else {
            let mut r: Box<SolendMinimalReserve> = Box::new(SolendMinimalReserve::zeroed());
            r.liquidity_available_amount = avail;
            r.liquidity_borrowed_amount_wads = b.to_le_bytes();
            r.liquidity_accumulated_protocol_fees_wads = f[0].to_le_bytes();
            r.collateral_mint_total_supply = col;
            r.liquidity_mint_decimals = dec as u8;
            Rsv::S(r)
        }
    }
    fn scaled(&self) -> Option<(I80F48, I80F48)> {
        guard(|| match self {
            Rsv::K(r) => r.scaled_supplies().ok(),
            Rsv::S(r) => r.scaled_supplies().ok(),
        })
    }
    fn c2l(&self, a: u64) -> Option<u64> {
        guard(|| match self {
            Rsv::K(r) => r.collateral_to_liquidity(a).ok(),
            Rsv::S(r) => r.collateral_to_liquidity(a).ok(),
        })
    }
    fn l2c(&self, a: u64) -> Option<u64> {
        guard(|| match self {
            Rsv::K(r) => r.liquidity_to_collateral(a).ok(),
            Rsv::S(r) => r.liquidity_to_collateral(a).ok(),
        })
    }
    /// The price path of `OraclePriceFeedAdapter::try_from_bank_with_max_age`:
    /// `(total_liq, total_col) = scaled_supplies()?; if total_col > 0 { ratio = total_liq / total_col;
    /// adjust_*(price, ratio) }`. The in-line `/` equals `liq_to_col_ratio` whenever the quotient fits
    /// I80F48, which it always does for reserve-derived supplies (total_liq < 2^69/10^d and
    /// total_col >= 2^-48 only when 10^d > 2^47, so the quotient is < 2^79).
    /// Returns None when the path is not taken (scaling failed, total_col == 0 or no ratio).
    fn price(&self, kind: u8, p: i128) -> Option<Option<i128>> {
        let (ls, cs) = self.scaled()?;
        if cs <= I80F48::ZERO {
            return None;
        }
        let ratio = tp::liq_to_col_ratio(ls, cs)?;
        Some(call_adjust(kind, p, ratio))
    }
}

/// Exact total liquidity of the venue reserve and the interval the code's I80F48 value must lie in.
fn reserve_liquidity(venue: u8, avail: u64, b: u128, f: &[u128; 3]) -> (Q, Iv) {
    if venue == 0 {
        // U68F60 fields; u68f60_to_i80f48 drops the low 12 bits of each (floor, < 1 ulp each)
        let l = qn(avail) + Q::new(bi(b) - bi(f[0]) - bi(f[1]) - bi(f[2]), pow2(60));
        let lo = if b & 0xFFF != 0 { &l - ulp() } else { l.clone() };
        let mut hi = l.clone();
        for x in f {
            if x & 0xFFF != 0 {
                hi += ulp();
            }
        }
        (l, Iv { lo, hi })
    } else {
        // WAD fields; decimal_to_i80f48 floors the fractional part to 2^-48
        const WAD: u128 = 1_000_000_000_000_000_000;
        let l = qn(avail) + Q::new(bi(b) - bi(f[0]), bi(WAD));
        let lo = if b % WAD != 0 { &l - ulp() } else { l.clone() };
        let hi = if f[0] % WAD != 0 { &l + ulp() } else { l.clone() };
        (l, Iv { lo, hi })
    }
}

#[allow(clippy::too_many_arguments)]
fn check_reserve(
    venue: u8,
    strict: bool,
    avail: u64,
    b: u128,
    f: &[u128; 3],
    col: u64,
    dec: u64,
    amt: u64,
    kind: u8,
    p: i128,
    dp: u128,
    davail: u64,
    dcol: u64,
    obs: &mut Obs,
) -> Result<(), Viol> {
    let vn = if venue == 0 { "kamino" } else { "solend" };
    let rsv = Rsv::build(venue, avail, b, f, col, dec);
    // Kamino stores mint_decimals as u64 and the code reads `as u8`; SPL decimals are a u8, so the
    // generator never exceeds 255 and the cast is the identity.
    let d = (dec as u8) as u32;
    let c2l = rsv.c2l(amt);
    let l2c = rsv.l2c(amt);
    if d >= 24 {
        obs.l("reserve:unsupported-decimals");
        return Ok(());
    }
    let (l_true, lr) = reserve_liquidity(venue, avail, b, f);
    let tend = qn(ten(d));
    let u = ulp();
    let (zero, umax) = (bi(0), bi(u64::MAX));
    let state = || format!("{vn} avail={avail} b={b} f={f:?} col={col} dec={dec} amt={amt}");

    // ---- strict stream: adjusted price never exceeds price * exact (unrounded) exchange rate ----
    if strict {
        if col == 0 || l_true.is_negative() || p < 0 {
            obs.l("strict:skipped");
            return Ok(());
        }
        let rate = &l_true / qn(col);
        if !q_is_int(&rate) {
            obs.nontrivial = true;
        }
        match rsv.price(kind, p) {
            Some(Some(v)) => {
                obs.l("strict:checked");
                let e = qn(p) * &rate;
                if qn(v) > e {
                    let ex = qn(v) - &e;
                    viol!(
                        format!("price-exceeds-exact:{vn}"),
                        "adjusted {} price {v} > price {p} * exact rate L/C = {} (excess {} units, relative {}); {}",
                        KIND_NAMES[kind as usize],
                        q_str(&e),
                        q_str(&ex),
                        if e.is_zero() { "inf".to_string() } else { q_str(&(&ex / &e)) },
                        state()
                    );
                }
            }
            _ => obs.l("strict:no-value"),
        }
        return Ok(());
    }

    // ---- exact divisors of zero ----
    if col == 0 && c2l.is_some() {
        viol!(format!("div-zero:{vn}_c2l"), "collateral_to_liquidity returned {:?} with zero collateral supply; {}", c2l, state());
    }
    if lr.hi.is_zero() && lr.lo.is_zero() && l2c.is_some() {
        viol!(format!("div-zero:{vn}_l2c"), "liquidity_to_collateral returned {:?} with zero total liquidity; {}", l2c, state());
    }
    // ---- round trips never gain ----
    if let Some(x) = c2l {
        if let Some(y) = rsv.l2c(x) {
            obs.l("reserve:roundtrip");
            if y > amt {
                viol!(format!("roundtrip:{vn}_col_liq_col"), "col {amt} -> liq {x} -> col {y} > {amt}; {}", state());
            }
        }
    }
    if let Some(x) = l2c {
        if let Some(y) = rsv.c2l(x) {
            obs.l("reserve:roundtrip");
            if y > amt {
                viol!(format!("roundtrip:{vn}_liq_col_liq"), "liq {amt} -> col {x} -> liq {y} > {amt}; {}", state());
            }
        }
    }
    obs.l(if c2l.is_some() { "reserve:c2l-some" } else { "reserve:c2l-none" });
    obs.l(if l2c.is_some() { "reserve:l2c-some" } else { "reserve:l2c-none" });

    // ---- scaled-supply intervals (scale_supplies: trunc48(x / 10^d)) ----
    let cs_exact = qn(col) / &tend;
    let cs = Iv { lo: q_max(&cs_exact - &u, q_zero()), hi: cs_exact.clone() };
    if !lr.lo.is_negative() {
        if col > 0 && !q_is_int(&(&l_true / qn(col))) {
            obs.nontrivial = true;
        }
        let ls = Iv { lo: q_max(&lr.lo / &tend - &u, q_zero()), hi: &lr.hi / &tend };
        // a returned value implies a non-zero divisor, i.e. at least one ulp
        let cs_lo_nz = q_max(cs.lo.clone(), u.clone());
        let ls_lo_nz = q_max(ls.lo.clone(), u.clone());
        // collateral -> liquidity: amt * Ls / Cs, floor
        if let Some(v) = c2l {
            if cs.hi >= u {
                let hi = qn(amt) * &ls.hi / &cs_lo_nz;
                let lo = qn(amt) * &ls.lo / &cs.hi - q_one();
                if near_cliff(&hi, &pow2(64)) {
                    obs.nontrivial = true;
                    obs.l("reserve:cliff");
                }
                let ctx = || format!("{} exact={}", state(), if col > 0 { q_str(&(qn(amt) * &l_true / qn(col))) } else { "-".into() });
                band(&format!("{vn}_c2l"), &bi(v), &lo, &hi, &zero, &umax, "exceeds-bound", &ctx)?;
            } else {
                obs.l("reserve:col-underflow-some");
            }
        } else if col > 0 && near_cliff(&(qn(amt) * &l_true / qn(col)), &pow2(64)) {
            obs.nontrivial = true;
            obs.l("reserve:cliff");
        }
        // liquidity -> collateral: amt * Cs / Ls, floor
        if let Some(v) = l2c {
            if ls.hi >= u {
                let hi = qn(amt) * &cs.hi / &ls_lo_nz;
                let lo = qn(amt) * &cs.lo / &ls.hi - q_one();
                if near_cliff(&hi, &pow2(64)) {
                    obs.nontrivial = true;
                    obs.l("reserve:cliff");
                }
                let ctx = || state();
                band(&format!("{vn}_l2c"), &bi(v), &lo, &hi, &zero, &umax, "exceeds-bound", &ctx)?;
            } else {
                obs.l("reserve:liq-underflow-some");
            }
        }
        // ---- exchange-rate adjusted price ----
        let (tmin, tmax) = kind_range(kind);
        let name = format!("{vn}_price_{}", KIND_NAMES[kind as usize]);
        let priced = rsv.price(kind, p);
        match priced {
            None => obs.l("reserve:price-path-not-taken"),
            Some(None) => obs.l("reserve:price-none"),
            Some(Some(_)) => obs.l("reserve:price-some"),
        }
        if let (Some(got), true) = (priced, cs.hi.is_positive()) {
            // ratio = trunc48(Ls/Cs) in (Ls/Cs - u, Ls/Cs]; caller guard total_col > 0 => Cs >= u
            // (when 10^d/2^48 > col the scaled collateral is forced up to one ulp, which would put the
            // bound BELOW the exact rate; an upper bound must never be below L/C, so take the max)
            let r_hi = q_max(&ls.hi / &cs_lo_nz, &lr.hi / qn(col));
            let r_lo = q_max(&ls.lo / &cs.hi - &u, q_zero());
            let cliff_t = if kind == 2 { pow2(79) } else { tmax.clone() + 1 };
            if near_cliff(&(qn(p) * &r_hi), &cliff_t) {
                obs.nontrivial = true;
                obs.l("reserve:price-cliff");
            }
            if let Some(v) = got {
                let ctx = || format!("{} p={p} rate in [{}, {}]", state(), q_str(&r_lo), q_str(&r_hi));
                if p >= 0 {
                    band(&name, &bi(v), &(qn(p) * &r_lo - q_one()), &(qn(p) * &r_hi), &tmin, &tmax, "exceeds-bound", &ctx)?;
                } else {
                    let slack = q_one() + &u;
                    band(&name, &bi(v), &(qn(p) * &r_hi - &slack), &(qn(p) * &r_lo + &slack), &tmin, &tmax, "no-wrap", &ctx)?;
                }
            }
            // monotone in the price
            let p2 = p_add(kind, p, dp);
            if let (Some(a), Some(Some(b2))) = (got, rsv.price(kind, p2)) {
                if a > b2 {
                    viol!(format!("monotone-price:{vn}"), "adjusted({p})={a} > adjusted({p2})={b2}; {}", state());
                }
            }
            // monotone in the exchange rate: more liquidity (same collateral) / less collateral (same liquidity)
            if p >= 0 {
                if let Some(a) = got {
                    let avail2 = avail.saturating_add(davail);
                    let r2 = Rsv::build(venue, avail2, b, f, col, dec);
                    if let Some(Some(b2)) = r2.price(kind, p) {
                        obs.l("reserve:monotone-rate-checked");
                        if a > b2 {
                            viol!(format!("monotone-rate:{vn}"), "adjusted={a} with avail={avail} > adjusted={b2} with avail={avail2}; p={p}; {}", state());
                        }
                    }
                    let col2 = col.saturating_sub(dcol).max(1);
                    if col2 <= col {
                        let r3 = Rsv::build(venue, avail, b, f, col2, dec);
                        if let Some(Some(b3)) = r3.price(kind, p) {
                            obs.l("reserve:monotone-rate-checked");
                            if a > b3 {
                                viol!(format!("monotone-rate:{vn}"), "adjusted={a} with col={col} > adjusted={b3} with col={col2}; p={p}; {}", state());
                            }
                        }
                    }
                }
            }
        }
    } else {
        // total liquidity (possibly) negative: fees exceed available + borrowed. The exact conversion
        // results are <= 0 (or undefined): only 0/1 may come back, everything else must be an error.
        obs.l("reserve:negative-liquidity");
        if lr.hi.is_negative() {
            for (nm, got) in [("c2l", c2l), ("l2c", l2c)] {
                if let Some(v) = got {
                    if v > 1 {
                        viol!(format!("fail-closed:{vn}_{nm}"), "{nm}({amt}) returned {v} although total liquidity is negative; {}", state());
                    }
                }
            }
        }
        let _ = rsv.price(kind, p);
    }
    Ok(())
}

fn check_solend_rate(avail: u64, b: u128, f: u128, col: u64, amt: u64, obs: &mut Obs) -> Result<(), Viol> {
    let ff = [f, 0, 0];
    let Rsv::S(r) = Rsv::build(1, avail, b, &ff, col, 0) else { unreachable!() };
    let (l_true, lr) = reserve_liquidity(1, avail, b, &ff);
    let rate = guard(|| CollateralExchangeRate::from_reserve(&r).ok());
    let Some(rate) = rate else {
        obs.l("solendrate:from_reserve-err");
        return Ok(());
    };
    let c2l = guard(|| rate.collateral_to_liquidity(amt).ok());
    let l2c = guard(|| rate.liquidity_to_collateral(amt).ok());
    let state = || format!("solend-rate avail={avail} b={b} f={f} col={col} amt={amt} rate_bits={}", rate.0.to_bits());
    // round trips
    if let Some(x) = c2l {
        if let Some(y) = guard(|| rate.liquidity_to_collateral(x).ok()) {
            if y > amt {
                viol!("roundtrip:solend_rate_col_liq_col".to_string(), "col {amt} -> liq {x} -> col {y}; {}", state());
            }
        }
    }
    if let Some(x) = l2c {
        if let Some(y) = guard(|| rate.collateral_to_liquidity(x).ok()) {
            if y > amt {
                viol!("roundtrip:solend_rate_liq_col_liq".to_string(), "liq {amt} -> col {x} -> liq {y}; {}", state());
            }
        }
    }
    if col == 0 || !lr.lo.is_positive() {
        // no supply: the code defines the initial rate 1 (nothing stated); negative liquidity: skip
        obs.l("solendrate:initial-or-negative");
        return Ok(());
    }
    if !q_is_int(&(qn(col) / &l_true)) {
        obs.nontrivial = true;
    }
    let u = ulp();
    // rate = trunc48(C / Lr)
    let rt = Iv { lo: q_max(qn(col) / &lr.hi - &u, q_zero()), hi: qn(col) / &lr.lo };
    let (bmin, bmax) = (bi(i128::MIN), bi(i128::MAX));
    let two = Q::from_integer(two48());
    band("solend_rate.from_reserve", &bi(rate.0.to_bits()), &((qn(col) / &lr.hi - &u) * &two), &(&rt.hi * &two), &bmin, &bmax, "exceeds-bound", &state)?;
    let (zero, umax) = (bi(0), bi(u64::MAX));
    if let Some(v) = l2c {
        // floor(amt * rate), product exact
        let hi = qn(amt) * &rt.hi;
        if near_cliff(&hi, &pow2(64)) {
            obs.nontrivial = true;
            obs.l("solendrate:cliff");
        }
        band("solend_rate_l2c", &bi(v), &(qn(amt) * &rt.lo - q_one()), &hi, &zero, &umax, "exceeds-bound", &state)?;
    }
    if let Some(v) = c2l {
        // floor(trunc48(amt / rate)); Some implies rate >= 1 ulp
        let hi = qn(amt) / q_max(rt.lo.clone(), u.clone());
        let lo = qn(amt) / &rt.hi - &u - q_one();
        if near_cliff(&hi, &pow2(64)) {
            obs.nontrivial = true;
            obs.l("solendrate:cliff");
        }
        band("solend_rate_c2l", &bi(v), &lo, &hi, &zero, &umax, "exceeds-bound", &state)?;
    }
    Ok(())
}

fn check_solend_decimal(raw: u128, obs: &mut Obs) -> Result<(), Viol> {
    let got = guard(|| decimal_to_i80f48(raw.to_le_bytes()).ok());
    let e = Q::new(bi(raw) * two48(), ten(18)); // in ulps
    if !q_is_int(&e) {
        obs.nontrivial = true;
    }
    if let Some(v) = got {
        let ctx = || format!("raw={raw}");
        band("decimal_to_i80f48", &bi(v.to_bits()), &(&e - q_one()), &e, &bi(i128::MIN), &bi(i128::MAX), "exceeds-exact", &ctx)?;
    } else {
        obs.l("solenddecimal:err");
    }
    Ok(())
}

// ------------------------------------------------------------------------------------------
// checks: Drift
// ------------------------------------------------------------------------------------------
fn drift_market(ci: u128, dec: u32) -> MinimalSpotMarket {
    let mut m = MinimalSpotMarket::zeroed();
    m.cumulative_deposit_interest = ci.to_le_bytes();
    m.decimals = dec;
    m
}

#[allow(clippy::too_many_arguments)]
fn check_drift(ci: u128, dec: u32, amt: u64, scaled: u64, kind: u8, p: i128, dp: u128, dci: u128, obs: &mut Obs) -> Result<(), Viol> {
    let m = drift_market(ci, dec);
    let inc = guard(|| m.get_scaled_balance_increment(amt).ok());
    let decr = guard(|| m.get_scaled_balance_decrement(amt).ok());
    let wta = guard(|| m.get_withdraw_token_amount(scaled).ok());
    let (zero, umax) = (bi(0), bi(u64::MAX));
    let state = || format!("drift ci={ci} dec={dec} amt={amt} scaled={scaled}");
    obs.l(if inc.is_some() { "drift:inc-some" } else { "drift:inc-none" });
    obs.l(if wta.is_some() { "drift:wta-some" } else { "drift:wta-none" });

    // statement: a withdrawal burns at least what a deposit of the same amount mints
    if let (Some(i), Some(d)) = (inc, decr) {
        if d < i {
            viol!("drift-decrement-lt-increment".to_string(), "decrement({amt})={d} < increment({amt})={i}; {}", state());
        }
    }
    if dec <= 19 {
        // precision increase 10^(19-dec); scaled = amt * P / ci
        let pinc = ten(19 - dec);
        if ci == 0 {
            for (nm, got) in [("increment", inc), ("decrement", decr)] {
                if got.is_some() {
                    viol!(format!("div-zero:drift_{nm}"), "{nm} returned {:?} with zero cumulative interest; {}", got, state());
                }
            }
        } else {
            let e = Q::new(bi(amt) * &pinc, bi(ci));
            if near_cliff(&e, &pow2(64)) {
                obs.nontrivial = true;
                obs.l("drift:scaled-cliff");
            }
            if !q_is_int(&Q::new(pinc.clone(), bi(ci))) {
                obs.nontrivial = true;
            }
            if let Some(v) = inc {
                band("drift_increment", &bi(v), &(&e - q_one()), &e, &zero, &umax, "exceeds-exact", &state)?;
            }
            if let Some(w) = decr {
                // floor(e) (+1 when non-zero): never more than one unit above exact
                band("drift_decrement", &bi(w), &(&e - q_one()), &(&e + q_one()), &zero, &umax, "exceeds-exact", &state)?;
                // never rounds in the user's favour: when the amount is worth at least one balance
                // unit the burn must cover the exact scaled value (dust below one unit burns 0 in
                // Drift itself; the statement's own reading `decrement >= increment` holds there)
                if e >= q_one() {
                    if qn(w) < e {
                        viol!("drift-withdraw-rounds-down".to_string(), "decrement({amt})={w} < exact scaled value {}; {}", q_str(&e), state());
                    }
                } else if amt > 0 {
                    obs.l("drift:dust-withdraw-burns-zero");
                }
            }
            // deposit-then-withdraw round trip never gains
            if let Some(i) = inc {
                if let Some(t) = guard(|| m.get_withdraw_token_amount(i).ok()) {
                    obs.l("drift:roundtrip");
                    if t > amt {
                        viol!("roundtrip:drift".to_string(), "deposit {amt} -> balance {i} -> withdraw {t} > {amt}; {}", state());
                    }
                }
            }
        }
        // withdraw token amount: floor(scaled * ci / P)
        let e2 = Q::new(bi(scaled) * bi(ci), pinc.clone());
        if near_cliff(&e2, &pow2(64)) || near_cliff(&qn(bi(scaled) * bi(ci)), &pow2(128)) {
            obs.nontrivial = true;
            obs.l("drift:wta-cliff");
        }
        if let Some(t) = wta {
            band("drift_withdraw_token_amount", &bi(t), &(&e2 - q_one()), &e2, &zero, &umax, "exceeds-exact", &state)?;
        }
    } else {
        obs.l("drift:unsupported-decimals");
    }

    // adjusted oracle value: floor(raw * ci / 1e10)
    let name = format!("drift_adjust_{}", KIND_NAMES[kind as usize]);
    let (tmin, tmax) = kind_range(kind);
    let prec = ten(10);
    let got = guard(|| call_drift_adjust(&m, kind, p));
    obs.l(if got.is_some() { "drift:adjust-some" } else { "drift:adjust-none" });
    let e = Q::new(bi(p) * bi(ci), prec.clone());
    if near_cliff(&e, &(tmax.clone() + 1)) || near_cliff(&qn(bi(p) * bi(ci)), &pow2(128)) {
        obs.nontrivial = true;
        obs.l("drift:adjust-cliff");
    }
    if ci % 10_000_000_000 != 0 {
        obs.nontrivial = true;
    }
    let ctx = || format!("drift ci={ci} p={p} exact={}", q_str(&e));
    if let Some(v) = got {
        if p >= 0 {
            band(&name, &bi(v), &(&e - q_one()), &e, &tmin, &tmax, "exceeds-exact", &ctx)?;
        } else {
            band(&name, &bi(v), &(&e - q_one()), &(&e + q_one()), &tmin, &tmax, "no-wrap", &ctx)?;
        }
    }
    let p2 = p_add(kind, p, dp);
    if let (Some(a), Some(b)) = (got, guard(|| call_drift_adjust(&m, kind, p2))) {
        if a > b {
            viol!(format!("monotone-price:{name}"), "adjust({p})={a} > adjust({p2})={b}; ci={ci}");
        }
    }
    if p >= 0 {
        let ci2 = ci.saturating_add(dci);
        let m2 = drift_market(ci2, dec);
        if let (Some(a), Some(b)) = (got, guard(|| call_drift_adjust(&m2, kind, p))) {
            if a > b {
                viol!(format!("monotone-rate:{name}"), "adjust(p={p}; ci={ci})={a} > adjust(p; ci={ci2})={b}");
            }
        }
    }
    Ok(())
}

// ------------------------------------------------------------------------------------------
// checks: staleness
// ------------------------------------------------------------------------------------------
thread_local! {
    static SLOT: Cell<u64> = const { Cell::new(0) };
}
struct Stubs;
impl solana_program::program_stubs::SyscallStubs for Stubs {
    fn sol_get_clock_sysvar(&self, var_addr: *mut u8) -> u64 {
        let c = Clock { slot: SLOT.with(|s| s.get()), ..Clock::default() };
        unsafe { std::ptr::write_unaligned(var_addr as *mut Clock, c) };
        0
    }
    fn sol_log(&self, _m: &str) {}
}
fn install_stubs() {
    static ONCE: Once = Once::new();
    ONCE.call_once(|| {
        let _ = solana_program::program_stubs::set_syscall_stubs(Box::new(Stubs));
    });
}

fn check_stale(venue: u8, ts: u64, now: i128, obs: &mut Obs) -> Result<(), Viol> {
    // Some(true) = treated as stale (a panic aborts the transaction, which is the same outcome)
    if (venue == 2 && (now < i64::MIN as i128 || now > i64::MAX as i128)) || (venue != 2 && (now < 0 || now > u64::MAX as i128)) {
        obs.l("stale:now-out-of-range");
        return Ok(());
    }
    let (vn, got): (&str, Option<bool>) = match venue {
        0 => {
            let mut r: Box<MinimalReserve> = Box::new(MinimalReserve::zeroed());
            r.slot = ts;
            ("kamino", Some(guard(|| Some(r.is_stale(now as u64))).unwrap_or(true)))
        }
        1 => {
            let mut r = SolendMinimalReserve::zeroed();
            r.last_update_slot = ts;
            SLOT.with(|s| s.set(now as u64));
            ("solend", catch_unwind(AssertUnwindSafe(|| r.is_stale().ok())).unwrap_or(Some(true)))
        }
        2 => {
            let mut m = MinimalSpotMarket::zeroed();
            m.last_interest_ts = ts;
            ("drift", Some(guard(|| Some(m.is_stale(now as i64))).unwrap_or(true)))
        }
        _ => {
            let key = Pubkey::new_from_array([7u8; 32]);
            let market = Pubkey::new_from_array([9u8; 32]);
            let owner = solend_mocks::ID;
            let mut lamports = 1u64;
            let mut data = vec![0u8; solend_mocks::state::RESERVE_LEN];
            data[0] = 1;
            data[1..9].copy_from_slice(&ts.to_le_bytes());
            data[10..42].copy_from_slice(market.as_ref());
            SLOT.with(|s| s.set(now as u64));
            let ai = AccountInfo::new(&key, false, false, &mut lamports, &mut data, &owner, false, 0);
            ("solend_validate", Some(guard(|| Some(validate_solend_reserve(&ai, market).is_err())).unwrap_or(true)))
        }
    };
    let Some(stale) = got else {
        viol!(format!("stale:{vn}-unavailable"), "staleness predicate could not be evaluated (ts={ts} now={now})");
    };
    let tsb = ts as i128;
    if tsb < now {
        obs.l("stale:older");
        if !stale {
            viol!(format!("stale:{vn}-old-treated-fresh"), "{vn}: last update {ts} < now {now} but not treated as stale");
        }
    } else if tsb == now {
        obs.l("stale:same");
        if stale {
            viol!(format!("stale:{vn}-current-treated-stale"), "{vn}: last update {ts} == now {now} but treated as stale");
        }
    } else {
        obs.l(if stale { "stale:future-stale" } else { "stale:future-fresh" });
    }
    Ok(())
}

fn check(case: &Case, obs: &mut Obs) -> Result<(), Viol> {
    match case {
        Case::Adjust { kind, p, dp, r, dr } => check_adjust(*kind, *p, *dp, *r, *dr, obs),
        Case::Scaled { amt, liq, col } => check_scaled(*amt, *liq, *col, obs),
        Case::ScaleSup { liq, col, dec } => check_scalesup(*liq, *col, *dec, obs),
        Case::ConvDec { n, from, to } => check_convdec(*n, *from, *to, obs),
        Case::Reserve { venue, strict, avail, b, f, col, dec, amt, kind, p, dp, davail, dcol } => {
            check_reserve(*venue, *strict, *avail, *b, f, *col, *dec, *amt, *kind, *p, *dp, *davail, *dcol, obs)
        }
        Case::SolendRate { avail, b, f, col, amt } => check_solend_rate(*avail, *b, *f, *col, *amt, obs),
        Case::SolendDecimal { raw } => check_solend_decimal(*raw, obs),
        Case::Drift { ci, dec, amt, scaled, kind, p, dp, dci } => check_drift(*ci, *dec, *amt, *scaled, *kind, *p, *dp, *dci, obs),
        Case::Stale { venue, ts, now } => check_stale(*venue, *ts, *now, obs),
    }
}

// ------------------------------------------------------------------------------------------
// generators (construction only, every selector maps monotonically so shrinking goes to simple)
// ------------------------------------------------------------------------------------------
const NS: usize = 14;
type Sel = [u16; NS];
type Rnd = [u64; NS];

fn pick_u64(sel: u16, r: u64) -> u64 {
    match idx(sel, 14) {
        0 => 0,
        1 => 1,
        2 => 2,
        3 => r % 1000,
        4 => 1_000_000 + r % 1_000_000,
        5 => 1_000_000_000 + r % 1_000_000_000,
        6 => 1_000_000_000_000 + r % 1_000_000_000_000,
        7 => 1_000_000_000_000_000 + r % 1_000_000_000_000_000,
        8 => 1_000_000_000_000_000_000 + r % 1_000_000_000_000_000_000,
        9 => u64::MAX - (r % 8),
        10 => (1u64 << 63).wrapping_add(r % 9).wrapping_sub(4),
        11 => {
            let s = (r >> 58) as u32;
            to_u64_clamped(&(pow2(s) + bi(delta5(r))))
        }
        12 => (r << 6) >> ((r >> 58) as u32).min(63),
        _ => r,
    }
}

fn pick_price(kind: u8, sel: u16, r: u64, r2: u64) -> i128 {
    match kind {
        0 => match idx(sel, 12) {
            0 => 0,
            1 => 1,
            2 => 100_000_000 + (r % 100_000_000) as i128,
            3 => (r % 1000) as i128,
            4 => 10_000_000_000 + (r % 10_000_000_000_000) as i128,
            5 => 1_000_000_000_000_000_000 + (r % 1_000_000_000_000_000_000) as i128,
            6 => i64::MAX as i128 - (r % 4) as i128,
            7 => (r >> 1) as i128,
            8 => ((1u64 << ((r >> 58) % 63)) as i128 + delta5(r)).max(0),
            9 => -1,
            10 => -((r >> 1) as i128) - 1,
            _ => i64::MIN as i128 + (r % 4) as i128,
        },
        1 => pick_u64(sel, r) as i128,
        _ => match idx(sel, 13) {
            0 => 0,
            1 => 1,
            2 => 1_000_000_000_000_000_000 + (r % 1_000_000_000_000_000_000) as i128,
            3 => (r % 2_000_000) as i128 * 1_000_000_000_000_000_000 + (r2 % 1_000_000_000_000_000_000) as i128,
            4 => (1i128 << 79) - 1 - (r % 3) as i128,
            5 => (1i128 << 79) + (r % 3) as i128,
            6 => (u128_of(r, r2) >> 49) as i128,
            7 => (u128_of(r, r2) >> 1) as i128,
            8 => i128::MAX - (r % 3) as i128,
            9 => -1,
            10 => -(1i128 << 79) + delta5(r),
            11 => -((u128_of(r, r2) >> 49) as i128) - 1,
            _ => i128::MIN + (r % 3) as i128,
        },
    }
}

/// price such that price * (num/den) is within +-2 of `t`
fn directed_price(kind: u8, t: &BigInt, num: &BigInt, den: &BigInt, r: u64) -> i128 {
    if num.is_zero() || !num.is_positive() || !den.is_positive() {
        return clamp_kind(kind, &bi(delta5(r).max(0)));
    }
    clamp_kind(kind, &((t * den) / num + bi(delta5(r))))
}

fn pick_dec(sel: u16) -> u64 {
    match idx(sel, 30) {
        0 => 6,
        1 => 9,
        2 => 8,
        i @ 3..=22 => (i - 3) as u64, // 0..=19
        23 | 24 => 23,
        25 => 6,
        26 => 9,
        27 => 19,
        28 => 24,
        _ => 255,
    }
}

fn pick_dp(sel: u16, r: u64, r2: u64) -> u128 {
    match idx(sel, 5) {
        0 => 0,
        1 => 1,
        2 => (r % 1000) as u128,
        3 => r as u128,
        _ => u128_of(r, r2) >> (r2 % 64),
    }
}

fn gen_adjust(s: &Sel, r: &Rnd) -> Case {
    let kind = idx(s[0], 3) as u8;
    let mut rb: i128 = match idx(s[1], 12) {
        0 => 1i128 << 48,
        1 => (1i128 << 48) + (r[1] % 1000) as i128,
        2 => (1i128 << 48) + (r[1] as i128 & FRAC_MASK),
        3 => (1i128 << 48) + (r[1] % ((1u64 << 48) / 5)) as i128,
        4 => r[1] as i128 & FRAC_MASK,
        5 => (r[1] % 64) as i128,
        6 => ((r[1] % 1000) as i128) << 48,
        7 => (r[1] as i128) << (r[2] % 31),
        8 => i128::MAX - (r[1] % 4) as i128,
        9 => (u128_of(r[1], r[2]) >> 1) as i128,
        10 => -((1i128 << 48) + (r[1] as i128 & FRAC_MASK)),
        _ => -((r[1] % 64) as i128) - 1,
    };
    let mut p = pick_price(kind, s[2], r[3], r[4]);
    let (_, tmax) = kind_range(kind);
    let t = match (kind, idx(s[6], 3)) {
        (2, _) => pow2(79),
        (_, 2) => pow2(79),
        _ => tmax + 1,
    };
    match idx(s[3], 5) {
        3 => p = directed_price(kind, &t, &bi(rb), &two48(), r[5]),
        4 => {
            if p != 0 {
                rb = to_i128_clamped(&((&t * two48()) / bi(p).abs() + bi(delta5(r[5]))));
            }
        }
        _ => {}
    }
    Case::Adjust { kind, p, dp: pick_dp(s[4], r[6], r[7]), r: rb, dr: pick_dp(s[5], r[8], r[9]) }
}

/// floor48(n / 10^d) as bits
fn scaled_bits(n: u64, d: u32) -> i128 {
    ((bi(n) * two48()) / ten(d)).to_i128().unwrap()
}

fn gen_scaled(s: &Sel, r: &Rnd) -> Case {
    let d = pick_dec(s[3]).min(23) as u32;
    let col: i128 = match idx(s[1], 7) {
        0 => scaled_bits(pick_u64(s[5], r[0]), d),
        1 => 1i128 << 48,
        2 => ((r[0] % (1 << 30)) as i128) << 48,
        3 => (r[0] % 64) as i128,
        4 => (r[0] as i128) << (r[1] % 53),
        5 => 0,
        _ => scaled_bits(pick_u64(s[5], r[0]), 0),
    };
    let liq: i128 = match idx(s[0], 9) {
        0 => scaled_bits(pick_u64(s[6], r[2]), d),
        1 => col,
        2 => col + col / (20 + (r[2] % 1000) as i128),
        3 => col + (r[2] as i128 % (col / 2 + 1)),
        4 => (r[2] % 64) as i128,
        5 => (r[2] as i128) << (r[3] % 53),
        6 => 0,
        7 => ((r[2] % (1 << 30)) as i128) << 48,
        _ => -scaled_bits(pick_u64(s[6], r[2]), d) - 1,
    };
    let col = if idx(s[7], 40) == 39 { -col } else { col };
    let amt = match idx(s[2], 9) {
        0 => 0,
        1 => 1,
        2 => 2,
        3 => pick_u64(s[8], r[4]),
        4 => u64::MAX - r[4] % 4,
        5 if liq > 0 && col > 0 => to_u64_clamped(&((pow2(64) * bi(col)) / bi(liq) + bi(delta5(r[4])))),
        6 if liq > 0 && col > 0 => to_u64_clamped(&((pow2(64) * bi(liq)) / bi(col) + bi(delta5(r[4])))),
        7 if liq > 0 => to_u64_clamped(&(pow2(127) / bi(liq) + bi(delta5(r[4])))),
        _ => r[4],
    };
    Case::Scaled { amt, liq, col }
}

fn gen_scalesup(s: &Sel, r: &Rnd) -> Case {
    let col = pick_u64(s[0], r[0]);
    let liq: i128 = match idx(s[1], 6) {
        0 => (pick_u64(s[2], r[1]) as i128) << 48,
        1 => ((pick_u64(s[2], r[1]) as i128) << 48) | (r[2] as i128 & FRAC_MASK),
        2 => (u128_of(r[1], r[2]) >> 11) as i128, // up to 2^69
        3 => (r[1] % 64) as i128,
        4 => -((pick_u64(s[2], r[1]) as i128) << 20) - 1,
        _ => 0,
    };
    Case::ScaleSup { liq, col, dec: pick_dec(s[3]) as u8 }
}

fn gen_convdec(s: &Sel, r: &Rnd) -> Case {
    let from = (pick_dec(s[0]) as u8).min(30);
    let to = match idx(s[1], 4) {
        0 => 6,
        1 => 9,
        _ => (pick_dec(s[2]) as u8).min(30),
    };
    let diff = to as i32 - from as i32;
    let n: i128 = match idx(s[3], 7) {
        0 => (pick_u64(s[4], r[0]) as i128) << 48,
        1 => ((pick_u64(s[4], r[0]) as i128) << 48) | (r[1] as i128 & FRAC_MASK),
        2 if diff > 0 && diff <= 23 => to_i128_clamped(&(pow2(127) / ten(diff as u32) + bi(delta5(r[0])))),
        3 => (u128_of(r[0], r[1]) >> 1) as i128,
        4 => (r[0] % 64) as i128,
        5 => -((pick_u64(s[4], r[0]) as i128) << 30) - 1,
        _ => (u128_of(r[0], r[1]) >> (r[2] % 100)) as i128,
    };
    Case::ConvDec { n, from, to }
}

/// Build (avail, b, f) for a target integer liquidity `l_target` (native units, < 2^68).
fn split_liquidity(venue: u8, l_target: u128, s: &Sel, r: &Rnd) -> (u64, u128, [u128; 3]) {
    let cap: u128 = (1u128 << 68) - 1;
    let l = l_target.min(cap);
    // unit of the fixed-point field per native token
    let unit: u128 = if venue == 0 { 1u128 << 60 } else { 1_000_000_000_000_000_000 };
    let b_int: u128 = match idx(s[8], 6) {
        0 => 0,
        1 => l,
        2 => l / 2,
        3 => l - l / (2 + (r[8] % 50) as u128),
        4 => (r[8] as u128) % (l + 1),
        _ => (l + (r[8] % 1000) as u128).min(cap),
    };
    let frac = |sel: u16, x: u64| -> u128 {
        match idx(sel, 5) {
            0 => 0,
            1 => (x as u128) % unit,
            2 => (x as u128) % 4096, // below one I80F48 ulp
            3 => ((x as u128) % unit) & !0xFFF,
            _ => unit - 1 - (x as u128 % 3),
        }
    };
    let b = b_int * unit + frac(s[9], r[9]);
    let mut f = [0u128; 3];
    match idx(s[10], 8) {
        0 | 1 => {}
        2 => f[0] = frac(1 << 14, r[10]),
        3 => {
            f[0] = frac(1 << 14, r[10]);
            f[1] = frac(1 << 14, r[11]);
            f[2] = frac(40000, r[12]);
        }
        4 => f[0] = (l / 1000) * unit + frac(s[11], r[10]),
        5 => {
            f[0] = (l / 10).min((r[10] as u128) % (l / 10 + 1)) * unit + frac(s[11], r[10]);
            f[1] = ((r[11] as u128) % (l / 20 + 1)) * unit;
            f[2] = ((r[12] as u128) % (l / 20 + 1)) * unit + frac(s[11], r[12]);
        }
        6 => f[0] = (r[10] as u128 % 5) * unit + frac(s[11], r[11]),
        // fees above everything else: negative total liquidity
        _ => f[0] = (l + b_int + 1 + (r[10] % 1000) as u128).min(cap) * unit,
    }
    if venue != 0 {
        f[0] += f[1] + f[2];
        f[1] = 0;
        f[2] = 0;
    }
    let fees_int: u128 = f.iter().map(|x| x / unit).sum();
    // avail = L - borrowed + fees (integer parts), clamped
    let avail = to_u64_clamped(&(bi(l) - bi(b_int) + bi(fees_int)));
    (avail, b, f)
}

fn gen_reserve(venue: u8, strict: bool, s: &Sel, r: &Rnd) -> Case {
    let col = pick_u64(s[0], r[0]);
    let c = col as u128;
    let l_target: u128 = match idx(s[1], 11) {
        0 => c,
        1 => c + c / (20 + (r[1] % 1000) as u128),
        2 => c + (r[1] as u128) % (c / 2 + 1),
        3 => c + c / (1 + (r[1] % 20) as u128) + (r[2] % 3) as u128,
        4 => 2 * c,
        5 => c / 2,
        6 => pick_u64(s[2], r[1]) as u128,
        7 => c * (1 + (r[1] % 50) as u128) + (r[2] % 7) as u128,
        8 => c + 1,
        9 => (r[1] as u128) << (r[2] % 5),
        _ => 0,
    };
    let (avail, b, f) = split_liquidity(venue, l_target, s, r);
    let dec = pick_dec(s[3]);
    // exact rate numerator/denominator for directed values (integer approximation is enough)
    let (ln, cn) = (bi(l_target.min((1u128 << 68) - 1)), bi(c));
    let amt = match idx(s[4], 11) {
        0 => 0,
        1 => 1,
        2 => 2,
        3 => col,
        4 => to_u64_clamped(&(bi(col) + bi(delta5(r[3])))),
        5 => to_u64_clamped(&(ln.clone() + bi(delta5(r[3])))),
        6 if c > 0 => to_u64_clamped(&(bi(r[3] % 1000) * ((&ln + &cn - 1) / &cn) + bi(delta5(r[4])))),
        7 => u64::MAX - r[3] % 4,
        8 if c > 0 && ln.is_positive() => to_u64_clamped(&((pow2(64) * &cn) / &ln + bi(delta5(r[3])))),
        9 if c > 0 && ln.is_positive() => to_u64_clamped(&((pow2(64) * &ln) / &cn + bi(delta5(r[3])))),
        _ => pick_u64(s[5], r[3]),
    };
    let kind = idx(s[6], 3) as u8;
    let (_, tmax) = kind_range(kind);
    let t = if kind == 2 { pow2(79) } else { tmax + 1 };
    let p = match idx(s[7], 4) {
        3 if c > 0 => directed_price(kind, &t, &ln, &cn, r[5]),
        _ => pick_price(kind, s[12], r[5], r[6]),
    };
    let p = if strict { p.max(0) } else { p };
    let davail = match idx(s[13], 4) {
        0 => 0,
        1 => 1,
        2 => r[7] % 1000,
        _ => r[7],
    };
    let dcol = match idx(s[13] ^ 0x5555, 4) {
        0 => 0,
        1 => 1,
        2 => r[13] % 1000,
        _ => r[13] % (col / 2 + 1),
    };
    Case::Reserve { venue, strict, avail, b, f, col, dec, amt, kind, p, dp: pick_dp(s[5], r[6], r[7]), davail, dcol }
}

fn gen_solend_rate(s: &Sel, r: &Rnd) -> Case {
    let Case::Reserve { avail, b, f, col, amt, .. } = gen_reserve(1, false, s, r) else { unreachable!() };
    Case::SolendRate { avail, b, f: f[0], col, amt }
}

fn gen_solend_decimal(s: &Sel, r: &Rnd) -> Case {
    const WAD: u128 = 1_000_000_000_000_000_000;
    let raw = match idx(s[0], 8) {
        0 => 0,
        1 => WAD,
        2 => (pick_u64(s[1], r[0]) as u128) * WAD,
        3 => (pick_u64(s[1], r[0]) as u128) * WAD + (r[1] as u128 % WAD),
        4 => u128::MAX - (r[0] % 4) as u128,
        5 => (r[0] as u128) % WAD,
        6 => WAD - 1 - (r[0] % 3) as u128,
        _ => u128_of(r[0], r[1]),
    };
    Case::SolendDecimal { raw }
}

fn gen_drift(s: &Sel, r: &Rnd) -> Case {
    const P10: u128 = 10_000_000_000;
    let ci: u128 = match idx(s[0], 14) {
        0 => P10,
        1 => P10 + (r[0] % 1_000_000_000) as u128,
        2 => P10 + (r[0] as u128 % P10),
        3 => P10 * (1 + (r[0] % 1000) as u128),
        4 | 5 => {
            let sc = 10u128.pow((r[0] % 11) as u32);
            P10 * sc + (r[1] as u128) % (P10 * sc)
        }
        6 => P10 * P10 - 2 + (r[0] % 5) as u128,
        7 => 0,
        8 => 1,
        9 => P10 - 1 - (r[0] % 3) as u128,
        10 => ((1u128 << 64) - 2) + (r[0] % 5) as u128,
        11 => u128::MAX - (r[0] % 3) as u128,
        12 => (1u128 << 127) - 2 + (r[0] % 5) as u128,
        _ => u128_of(r[0], r[1]) >> (r[2] % 100),
    };
    let dec: u32 = match idx(s[1], 26) {
        i @ 0..=19 => i as u32,
        20 => 23,
        21 => 20,
        22 | 23 => 6,
        _ => 9,
    };
    let pinc = if dec <= 19 { ten(19 - dec) } else { bi(1) };
    let cib = bi(ci);
    let amt = match idx(s[2], 9) {
        0 => 0,
        1 => 1,
        2 => 2,
        3 => u64::MAX - r[3] % 4,
        // amounts around an exact multiple of one scaled-balance unit
        4 | 5 => to_u64_clamped(&((bi(r[3] % 100_000) * &cib + &pinc - 1) / &pinc + bi(delta5(r[4])))),
        // result straddles 2^64
        6 => to_u64_clamped(&((pow2(64) * &cib) / &pinc + bi(delta5(r[3])))),
        _ => pick_u64(s[3], r[3]),
    };
    let scaled = match idx(s[4], 8) {
        0 => 0,
        1 => 1,
        2 => u64::MAX - r[5] % 4,
        3 if ci > 0 => to_u64_clamped(&(pow2(128) / &cib + bi(delta5(r[5])))),
        4 | 5 if ci > 0 => to_u64_clamped(&((pow2(64) * &pinc) / &cib + bi(delta5(r[5])))),
        _ => pick_u64(s[5], r[5]),
    };
    let kind = idx(s[6], 3) as u8;
    let (_, tmax) = kind_range(kind);
    let p = match idx(s[7], 6) {
        3 if ci > 0 => directed_price(kind, &(tmax + 1), &cib, &bi(P10), r[6]),
        4 if ci > 0 => clamp_kind(kind, &(pow2(128) / &cib + bi(delta5(r[6])))),
        5 if ci > 0 => directed_price(kind, &pow2(64), &cib, &bi(P10), r[6]),
        _ => pick_price(kind, s[8], r[6], r[7]),
    };
    let dci = match idx(s[10], 4) {
        0 => 0,
        1 => 1,
        2 => (r[10] % 1_000_000) as u128,
        _ => r[10] as u128,
    };
    Case::Drift { ci, dec, amt, scaled, kind, p, dp: pick_dp(s[9], r[8], r[9]), dci }
}

fn gen_stale(s: &Sel, r: &Rnd) -> Case {
    let venue = idx(s[0], 4) as u8;
    let ts: u64 = match idx(s[1], 8) {
        0 => 0,
        1 => 1,
        2 => 300_000_000 + r[0] % 1_000_000,
        3 => 1_700_000_000 + r[0] % 100_000_000,
        4 => (i64::MAX as u64).wrapping_add(r[0] % 5).wrapping_sub(2),
        5 => u64::MAX - r[0] % 3,
        6 => r[0] >> (r[1] % 64),
        _ => r[0],
    };
    let now_raw: i128 = match idx(s[2], 4) {
        0 | 1 => ts as i128 + (idx(s[3], 5) as i128 - 2),
        2 => ts as i128,
        _ => (r[2] >> (r[3] % 64)) as i128,
    };
    let now = if venue == 2 { now_raw.clamp(i64::MIN as i128, i64::MAX as i128) } else { now_raw.clamp(0, u64::MAX as i128) };
    Case::Stale { venue, ts, now }
}

#[derive(Clone, Copy, Debug, PartialEq)]
enum Fam {
    Adjust,
    Scaled,
    ScaleSup,
    ConvDec,
    Kamino,
    Solend,
    KaminoStrict,
    SolendStrict,
    SolendRate,
    SolendDecimal,
    Drift,
    Stale,
}
/// (family, stream name, share of the case budget in 1/1000)
const FAMS: [(Fam, &str, u32); 12] = [
    (Fam::Adjust, "adjust", 150),
    (Fam::Scaled, "scaled", 110),
    (Fam::ScaleSup, "scalesup", 40),
    (Fam::ConvDec, "convdec", 40),
    (Fam::Kamino, "kamino", 150),
    (Fam::Solend, "solend", 130),
    (Fam::KaminoStrict, "kamino-strict", 40),
    (Fam::SolendStrict, "solend-strict", 40),
    (Fam::SolendRate, "solendrate", 50),
    (Fam::SolendDecimal, "solenddecimal", 20),
    (Fam::Drift, "drift", 190),
    (Fam::Stale, "stale", 40),
];

fn gen(fam: Fam, s: &Sel, r: &Rnd) -> Case {
    match fam {
        Fam::Adjust => gen_adjust(s, r),
        Fam::Scaled => gen_scaled(s, r),
        Fam::ScaleSup => gen_scalesup(s, r),
        Fam::ConvDec => gen_convdec(s, r),
        Fam::Kamino => gen_reserve(0, false, s, r),
        Fam::Solend => gen_reserve(1, false, s, r),
        Fam::KaminoStrict => gen_reserve(0, true, s, r),
        Fam::SolendStrict => gen_reserve(1, true, s, r),
        Fam::SolendRate => gen_solend_rate(s, r),
        Fam::SolendDecimal => gen_solend_decimal(s, r),
        Fam::Drift => gen_drift(s, r),
        Fam::Stale => gen_stale(s, r),
    }
}

// ------------------------------------------------------------------------------------------
// driver
// ------------------------------------------------------------------------------------------
const QUICK_TOTAL: u64 = 1_000_000;
const THOROUGH_MULT: u64 = 16;

pub fn run(ctx: &Ctx) -> Report {
    install_stubs();
    let total = ctx.tier.pick(QUICK_TOTAL, QUICK_TOTAL * THOROUGH_MULT);
    let threads = ctx.threads.max(1);
    let mut rep = par_workers(threads, |w| {
        let mut rep = Report::new(RULE);
        for (fam, stream, share) in FAMS.iter() {
            let cases = ((total * *share as u64) / 1000 / threads as u64).max(1) as u32;
            let strat = (any::<Sel>(), any::<Rnd>()).prop_map({
                let fam = *fam;
                move |(s, r)| gen(fam, &s, &r)
            });
            let mut local = Report::default();
            let out = run_prop(ctx.seed_bytes(stream, w as u64), cases, &strat, |case, counting| {
                let mut obs = Obs::default();
                let res = check(case, &mut obs);
                if counting {
                    local.eval();
                    local.label(&format!("family:{stream}"));
                    for l in &obs.labels {
                        local.label(l);
                    }
                    if obs.nontrivial {
                        local.nontrivial_hash(case.hash());
                        local.label(&format!("nontrivial:{stream}"));
                        if local.samples.is_empty() {
                            local.sample(case.to_json());
                        }
                    }
                }
                res.map_err(|v| format!("{}|{}", v.sig, v.msg))
            });
            if let Some((case, m)) = out.failure {
                let (sig, msg) = m.split_once('|').unwrap_or(("unknown", &m));
                local.violation(sig, format!("{msg} (found after {} cases of stream {stream}, worker {w})", out.cases_run), case.to_json());
            }
            rep.merge(local);
        }
        rep.rule = RULE.to_string();
        rep
    });
    rep.nontrivial_floor = ctx.tier.pick(200_000, 2_000_000);
    rep.assumptions = vec![
        "pure-function test: the public functions of marginfi-type-crate::types::price, kamino-mocks, solend-mocks and drift-mocks state are called natively on zeroed Pod accounts with only the fields they read set; Solend's Clock::get() is served by a syscall stub".to_string(),
        "the in-line `total_liq / total_col` of OraclePriceFeedAdapter::try_from_bank_with_max_age is represented by the public liq_to_col_ratio (identical whenever the quotient fits I80F48, which reserve-derived supplies guarantee)".to_string(),
        "'never exceeds price x rate' and the exact-floor bands are asserted for non-negative prices/supplies; negative inputs only get the no-wrap band and no monotonicity across sign changes".to_string(),
        "Drift dust withdrawals worth less than one scaled-balance unit burn 0 (as in Drift itself); the burn >= exact clause is asserted from one balance unit upwards, the dust cases are counted under label drift:dust-withdraw-burns-zero".to_string(),
    ];
    rep
}

pub fn replay(_ctx: &Ctx, case: &Value) -> Report {
    install_stubs();
    let mut rep = Report::new(RULE);
    let Some(c) = Case::from_json(case) else {
        rep.engine_errors.push("C20 replay: cannot parse case".to_string());
        return rep;
    };
    rep.eval();
    let mut obs = Obs::default();
    let res = catch_unwind(AssertUnwindSafe(|| check(&c, &mut obs)));
    match res {
        Ok(Ok(())) => {}
        Ok(Err(v)) => rep.violation(&v.sig, v.msg, c.to_json()),
        Err(_) => rep.engine_errors.push("C20 replay: check panicked".to_string()),
    }
    rep
}
