//! C12 — least privilege: each delegated admin instruction changes only the state in its remit
//! (field-level diff of the whole account store), frozen banks keep their frozen settings under
//! every per-bank configuration instruction, and forced deleverage is bracketed, does not worsen
//! health and respects the group's daily dollar limit.
use crate::common::*;
use crate::model::*;
use crate::num::*;
use crate::svm::{err_code, Acct};
use crate::world::*;
use anchor_lang::{InstructionData, ToAccountMetas};
use fixed::types::I80F48;
use marginfi_type_crate::constants::{
    CLOSE_ENABLED_FLAG, EMISSIONS_AUTH_SEED, EMISSIONS_FLAG_BORROW_ACTIVE, EMISSIONS_FLAG_LENDING_ACTIVE, EMISSIONS_TOKEN_ACCOUNT_SEED, EMISSION_FLAGS, FREEZE_SETTINGS,
    METADATA_SEED, PERMISSIONLESS_BAD_DEBT_SETTLEMENT_FLAG, TOKENLESS_REPAYMENTS_ALLOWED, TOKENLESS_REPAYMENTS_COMPLETE,
};
use marginfi_type_crate::types::{
    Balance, Bank, BankConfigOpt, EmodeEntry, InterestRateConfigOpt, MarginfiAccount, MarginfiGroup, RatePoint, RiskTier, WrappedI80F48, ACCOUNT_IN_DELEVERAGE, ACCOUNT_IN_RECEIVERSHIP,
    MAX_EMODE_ENTRIES,
};
use num_traits::{Signed, ToPrimitive};
use proptest::prelude::*;
use serde::{Deserialize, Serialize};
use serde_json::{json, Value};
use solana_program::{
    instruction::{AccountMeta, Instruction},
    pubkey::Pubkey,
    system_program,
};
use std::collections::BTreeMap;
use std::mem::{offset_of, size_of};
use std::sync::{Arc, OnceLock};

// ==========================================================================================
// Field tables (name, offset) of the zero-copy accounts; sizes follow from the next offset, so
// every byte of the struct belongs to exactly one named field.
// ==========================================================================================
macro_rules! tbl {
    ($t:ty; $($($f:tt).+),* $(,)?) => {
        vec![ $( (stringify!($($f).+).replace(' ', ""), offset_of!($t, $($f).+)) ),* ]
    };
}

fn bank_table() -> &'static Vec<(String, usize)> {
    static T: OnceLock<Vec<(String, usize)>> = OnceLock::new();
    T.get_or_init(|| {
        let mut v: Vec<(String, usize)> = tbl![Bank;
            mint, mint_decimals, group, _pad0, asset_share_value, liability_share_value,
            liquidity_vault, liquidity_vault_bump, liquidity_vault_authority_bump,
            insurance_vault, insurance_vault_bump, insurance_vault_authority_bump, _pad1,
            collected_insurance_fees_outstanding, fee_vault, fee_vault_bump, fee_vault_authority_bump, _pad2,
            collected_group_fees_outstanding, total_liability_shares, total_asset_shares, last_update,
            config.asset_weight_init, config.asset_weight_maint, config.liability_weight_init, config.liability_weight_maint,
            config.deposit_limit,
            config.interest_rate_config.optimal_utilization_rate, config.interest_rate_config.plateau_interest_rate,
            config.interest_rate_config.max_interest_rate, config.interest_rate_config.insurance_fee_fixed_apr,
            config.interest_rate_config.insurance_ir_fee, config.interest_rate_config.protocol_fixed_fee_apr,
            config.interest_rate_config.protocol_ir_fee, config.interest_rate_config.protocol_origination_fee,
            config.interest_rate_config.zero_util_rate, config.interest_rate_config.hundred_util_rate,
            config.interest_rate_config.points, config.interest_rate_config.curve_type,
            config.interest_rate_config._pad0, config.interest_rate_config._padding1,
            config.interest_rate_config._padding2, config.interest_rate_config._padding3,
            config.operational_state, config.oracle_setup, config.oracle_keys, config._pad0, config.borrow_limit,
            config.risk_tier, config.asset_tag, config.config_flags, config._pad1, config.total_asset_value_init_limit,
            config.oracle_max_age, config._padding0, config.oracle_max_confidence, config.fixed_price, config._padding1,
            flags, emissions_rate, emissions_remaining, emissions_mint, collected_program_fees_outstanding,
            emode.emode_tag, emode.pad0, emode.timestamp, emode.flags, emode.emode_config,
            fees_destination_account,
            cache.base_rate, cache.lending_rate, cache.borrowing_rate, cache.interest_accumulated_for,
            cache.accumulated_since_last_update, cache.last_oracle_price, cache.last_oracle_price_timestamp,
            cache.last_oracle_price_confidence,
            lending_position_count, borrowing_position_count, _padding_0,
            integration_acc_1, integration_acc_2, integration_acc_3, _padding_1,
        ];
        v.sort_by_key(|x| x.1);
        v
    })
}

fn group_table() -> &'static Vec<(String, usize)> {
    static T: OnceLock<Vec<(String, usize)>> = OnceLock::new();
    T.get_or_init(|| {
        let mut v: Vec<(String, usize)> = tbl![MarginfiGroup;
            admin, group_flags, fee_state_cache, banks, pad0, emode_admin, delegate_curve_admin, delegate_limit_admin,
            delegate_emissions_admin, panic_state_cache,
            deleverage_withdraw_window_cache.daily_limit, deleverage_withdraw_window_cache.withdrawn_today,
            deleverage_withdraw_window_cache.last_daily_reset_timestamp,
            risk_admin, metadata_admin, emode_max_init_leverage, emode_max_maint_leverage, _padding, _padding_0, _padding_1,
        ];
        v.sort_by_key(|x| x.1);
        v
    })
}

fn bank_flag_name(bit: u32) -> String {
    let m = 1u64 << bit;
    if m == EMISSIONS_FLAG_BORROW_ACTIVE {
        "EMISSIONS_FLAG_BORROW_ACTIVE".into()
    } else if m == EMISSIONS_FLAG_LENDING_ACTIVE {
        "EMISSIONS_FLAG_LENDING_ACTIVE".into()
    } else if m == PERMISSIONLESS_BAD_DEBT_SETTLEMENT_FLAG {
        "PERMISSIONLESS_BAD_DEBT_SETTLEMENT".into()
    } else if m == FREEZE_SETTINGS {
        "FREEZE_SETTINGS".into()
    } else if m == CLOSE_ENABLED_FLAG {
        "CLOSE_ENABLED".into()
    } else if m == TOKENLESS_REPAYMENTS_ALLOWED {
        "TOKENLESS_REPAYMENTS_ALLOWED".into()
    } else if m == TOKENLESS_REPAYMENTS_COMPLETE {
        "TOKENLESS_REPAYMENTS_COMPLETE".into()
    } else {
        format!("bit{bit}")
    }
}

/// Names of the fields of a zero-copy account (8-byte discriminator + struct) that differ.
/// `flag_field`: the u64 field of that name is reported per changed bit as `<name>.<BIT>`.
fn diff_fields(table: &[(String, usize)], total: usize, pre: &[u8], post: &[u8], flag_field: Option<&str>) -> Vec<String> {
    let mut out = vec![];
    if pre.len() != post.len() || pre.len() != 8 + total {
        out.push("<account-size>".to_string());
        return out;
    }
    if pre[..8] != post[..8] {
        out.push("<discriminator>".to_string());
    }
    let (a, b) = (&pre[8..], &post[8..]);
    if table.first().map(|x| x.1) != Some(0) {
        out.push("<table>".into());
    }
    for (i, (name, off)) in table.iter().enumerate() {
        let end = if i + 1 < table.len() { table[i + 1].1 } else { total };
        if a[*off..end] == b[*off..end] {
            continue;
        }
        if Some(name.as_str()) == flag_field && end - off == 8 {
            let x = u64::from_le_bytes(a[*off..end].try_into().unwrap()) ^ u64::from_le_bytes(b[*off..end].try_into().unwrap());
            for bit in 0..64 {
                if x >> bit & 1 == 1 {
                    out.push(format!("{name}.{}", bank_flag_name(bit)));
                }
            }
        } else {
            out.push(name.clone());
        }
    }
    out
}

fn diff_bank(pre: &[u8], post: &[u8]) -> Vec<String> {
    diff_fields(bank_table(), size_of::<Bank>(), pre, post, Some("flags"))
}
fn diff_group(pre: &[u8], post: &[u8]) -> Vec<String> {
    diff_fields(group_table(), size_of::<MarginfiGroup>(), pre, post, None)
}

/// Field name used in signatures: sub-fields of a group collapse to the group, flag bits to the word.
fn sig_field(f: &str) -> String {
    for g in ["config.interest_rate_config", "emode", "cache"] {
        if f.starts_with(g) && (f.len() == g.len() || f.as_bytes()[g.len()] == b'.') {
            return g.to_string();
        }
    }
    if let Some(rest) = f.strip_prefix("flags.") {
        if rest == "FREEZE_SETTINGS" {
            return f.to_string();
        }
        return "flags".to_string();
    }
    f.to_string()
}

/// Derived / cache / timestamp fields every handler may refresh (B.3): the read-only rate and
/// price cache `cache.*` and the accrual timestamp `last_update`. (`emode.timestamp` lies inside
/// the e-mode admin's own remit and is allowed there only.)
fn derived_field(f: &str) -> bool {
    f.starts_with("cache.") || f == "last_update"
}

/// What the statement freezes: weights, oracle, interest curve, risk tier, collateral-value cap,
/// operational state (+ asset tag) and the freeze bit itself.
fn frozen_field(f: &str) -> bool {
    matches!(
        f,
        "config.asset_weight_init"
            | "config.asset_weight_maint"
            | "config.liability_weight_init"
            | "config.liability_weight_maint"
            | "config.oracle_setup"
            | "config.oracle_keys"
            | "config.oracle_max_age"
            | "config.oracle_max_confidence"
            | "config.fixed_price"
            | "config.risk_tier"
            | "config.total_asset_value_init_limit"
            | "config.operational_state"
            | "config.asset_tag"
            | "flags.FREEZE_SETTINGS"
    ) || f.starts_with("config.interest_rate_config.")
}

// ==========================================================================================
// Instruction constructors not in the world catalogue
// ==========================================================================================
fn mfi(accounts: Vec<AccountMeta>, data: Vec<u8>) -> Instruction {
    Instruction { program_id: marginfi::ID, accounts, data }
}
fn em_keys(bank: &Pubkey, mint: &Pubkey) -> (Pubkey, Pubkey) {
    (
        Pubkey::find_program_address(&[EMISSIONS_AUTH_SEED.as_bytes(), bank.as_ref(), mint.as_ref()], &marginfi::ID).0,
        Pubkey::find_program_address(&[EMISSIONS_TOKEN_ACCOUNT_SEED.as_bytes(), bank.as_ref(), mint.as_ref()], &marginfi::ID).0,
    )
}
fn metadata_key(bank: &Pubkey) -> Pubkey {
    Pubkey::find_program_address(&[METADATA_SEED.as_bytes(), bank.as_ref()], &marginfi::ID).0
}
#[allow(clippy::too_many_arguments)]
fn ix_setup_emissions(w: &World, bi: usize, mint: Pubkey, funding: Pubkey, token_program: Pubkey, signer: Pubkey, flags: u64, rate: u64, total: u64) -> Instruction {
    let bank = w.banks[bi].key;
    let (auth, vault) = em_keys(&bank, &mint);
    mfi(
        marginfi::accounts::LendingPoolSetupEmissions {
            group: w.group,
            delegate_emissions_admin: signer,
            bank,
            emissions_mint: mint,
            emissions_auth: auth,
            emissions_token_account: vault,
            emissions_funding_account: funding,
            token_program,
            system_program: system_program::ID,
        }
        .to_account_metas(Some(true)),
        marginfi::instruction::LendingPoolSetupEmissions { flags, rate, total_emissions: total }.data(),
    )
}
#[allow(clippy::too_many_arguments)]
fn ix_update_emissions(w: &World, bi: usize, mint: Pubkey, funding: Pubkey, token_program: Pubkey, signer: Pubkey, flags: Option<u64>, rate: Option<u64>, add: Option<u64>) -> Instruction {
    let bank = w.banks[bi].key;
    let (_, vault) = em_keys(&bank, &mint);
    mfi(
        marginfi::accounts::LendingPoolUpdateEmissionsParameters {
            group: w.group,
            delegate_emissions_admin: signer,
            bank,
            emissions_mint: mint,
            emissions_token_account: vault,
            emissions_funding_account: funding,
            token_program,
        }
        .to_account_metas(Some(true)),
        marginfi::instruction::LendingPoolUpdateEmissionsParameters { emissions_flags: flags, emissions_rate: rate, additional_emissions: add }.data(),
    )
}
fn ix_init_metadata(w: &World, bi: usize, payer: Pubkey) -> Instruction {
    let bank = w.banks[bi].key;
    mfi(
        marginfi::accounts::InitBankMetadata { bank, fee_payer: payer, metadata: metadata_key(&bank), system_program: system_program::ID }.to_account_metas(Some(true)),
        marginfi::instruction::InitBankMetadata {}.data(),
    )
}
fn ix_write_metadata(w: &World, bi: usize, signer: Pubkey, ticker: Option<Vec<u8>>, description: Option<Vec<u8>>) -> Instruction {
    let bank = w.banks[bi].key;
    mfi(
        marginfi::accounts::WriteBankMetadata { group: w.group, bank, metadata_admin: signer, metadata: metadata_key(&bank) }.to_account_metas(Some(true)),
        marginfi::instruction::WriteBankMetadata { ticker, description }.data(),
    )
}
fn ix_force_tokenless(w: &World, bi: usize, signer: Pubkey) -> Instruction {
    mfi(
        marginfi::accounts::LendingPoolForceTokenlessRepayComplete { group: w.group, risk_admin: signer, bank: w.banks[bi].key }.to_account_metas(Some(true)),
        marginfi::instruction::LendingPoolForceTokenlessRepayComplete {}.data(),
    )
}
fn ix_purge(w: &World, bi: usize, macct: Pubkey, signer: Pubkey) -> Instruction {
    mfi(
        marginfi::accounts::LendingAccountPurgeDelevBalance { group: w.group, marginfi_account: macct, risk_admin: signer, bank: w.banks[bi].key }.to_account_metas(Some(true)),
        marginfi::instruction::PurgeDeleverageBalance {}.data(),
    )
}
fn ix_delev_limit(w: &World, limit: u32, signer: Pubkey) -> Instruction {
    mfi(
        marginfi::accounts::ConfigureDeleverageWithdrawalLimit { marginfi_group: w.group, admin: signer }.to_account_metas(Some(true)),
        marginfi::instruction::ConfigureDeleverageWithdrawalLimit { limit }.data(),
    )
}
fn ix_emode_raw(w: &World, bi: usize, tag: u16, entries: [EmodeEntry; MAX_EMODE_ENTRIES], signer: Pubkey) -> Instruction {
    mfi(
        marginfi::accounts::LendingPoolConfigureBankEmode { group: w.group, emode_admin: signer, bank: w.banks[bi].key }.to_account_metas(Some(true)),
        marginfi::instruction::LendingPoolConfigureBankEmode { emode_tag: tag, entries }.data(),
    )
}

fn wbits(s: &str) -> WrappedI80F48 {
    I80F48::from_bits(s.parse::<i128>().unwrap_or(0)).into()
}
fn mill_i(x: i64) -> WrappedI80F48 {
    (I80F48::from_num(x) / I80F48::from_num(1_000_000)).into()
}

// ==========================================================================================
// Cases for parts A (frames) and B (frozen banks)
// ==========================================================================================
#[derive(Clone, Debug, Serialize, Deserialize, PartialEq)]
pub struct Pre {
    /// token kind per bank (0 SPL, 1 Token-2022, 2 Token-2022 with transfer fee)
    pub tok: [u8; 3],
    /// oracle kind per bank (0 fixed, 1 Pyth, 2 Switchboard)
    pub orc: [u8; 3],
    /// target bank
    pub t: u8,
    pub freeze: bool,
    pub perm: bool,
    pub tl_allowed: bool,
    pub tl_complete: bool,
    /// emissions already set up on the target before the flags are configured: (flags 0..4, rate, total)
    pub em: Option<(u8, u64, u64)>,
    /// emissions mint kind (0 SPL, 1 Token-2022, 2 Token-2022 with transfer fee)
    pub em_kind: u8,
    /// metadata account already initialised
    pub meta: bool,
    /// seconds between the last user operation and the admin instruction
    pub wait: u32,
}

#[derive(Clone, Debug, Serialize, Deserialize, PartialEq, Default)]
pub struct IrOpt {
    /// I80F48 bits as decimal strings
    pub ins_fixed: Option<String>,
    pub ins_ir: Option<String>,
    pub prot_fixed: Option<String>,
    pub prot_ir: Option<String>,
    pub orig: Option<String>,
    pub zero: Option<u32>,
    pub hundred: Option<u32>,
    pub points: Option<Vec<(u32, u32)>>,
}
impl IrOpt {
    fn to_opt(&self) -> InterestRateConfigOpt {
        let f = |x: &Option<String>| x.as_ref().map(|s| wbits(s));
        InterestRateConfigOpt {
            insurance_fee_fixed_apr: f(&self.ins_fixed),
            insurance_ir_fee: f(&self.ins_ir),
            protocol_fixed_fee_apr: f(&self.prot_fixed),
            protocol_ir_fee: f(&self.prot_ir),
            protocol_origination_fee: f(&self.orig),
            zero_util_rate: self.zero,
            hundred_util_rate: self.hundred,
            points: self.points.as_ref().map(|p| {
                let mut out = [RatePoint::default(); 5];
                for (i, (u, r)) in p.iter().take(5).enumerate() {
                    out[i] = RatePoint::new(*u, *r);
                }
                out
            }),
        }
    }
    fn shape(&self) -> u32 {
        [self.ins_fixed.is_some(), self.ins_ir.is_some(), self.prot_fixed.is_some(), self.prot_ir.is_some(), self.orig.is_some(), self.zero.is_some(), self.hundred.is_some(), self.points.is_some()]
            .iter()
            .enumerate()
            .fold(0, |a, (i, b)| a | ((*b as u32) << i))
    }
}

#[derive(Clone, Debug, Serialize, Deserialize, PartialEq)]
pub struct EEntry {
    pub tag: u16,
    pub flags: u8,
    /// byte written into every padding byte of the entry
    pub pad: u8,
    /// millionths
    pub init: i64,
    pub maint: i64,
}

#[derive(Clone, Debug, Serialize, Deserialize, PartialEq, Default)]
pub struct CfgOpt {
    /// weights in millionths
    pub aw_i: Option<i64>,
    pub aw_m: Option<i64>,
    pub lw_i: Option<i64>,
    pub lw_m: Option<i64>,
    pub dep: Option<u64>,
    pub bor: Option<u64>,
    pub op_state: Option<u8>,
    pub ir: Option<IrOpt>,
    pub risk_tier: Option<u8>,
    pub asset_tag: Option<u8>,
    pub init_limit: Option<u64>,
    pub max_conf: Option<u32>,
    pub max_age: Option<u16>,
    pub perm: Option<bool>,
    pub freeze: Option<bool>,
    pub tokenless: Option<bool>,
}
impl CfgOpt {
    fn to_opt(&self) -> BankConfigOpt {
        BankConfigOpt {
            asset_weight_init: self.aw_i.map(mill_i),
            asset_weight_maint: self.aw_m.map(mill_i),
            liability_weight_init: self.lw_i.map(mill_i),
            liability_weight_maint: self.lw_m.map(mill_i),
            deposit_limit: self.dep,
            borrow_limit: self.bor,
            operational_state: self.op_state.map(op_state),
            interest_rate_config: self.ir.as_ref().map(|i| i.to_opt()),
            risk_tier: self.risk_tier.map(|x| if x == 1 { RiskTier::Isolated } else { RiskTier::Collateral }),
            asset_tag: self.asset_tag,
            total_asset_value_init_limit: self.init_limit,
            oracle_max_confidence: self.max_conf,
            oracle_max_age: self.max_age,
            permissionless_bad_debt_settlement: self.perm,
            freeze_settings: self.freeze,
            tokenless_repayments_allowed: self.tokenless,
        }
    }
    fn shape(&self) -> u32 {
        [
            self.aw_i.is_some(),
            self.aw_m.is_some(),
            self.lw_i.is_some(),
            self.lw_m.is_some(),
            self.dep.is_some(),
            self.bor.is_some(),
            self.op_state.is_some(),
            self.ir.is_some(),
            self.risk_tier.is_some(),
            self.asset_tag.is_some(),
            self.init_limit.is_some(),
            self.max_conf.is_some(),
            self.max_age.is_some(),
            self.perm.is_some(),
            self.freeze.is_some(),
            self.tokenless.is_some(),
        ]
        .iter()
        .enumerate()
        .fold(0, |a, (i, b)| a | ((*b as u32) << i))
    }
    /// some argument names a setting the statement freezes
    fn names_frozen_setting(&self) -> bool {
        self.shape() & !0b1010_0000_0011_0000 != 0
    }
}

#[derive(Clone, Debug, Serialize, Deserialize, PartialEq)]
pub enum Op {
    InterestOnly { ir: IrOpt },
    LimitsOnly { dep: Option<u64>, bor: Option<u64>, init: Option<u64> },
    Emode { tag: u16, entries: Vec<EEntry> },
    CloneEmode { from: u8, by_admin: bool },
    SetupEmissions { flags: u64, rate: u64, total: u64 },
    UpdateEmissions { flags: Option<u64>, rate: Option<u64>, add: Option<u64> },
    MetaInit { payer: u8 },
    MetaWrite { ticker: Option<(u8, u8)>, desc: Option<(u16, u8)> },
    ForceTokenless,
    Purge { user: u8 },
    ConfigureBank { cfg: CfgOpt },
    ConfigOracle { setup: u8, which: u8 },
    FixedPrice { price: String },
}
impl Op {
    pub fn ix_name(&self) -> &'static str {
        match self {
            Op::InterestOnly { .. } => "configure_bank_interest_only",
            Op::LimitsOnly { .. } => "configure_bank_limits_only",
            Op::Emode { .. } => "configure_bank_emode",
            Op::CloneEmode { .. } => "clone_emode",
            Op::SetupEmissions { .. } => "setup_emissions",
            Op::UpdateEmissions { .. } => "update_emissions_parameters",
            Op::MetaInit { .. } => "init_bank_metadata",
            Op::MetaWrite { .. } => "write_bank_metadata",
            Op::ForceTokenless => "force_tokenless_repay_complete",
            Op::Purge { .. } => "purge_deleverage_balance",
            Op::ConfigureBank { .. } => "configure_bank",
            Op::ConfigOracle { .. } => "configure_bank_oracle",
            Op::FixedPrice { .. } => "set_fixed_oracle_price",
        }
    }
    /// the argument carries a bit / field outside the role's remit
    fn out_of_remit(&self) -> bool {
        match self {
            Op::SetupEmissions { flags, .. } => flags & !EMISSION_FLAGS != 0,
            Op::UpdateEmissions { flags: Some(f), .. } => f & !EMISSION_FLAGS != 0,
            Op::Emode { entries, .. } => entries.iter().any(|e| e.pad != 0 || e.flags & !1 != 0),
            _ => false,
        }
    }
    /// argument shape for the distinct-case count
    fn shape(&self) -> String {
        let o = |b: bool| if b { '1' } else { '0' };
        let cls = |x: u64| -> &'static str {
            match x {
                0 => "0",
                1 => "1",
                u64::MAX => "max",
                _ => "x",
            }
        };
        match self {
            Op::InterestOnly { ir } => format!("ir{:02x}", ir.shape()),
            Op::LimitsOnly { dep, bor, init } => format!("lim{}{}{}", dep.map(cls).unwrap_or("-"), bor.map(cls).unwrap_or("-"), init.map(cls).unwrap_or("-")),
            Op::Emode { tag, entries } => format!("em{}n{}p{}", (*tag != 0) as u8, entries.len(), o(entries.iter().any(|e| e.pad != 0))),
            Op::CloneEmode { from, by_admin } => format!("cl{from}{}", o(*by_admin)),
            Op::SetupEmissions { flags, rate, total } => format!("se{flags:x}r{}t{}", cls(*rate), cls(*total)),
            Op::UpdateEmissions { flags, rate, add } => format!("ue{}r{}a{}", flags.map(|f| format!("{f:x}")).unwrap_or("-".into()), rate.map(cls).unwrap_or("-"), add.map(cls).unwrap_or("-")),
            Op::MetaInit { payer } => format!("mi{payer}"),
            Op::MetaWrite { ticker, desc } => format!("mw{:?}{:?}", ticker.map(|t| t.0), desc.map(|d| d.0)),
            Op::ForceTokenless => "ft".into(),
            Op::Purge { user } => format!("pg{user}"),
            Op::ConfigureBank { cfg } => format!("cb{:04x}", cfg.shape()),
            Op::ConfigOracle { setup, which } => format!("co{setup}w{which}"),
            Op::FixedPrice { price } => format!("fp{}", price.len()),
        }
    }
}

#[derive(Clone, Debug, Serialize, Deserialize, PartialEq)]
pub struct Case {
    /// 0 = part A (frame of a delegated-admin instruction), 1 = part B (frozen bank)
    pub part: u8,
    pub pre: Pre,
    pub op: Op,
}

// ------------------------------------------------------------------------------------------
// World for parts A/B: three banks with live positions
// ------------------------------------------------------------------------------------------
const FUND: u64 = 1 << 62;

fn oracle_for(kind: u8, mant: i64) -> OracleSpec {
    match kind {
        0 => OracleSpec::fixed(mant, -6),
        k => OracleSpec { kind: k, mant, expo: -6, conf: (mant / 200) as u64, ema_mant: mant, ema_conf: (mant / 200) as u64, max_age: 100, max_conf: 0 },
    }
}

fn ab_spec(tok: &[u8; 3], orc: &[u8; 3]) -> WorldSpec {
    let curve = |pts: Vec<(u32, u32)>| CurveSpec { zero: 10_000_000, hundred: 2_000_000_000, points: pts, ins_fixed: 5_000, ins_ir: 50_000, prot_fixed: 3_000, prot_ir: 40_000, orig: 1_000 };
    let mk = |i: usize, decimals: u8, mant: i64, emode_tag: u16, entries: Vec<EmodeEntrySpec>, init_limit: u64, pts: Vec<(u32, u32)>| BankSpec {
        decimals,
        token: tok[i].min(2),
        fee_bps: if tok[i] >= 2 { 100 } else { 0 },
        fee_max: if tok[i] >= 2 { 5_000 } else { 0 },
        aw_i: 500_000,
        aw_m: 750_000,
        lw_i: 1_500_000,
        lw_m: 1_250_000,
        isolated: false,
        deposit_limit: u64::MAX,
        borrow_limit: u64::MAX,
        init_limit,
        curve: curve(pts),
        oracle: oracle_for(orc[i].min(2), mant),
        emode_tag,
        emode_entries: entries,
        asset_tag: 0,
        op_state: 1,
        permissionless_bad_debt: false,
        staked: None,
    };
    WorldSpec {
        banks: vec![
            // bank 0 has never been through configure_bank_emode: the first e-mode write on it is the tested one
            mk(0, 6, 2_000_000, 0, vec![], 0, vec![]),
            mk(1, 9, 1_000_000, 0, vec![EmodeEntrySpec { tag: 7, flags: 0, init: 800_000, maint: 900_000 }], 0, vec![(1_500_000_000, 100_000_000), (3_000_000_000, 500_000_000)]),
            mk(2, 8, 10_000_000, 9, vec![EmodeEntrySpec { tag: 7, flags: 1, init: 600_000, maint: 700_000 }, EmodeEntrySpec { tag: 9, flags: 0, init: 850_000, maint: 950_000 }], 1_000_000, vec![]),
        ],
        n_users: 3,
        ..WorldSpec::default()
    }
}

/// Base world: positions so that balances, totals and vaults are non-trivial in every bank.
fn ab_base(tok: &[u8; 3], orc: &[u8; 3]) -> Option<World> {
    let mut w = World::build(&ab_spec(tok, orc)).ok()?;
    let u: Vec<UserInfo> = w.users.clone();
    let steps: Vec<Instruction> = vec![
        w.ix_deposit(u[0].accts[0], u[0].auth, 0, u[0].tokens[0], 1_000_000_000, None),
        w.ix_deposit(u[1].accts[0], u[1].auth, 1, u[1].tokens[1], 10_000_000_000_000, None),
        w.ix_deposit(u[1].accts[0], u[1].auth, 2, u[1].tokens[2], 5_000_000_000, None),
        w.ix_deposit(u[2].accts[0], u[2].auth, 2, u[2].tokens[2], 500_000_000, None),
        w.ix_deposit(u[2].accts[0], u[2].auth, 0, u[2].tokens[0], 3_000_000, None),
        w.ix_deposit(u[2].accts[0], u[2].auth, 1, u[2].tokens[1], 7_000_000_000, None),
    ];
    for ix in steps {
        w.vm.exec(&ix).ok()?;
    }
    w.vm.advance(17);
    w.refresh_oracles();
    // borrowers (best effort: the frame checks do not depend on them)
    let mut borrows = 0;
    for (ui, bi, amt) in [(0usize, 1usize, 100_000_000_000u64), (1, 0, 10_000_000), (0, 2, 100_000_000)] {
        let ix = w.ix_borrow(u[ui].accts[0], u[ui].auth, bi, u[ui].tokens[bi], amt);
        if w.vm.exec(&ix).is_ok() {
            borrows += 1;
        }
    }
    if borrows == 0 {
        return None;
    }
    Some(w)
}

pub type Cache = BTreeMap<([u8; 3], [u8; 3]), Option<World>>;

fn em_mint_key() -> Pubkey {
    kp("c12_emint", 0)
}
fn em_fund_key() -> Pubkey {
    kp("c12_efund", 0)
}
fn em_token_program(kind: u8) -> Pubkey {
    if kind == 0 {
        spl_token::ID
    } else {
        spl_token_2022::ID
    }
}

/// Apply the pre-state: emissions mint + funding account, optional emissions set-up, flags via
/// configure_bank (group admin), tokenless-complete via the risk admin, metadata account, wait.
fn apply_pre(w: &mut World, pre: &Pre) -> Option<()> {
    let t = pre.t as usize % 3;
    let mint = em_mint_key();
    let fund = em_fund_key();
    match pre.em_kind {
        0 => {
            w.vm.set(mint, spl_mint_acct(6));
            w.vm.set(fund, spl_token_acct(mint, w.roles.emissions, FUND));
        }
        k => {
            let m = t22_mint_acct(6, if k >= 2 { Some((150, 7_000)) } else { None });
            let a = t22_token_acct(&m.data, mint, w.roles.emissions, FUND);
            w.vm.set(mint, m);
            w.vm.set(fund, a);
        }
    }
    if let Some((f, rate, total)) = pre.em {
        let ix = ix_setup_emissions(w, t, mint, fund, em_token_program(pre.em_kind), w.roles.emissions, (f & 3) as u64, rate, total);
        w.vm.exec(&ix).ok()?;
    }
    if pre.perm || pre.tl_allowed || pre.freeze {
        let mut o = BankConfigOpt::default();
        if pre.perm {
            o.permissionless_bad_debt_settlement = Some(true);
        }
        if pre.tl_allowed {
            o.tokenless_repayments_allowed = Some(true);
        }
        if pre.freeze {
            o.freeze_settings = Some(true);
        }
        let ix = w.ix_configure_bank(t, o, w.roles.admin);
        w.vm.exec(&ix).ok()?;
    }
    if pre.tl_allowed && pre.tl_complete {
        let ix = ix_force_tokenless(w, t, w.roles.risk);
        w.vm.exec(&ix).ok()?;
    }
    if pre.meta {
        let ix = ix_init_metadata(w, t, w.roles.stranger);
        w.vm.exec(&ix).ok()?;
    }
    w.vm.advance(pre.wait as i64);
    w.refresh_oracles();
    Some(())
}

// ------------------------------------------------------------------------------------------
// The frame of each instruction
// ------------------------------------------------------------------------------------------
struct Frame {
    /// accounts (other than the target bank) that may change freely / be created
    free: Vec<Pubkey>,
    /// accounts of which only the lamports may change (payers)
    lamports_only: Vec<Pubkey>,
    /// purge: (marginfi account, bank) whose balance is dropped
    purge: Option<(Pubkey, Pubkey)>,
}

fn bank_field_allowed(op: &Op, f: &str) -> bool {
    if derived_field(f) {
        return true;
    }
    match op {
        // curve admin: interest-rate parameters (fee fields + curve fields; curve_type counts as curve)
        Op::InterestOnly { .. } => f.starts_with("config.interest_rate_config."),
        // limit admin: deposit / borrow / collateral-value limits
        Op::LimitsOnly { .. } => matches!(f, "config.deposit_limit" | "config.borrow_limit" | "config.total_asset_value_init_limit"),
        // e-mode admin (clone: also the group admin): e-mode settings
        Op::Emode { .. } | Op::CloneEmode { .. } => f.starts_with("emode."),
        // emissions admin: rate, mint, remaining amount and the two emissions flags
        Op::SetupEmissions { .. } | Op::UpdateEmissions { .. } => {
            matches!(f, "emissions_rate" | "emissions_mint" | "emissions_remaining" | "flags.EMISSIONS_FLAG_BORROW_ACTIVE" | "flags.EMISSIONS_FLAG_LENDING_ACTIVE")
        }
        // metadata admin: only the metadata account
        Op::MetaInit { .. } | Op::MetaWrite { .. } => false,
        // risk admin: what deleveraging needs
        Op::ForceTokenless => f == "flags.TOKENLESS_REPAYMENTS_COMPLETE",
        Op::Purge { .. } => matches!(f, "total_asset_shares" | "lending_position_count"),
        // group admin instructions have no frame here (part B only)
        Op::ConfigureBank { .. } | Op::ConfigOracle { .. } | Op::FixedPrice { .. } => true,
    }
}

fn classify(w: &World, k: &Pubkey, a: Option<&Acct>) -> String {
    if *k == w.group {
        return "group".into();
    }
    if *k == w.fee_state {
        return "fee_state".into();
    }
    if *k == w.fee_wallet {
        return "fee_wallet".into();
    }
    for b in &w.banks {
        if *k == b.key {
            return "other_bank".into();
        }
        if *k == b.lv || *k == b.iv || *k == b.fv {
            return "bank_vault".into();
        }
        if *k == b.fee_ata {
            return "fee_ata".into();
        }
        if *k == b.mint {
            return "mint".into();
        }
        if *k == b.oracle_key {
            return "oracle".into();
        }
    }
    for u in &w.users {
        if u.accts.contains(k) {
            return "marginfi_account".into();
        }
        if u.tokens.contains(k) {
            return "user_token_account".into();
        }
        if *k == u.auth {
            return "user_wallet".into();
        }
    }
    let r = &w.roles;
    for (n, x) in [("admin", r.admin), ("emode_admin", r.emode), ("curve_admin", r.curve), ("limit_admin", r.limit), ("emissions_admin", r.emissions), ("metadata_admin", r.metadata), ("risk_admin", r.risk), ("fee_admin", r.fee_admin), ("stranger", r.stranger)] {
        if *k == x {
            return format!("wallet_{n}");
        }
    }
    match a {
        Some(a) if a.owner == spl_token::ID || a.owner == spl_token_2022::ID => "token_account".into(),
        Some(a) if a.owner == marginfi::ID => "program_account".into(),
        _ => "account".into(),
    }
}

fn balance_bytes(b: &Balance) -> Vec<u8> {
    bytemuck::bytes_of(b).to_vec()
}

/// purge: only that account's balance in that bank may go; every other balance is kept
/// (slots may be re-ordered by the sort), `last_update` may be refreshed, nothing else changes.
fn purge_account_diff(pre: &Acct, post: &Acct, bank: &Pubkey) -> Vec<String> {
    let mut out = vec![];
    let n = size_of::<MarginfiAccount>();
    if pre.owner != post.owner || pre.lamports != post.lamports || pre.data.len() != post.data.len() || pre.data.len() != 8 + n || pre.data[..8] != post.data[..8] {
        out.push("marginfi_account.<header>".into());
        return out;
    }
    let a: MarginfiAccount = bytemuck::pod_read_unaligned(&pre.data[8..]);
    let b: MarginfiAccount = bytemuck::pod_read_unaligned(&post.data[8..]);
    // everything outside lending_account.balances and last_update must be identical
    let mut a2 = a;
    let mut b2 = b;
    a2.lending_account.balances = b2.lending_account.balances;
    a2.last_update = 0;
    b2.last_update = 0;
    if bytemuck::bytes_of(&a2) != bytemuck::bytes_of(&b2) {
        out.push("marginfi_account.<other-field>".into());
    }
    let mut keep: Vec<Vec<u8>> = a.lending_account.balances.iter().filter(|x| x.active != 0 && x.bank_pk != *bank).map(balance_bytes).collect();
    let mut have: Vec<Vec<u8>> = b.lending_account.balances.iter().filter(|x| x.active != 0).map(balance_bytes).collect();
    keep.sort();
    have.sort();
    if keep != have {
        out.push("marginfi_account.<other-balance>".into());
    }
    out
}

/// All frame violations of one successful instruction: (signature field, detail)
fn frame_violations(w: &World, op: &Op, target: &Pubkey, fr: &Frame, pre: &BTreeMap<Pubkey, Arc<Acct>>, post: &BTreeMap<Pubkey, Arc<Acct>>) -> Vec<(String, String)> {
    let mut out: Vec<(String, String)> = vec![];
    let mut keys: Vec<Pubkey> = pre.keys().copied().collect();
    for k in post.keys() {
        if !pre.contains_key(k) {
            keys.push(*k);
        }
    }
    for k in keys {
        let (a, b) = (pre.get(&k), post.get(&k));
        match (a, b) {
            (Some(x), Some(y)) if Arc::ptr_eq(x, y) || **x == **y => continue,
            _ => {}
        }
        if k == *target {
            let (Some(x), Some(y)) = (a, b) else {
                out.push(("<bank-account>".into(), "target bank account created or removed".into()));
                continue;
            };
            if x.lamports != y.lamports || x.owner != y.owner {
                out.push(("<bank-account>".into(), "target bank lamports/owner changed".into()));
            }
            let mut bad_flags: Vec<String> = vec![];
            for f in diff_bank(&x.data, &y.data) {
                if bank_field_allowed(op, &f) {
                    continue;
                }
                if f.starts_with("flags.") {
                    bad_flags.push(f);
                } else {
                    out.push((sig_field(&f), format!("target bank field `{f}` changed")));
                }
            }
            if !bad_flags.is_empty() {
                let (fa, fb) = (read_bank_flags(&x.data), read_bank_flags(&y.data));
                out.push(("flags".into(), format!("target bank flags {fa:#b} -> {fb:#b}: bits outside the remit changed: {}", bad_flags.join(", "))));
            }
            continue;
        }
        if fr.free.contains(&k) {
            continue;
        }
        if fr.lamports_only.contains(&k) {
            if let (Some(x), Some(y)) = (a, b) {
                if x.data == y.data && x.owner == y.owner {
                    continue;
                }
            }
            out.push((format!("{}.<data>", classify(w, &k, b.map(|x| x.as_ref()))), format!("payer account {k} changed beyond lamports")));
            continue;
        }
        if let Some((acct, bank)) = fr.purge {
            if k == acct {
                if let (Some(x), Some(y)) = (a, b) {
                    for f in purge_account_diff(x, y, &bank) {
                        out.push((f.clone(), format!("purge target account: {f} changed")));
                    }
                    continue;
                }
            }
        }
        let class = classify(w, &k, b.or(a).map(|x| x.as_ref()));
        if k == w.group {
            if let (Some(x), Some(y)) = (a, b) {
                for f in diff_group(&x.data, &y.data) {
                    out.push((format!("group.{f}"), format!("group field `{f}` changed")));
                }
                if x.lamports != y.lamports {
                    out.push(("group.<lamports>".into(), "group lamports changed".into()));
                }
                continue;
            }
        }
        if class == "other_bank" {
            if let (Some(x), Some(y)) = (a, b) {
                let fs = diff_bank(&x.data, &y.data);
                out.push((format!("other_bank.{}", fs.first().map(|f| sig_field(f)).unwrap_or("<lamports>".into())), format!("another bank {k} changed: {}", fs.join(", "))));
                continue;
            }
        }
        let how = match (a, b) {
            (None, Some(_)) => "created",
            (Some(_), None) => "removed",
            (Some(x), Some(y)) if x.data == y.data && x.owner == y.owner => "lamports changed",
            _ => "data changed",
        };
        out.push((class.clone(), format!("{class} {k} {how}")));
    }
    out.sort();
    out
}

fn read_bank_flags(data: &[u8]) -> u64 {
    let off = 8 + offset_of!(Bank, flags);
    if data.len() < off + 8 {
        return 0;
    }
    u64::from_le_bytes(data[off..off + 8].try_into().unwrap())
}

#[derive(Default, Debug, Clone)]
pub struct Stats {
    pub built: bool,
    pub ok: bool,
    pub err: Option<u64>,
    pub frozen: bool,
    pub flags_pre: u64,
    pub changed: Vec<String>,
}

/// Build the instruction of `op` against the prepared world, together with its frame.
fn build_op(w: &mut World, pre: &Pre, op: &Op) -> (Instruction, Frame) {
    let t = pre.t as usize % 3;
    let mut fr = Frame { free: vec![], lamports_only: vec![], purge: None };
    let r = w.roles.clone();
    let ix = match op {
        Op::InterestOnly { ir } => w.ix_configure_interest_only(t, ir.to_opt(), r.curve),
        Op::LimitsOnly { dep, bor, init } => w.ix_configure_limits_only(t, *dep, *bor, *init, r.limit),
        Op::Emode { tag, entries } => {
            let zero = EmodeEntry { collateral_bank_emode_tag: 0, flags: 0, pad0: [0; 5], asset_weight_init: I80F48::ZERO.into(), asset_weight_maint: I80F48::ZERO.into() };
            let mut es = [zero; MAX_EMODE_ENTRIES];
            for (i, e) in entries.iter().take(MAX_EMODE_ENTRIES).enumerate() {
                es[i] = EmodeEntry { collateral_bank_emode_tag: e.tag, flags: e.flags, pad0: [e.pad; 5], asset_weight_init: mill_i(e.init), asset_weight_maint: mill_i(e.maint) };
            }
            ix_emode_raw(w, t, *tag, es, r.emode)
        }
        Op::CloneEmode { from, by_admin } => {
            let src = (t + 1 + (*from as usize % 2)) % 3;
            w.ix_clone_emode(src, t, if *by_admin { r.admin } else { r.emode })
        }
        Op::SetupEmissions { flags, rate, total } => {
            let (_, vault) = em_keys(&w.banks[t].key, &em_mint_key());
            fr.free = vec![vault, em_fund_key()];
            fr.lamports_only = vec![r.emissions];
            ix_setup_emissions(w, t, em_mint_key(), em_fund_key(), em_token_program(pre.em_kind), r.emissions, *flags, *rate, *total)
        }
        Op::UpdateEmissions { flags, rate, add } => {
            let (_, vault) = em_keys(&w.banks[t].key, &em_mint_key());
            fr.free = vec![vault, em_fund_key()];
            ix_update_emissions(w, t, em_mint_key(), em_fund_key(), em_token_program(pre.em_kind), r.emissions, *flags, *rate, *add)
        }
        Op::MetaInit { payer } => {
            let p = match payer % 3 {
                0 => r.stranger,
                1 => r.metadata,
                _ => r.admin,
            };
            fr.free = vec![metadata_key(&w.banks[t].key)];
            fr.lamports_only = vec![p];
            ix_init_metadata(w, t, p)
        }
        Op::MetaWrite { ticker, desc } => {
            fr.free = vec![metadata_key(&w.banks[t].key)];
            ix_write_metadata(w, t, r.metadata, ticker.map(|(n, f)| vec![f; n as usize]), desc.map(|(n, f)| vec![f; n as usize]))
        }
        Op::ForceTokenless => ix_force_tokenless(w, t, r.risk),
        Op::Purge { user } => {
            let a = w.users[*user as usize % w.users.len()].accts[0];
            fr.purge = Some((a, w.banks[t].key));
            ix_purge(w, t, a, r.risk)
        }
        Op::ConfigureBank { cfg } => w.ix_configure_bank(t, cfg.to_opt(), r.admin),
        Op::ConfigOracle { setup, which } => {
            let key = match which % 3 {
                0 => {
                    let k = kp("c12_alt_pyth", 0);
                    w.vm.set(k, pyth_acct(3_000_000, 1_000, -6, 3_000_000, 1_000, w.vm.now()));
                    k
                }
                1 => {
                    let k = kp("c12_alt_swb", 0);
                    w.vm.set(k, swb_acct(3_000_000_000_000_000_000, 1_000_000_000_000_000, w.vm.now()));
                    k
                }
                _ => w.banks[(t + 1) % 3].oracle_key,
            };
            w.ix_config_oracle(t, *setup, key, r.admin)
        }
        Op::FixedPrice { price } => w.ix_set_fixed_price(t, wbits(price), r.admin),
    };
    (ix, fr)
}

pub fn run_case(c: &Case, cache: &mut Cache, st: &mut Stats) -> Result<(), (String, String)> {
    let key = (c.pre.tok, c.pre.orc);
    let base = cache.entry(key).or_insert_with(|| ab_base(&c.pre.tok, &c.pre.orc));
    let Some(mut w) = base.clone() else { return Ok(()) };
    if apply_pre(&mut w, &c.pre).is_none() {
        return Ok(());
    }
    st.built = true;
    let t = c.pre.t as usize % 3;
    let target = w.banks[t].key;
    let (ix, fr) = build_op(&mut w, &c.pre, &c.op);
    let pre_store = w.vm.accts.clone();
    let b_pre = w.bank(t);
    st.flags_pre = b_pre.flags;
    st.frozen = b_pre.flags & FREEZE_SETTINGS != 0;
    if let Err(e) = w.vm.exec(&ix) {
        st.err = Some(err_code(&e));
        return Ok(());
    }
    st.ok = true;
    let post_store = w.vm.accts.clone();
    let name = c.op.ix_name();
    if let (Some(x), Some(y)) = (pre_store.get(&target), post_store.get(&target)) {
        st.changed = diff_bank(&x.data, &y.data).iter().map(|f| sig_field(f)).collect();
        st.changed.dedup();
    }
    // a lender's balance may be purged only once the bank's sunset is complete (every debt discharged): before that,
    // wiping a balance is not something deleveraging needs
    if let Op::Purge { .. } = c.op {
        if b_pre.flags & marginfi_type_crate::constants::TOKENLESS_REPAYMENTS_COMPLETE == 0 {
            return Err((
                format!("frame:{name}:bank-sunset-not-complete"),
                format!("{name} by the risk admin succeeded on a bank that is not flagged TOKENLESS_REPAYMENTS_COMPLETE (flags before {:#b}): a user balance was wiped while the bank's debts are not discharged", b_pre.flags),
            ));
        }
    }
    // "repayments complete" may only be forced on a bank the group admin has put into sunset (tokenless repayments allowed)
    if let Op::ForceTokenless = c.op {
        let post_flags = w.bank(t).flags;
        let allowed = marginfi_type_crate::constants::TOKENLESS_REPAYMENTS_ALLOWED;
        let complete = marginfi_type_crate::constants::TOKENLESS_REPAYMENTS_COMPLETE;
        if b_pre.flags & allowed == 0 && b_pre.flags & complete == 0 && post_flags & complete != 0 {
            return Err((
                format!("frame:{name}:bank-not-in-sunset"),
                format!("{name} by the risk admin marked a bank complete that the group admin never put into sunset (flags {:#b} -> {:#b}): its lenders can now be purged", b_pre.flags, post_flags),
            ));
        }
    }
    if c.part == 0 {
        let v = frame_violations(&w, &c.op, &target, &fr, &pre_store, &post_store);
        if let Some((f, d)) = v.first() {
            let all: Vec<&str> = v.iter().map(|x| x.0.as_str()).collect();
            return Err((
                format!("frame:{name}:{f}"),
                format!("{name} by its delegated admin succeeded and changed state outside its remit: {d} (bank flags before {:#b}; all out-of-frame changes: {})", b_pre.flags, all.join(", ")),
            ));
        }
    } else if st.frozen {
        let (Some(x), Some(y)) = (pre_store.get(&target), post_store.get(&target)) else {
            return Err((format!("frozen:{name}:<bank-account>"), "frozen bank account removed".into()));
        };
        let bad: Vec<String> = diff_bank(&x.data, &y.data).into_iter().filter(|f| frozen_field(f)).collect();
        if let Some(f) = bad.first() {
            return Err((
                format!("frozen:{name}:{}", sig_field(f)),
                format!("{name} succeeded on a bank with FREEZE_SETTINGS set (flags {:#b} -> {:#b}) and changed frozen setting(s): {}", b_pre.flags, read_bank_flags(&y.data), bad.join(", ")),
            ));
        }
    }
    Ok(())
}

// ------------------------------------------------------------------------------------------
// Generators (parts A/B)
// ------------------------------------------------------------------------------------------
fn u64_classes() -> BoxedStrategy<u64> {
    prop_oneof![2 => Just(0u64), 2 => Just(1u64), 2 => Just(u64::MAX), 2 => any::<u64>(), 3 => 0u64..1_000_000_000, 1 => Just(u64::MAX - 1)].boxed()
}
fn opt<S: Strategy + 'static>(s: S) -> BoxedStrategy<Option<S::Value>>
where
    S::Value: Clone + std::fmt::Debug + 'static,
{
    prop::option::weighted(0.55, s).boxed()
}
/// 64-bit flag words: uniform, each single bit, every subset of the two emission bits, and
/// emission bits mixed with other (named / arbitrary) bits
fn flag_word() -> BoxedStrategy<u64> {
    prop_oneof![
        3 => 0u64..4,
        2 => any::<u64>(),
        2 => (0u32..64).prop_map(|b| 1u64 << b),
        3 => (0u64..4, 0u64..32).prop_map(|(e, o)| e | (o << 2)),
        1 => (0u64..4, any::<u64>()).prop_map(|(e, o)| e | (o & !3)),
        1 => Just(u64::MAX),
    ]
    .boxed()
}
fn fee_bits() -> BoxedStrategy<String> {
    prop_oneof![
        3 => Just(0i128),
        5 => (0i64..300_000).prop_map(|m| (I80F48::from_num(m) / I80F48::from_num(1_000_000)).to_bits()),
        1 => Just(1i128 << 48),
        1 => (-1_000_000i64..0).prop_map(|m| (I80F48::from_num(m) / I80F48::from_num(1_000_000)).to_bits()),
        1 => any::<i64>().prop_map(|x| (x as i128) << 32),
        1 => prop_oneof![Just(i128::MAX), Just(i128::MIN), Just(1i128), Just(-1i128)],
    ]
    .prop_map(|b| b.to_string())
    .boxed()
}
fn ir_strategy() -> BoxedStrategy<IrOpt> {
    // values compatible with every base curve (zero 10M, hundred 2G, point rates 100M..500M) so that
    // every Option subset validates; a minority is arbitrary
    let zero = prop_oneof![6 => 0u32..=10_000_000, 1 => Just(0u32), 1 => any::<u32>()];
    let hundred = prop_oneof![6 => 500_000_000u32..=u32::MAX, 1 => Just(u32::MAX), 1 => any::<u32>()];
    let points = prop_oneof![
        6 => prop::collection::vec((1u32..=u32::MAX, 100_000_000u32..=500_000_000), 0..=5).prop_map(|mut v| {
            v.sort();
            v.dedup_by_key(|x| x.0);
            let mut rates: Vec<u32> = v.iter().map(|x| x.1).collect();
            rates.sort();
            v.iter().zip(rates).map(|(p, r)| (p.0, r)).collect::<Vec<_>>()
        }),
        1 => prop::collection::vec((any::<u32>(), any::<u32>()), 0..=5),
        1 => prop::collection::vec((prop_oneof![Just(0u32), 1u32..=u32::MAX], 0u32..=u32::MAX), 5..=5),
    ];
    (opt(fee_bits()), opt(fee_bits()), opt(fee_bits()), opt(fee_bits()), opt(fee_bits()), opt(zero), opt(hundred), opt(points))
        .prop_map(|(ins_fixed, ins_ir, prot_fixed, prot_ir, orig, zero, hundred, points)| IrOpt { ins_fixed, ins_ir, prot_fixed, prot_ir, orig, zero, hundred, points })
        .boxed()
}
fn emode_entries_strategy() -> BoxedStrategy<Vec<EEntry>> {
    let entry = (
        prop_oneof![8 => 1u16..40, 1 => Just(0u16), 1 => any::<u16>()],
        prop_oneof![6 => 0u8..2, 1 => any::<u8>()],
        prop_oneof![5 => Just(0u8), 2 => any::<u8>()],
        prop_oneof![8 => 0i64..=1_100_000, 1 => -10i64..3_000_000],
        0i64..=1_180_000,
        prop::bool::weighted(0.9),
    )
        .prop_map(|(tag, flags, pad, init, maint, ordered)| {
            let (init, maint) = if ordered && maint < init { (maint.max(0), init) } else { (init, maint) };
            EEntry { tag, flags, pad, init, maint }
        });
    (prop::collection::vec(entry, 0..=10), prop::bool::weighted(0.85))
        .prop_map(|(mut v, dedup)| {
            if dedup {
                let mut seen = vec![];
                v.retain(|e| {
                    if e.tag != 0 && seen.contains(&e.tag) {
                        false
                    } else {
                        seen.push(e.tag);
                        true
                    }
                });
            }
            v
        })
        .boxed()
}
fn weight_mill() -> BoxedStrategy<i64> {
    prop_oneof![5 => 0i64..=2_000_000, 1 => Just(0i64), 1 => Just(1_000_000i64), 1 => -5i64..10_000_000].boxed()
}
fn cfg_strategy() -> BoxedStrategy<CfgOpt> {
    (
        (opt(weight_mill()), opt(weight_mill()), opt(weight_mill()), opt(weight_mill())),
        (opt(u64_classes()), opt(u64_classes()), opt(0u8..3), opt(ir_strategy())),
        (opt(0u8..2), opt(0u8..3), opt(u64_classes()), opt(any::<u32>()), opt(prop_oneof![Just(0u16), 10u16..1000, any::<u16>()])),
        (opt(any::<bool>()), opt(any::<bool>()), opt(any::<bool>())),
    )
        .prop_map(|((aw_i, aw_m, lw_i, lw_m), (dep, bor, op_state, ir), (risk_tier, asset_tag, init_limit, max_conf, max_age), (perm, freeze, tokenless))| CfgOpt {
            aw_i,
            aw_m,
            lw_i,
            lw_m,
            dep,
            bor,
            op_state,
            ir,
            risk_tier,
            asset_tag,
            init_limit,
            max_conf,
            max_age,
            perm,
            freeze,
            tokenless,
        })
        .boxed()
}

#[derive(Clone, Copy, Debug, PartialEq, Eq)]
pub enum Kind {
    InterestOnly,
    LimitsOnly,
    Emode,
    CloneEmode,
    SetupEmissions,
    UpdateEmissions,
    MetaInit,
    MetaWrite,
    ForceTokenless,
    Purge,
    ConfigureBank,
    ConfigOracle,
    FixedPrice,
}

fn op_strategy(kind: Kind) -> BoxedStrategy<Op> {
    match kind {
        Kind::InterestOnly => ir_strategy().prop_map(|ir| Op::InterestOnly { ir }).boxed(),
        Kind::LimitsOnly => (opt(u64_classes()), opt(u64_classes()), opt(u64_classes())).prop_map(|(dep, bor, init)| Op::LimitsOnly { dep, bor, init }).boxed(),
        Kind::Emode => (prop_oneof![Just(0u16), 1u16..40, any::<u16>()], emode_entries_strategy()).prop_map(|(tag, entries)| Op::Emode { tag, entries }).boxed(),
        Kind::CloneEmode => (0u8..2, any::<bool>()).prop_map(|(from, by_admin)| Op::CloneEmode { from, by_admin }).boxed(),
        Kind::SetupEmissions => (prop_oneof![1 => 0u64..4, 1 => flag_word()], u64_classes(), prop_oneof![4 => 0u64..=FUND, 2 => u64_classes(), 1 => Just(FUND), 1 => Just(FUND + 1)]).prop_map(|(flags, rate, total)| Op::SetupEmissions { flags, rate, total }).boxed(),
        Kind::UpdateEmissions => (opt(flag_word()), opt(u64_classes()), opt(prop_oneof![4 => 0u64..=(FUND / 2), 2 => u64_classes()])).prop_map(|(flags, rate, add)| Op::UpdateEmissions { flags, rate, add }).boxed(),
        Kind::MetaInit => (0u8..3).prop_map(|payer| Op::MetaInit { payer }).boxed(),
        Kind::MetaWrite => (
            opt((prop_oneof![Just(0u8), Just(1u8), Just(64u8), Just(65u8), 0u8..=70], any::<u8>())),
            opt((prop_oneof![Just(0u16), Just(1u16), Just(128u16), Just(129u16), 0u16..=140], any::<u8>())),
        )
            .prop_map(|(ticker, desc)| Op::MetaWrite { ticker, desc })
            .boxed(),
        Kind::ForceTokenless => Just(Op::ForceTokenless).boxed(),
        Kind::Purge => (0u8..3).prop_map(|user| Op::Purge { user }).boxed(),
        Kind::ConfigureBank => cfg_strategy().prop_map(|cfg| Op::ConfigureBank { cfg }).boxed(),
        Kind::ConfigOracle => (prop_oneof![6 => 3u8..5, 2 => 0u8..14, 1 => any::<u8>()], 0u8..3).prop_map(|(setup, which)| Op::ConfigOracle { setup, which }).boxed(),
        Kind::FixedPrice => prop_oneof![
            5 => (1i64..1_000_000_000).prop_map(|m| (I80F48::from_num(m) / I80F48::from_num(1_000_000)).to_bits().to_string()),
            1 => Just("0".to_string()),
            1 => Just("-1".to_string()),
            1 => any::<i64>().prop_map(|x| ((x as i128) << 30).to_string()),
        ]
        .prop_map(|price| Op::FixedPrice { price })
        .boxed(),
    }
}

fn pre_strategy(part: u8, kind: Kind) -> BoxedStrategy<Pre> {
    let tok = prop_oneof![5 => Just(0u8), 2 => Just(1u8), 1 => Just(2u8)];
    let toks = [tok.clone(), tok.clone(), tok];
    let orc = [0u8..3, 0u8..3, 0u8..3];
    let freeze = if part == 1 { Just(true).boxed() } else { any::<bool>().boxed() };
    // emissions present: required for update, absent for setup, random otherwise
    let em_some = (0u8..4, u64_classes(), 0u64..=1_000_000_000_000u64).prop_map(Some);
    let em: BoxedStrategy<Option<(u8, u64, u64)>> = match kind {
        Kind::UpdateEmissions => prop_oneof![19 => em_some, 1 => Just(None)].boxed(),
        Kind::SetupEmissions => prop_oneof![19 => Just(None), 1 => em_some].boxed(),
        _ => prop_oneof![2 => Just(None), 1 => em_some].boxed(),
    };
    let meta = match kind {
        Kind::MetaWrite => prop::bool::weighted(0.95).boxed(),
        Kind::MetaInit => prop::bool::weighted(0.05).boxed(),
        _ => prop::bool::weighted(0.2).boxed(),
    };
    let tl = match kind {
        Kind::Purge => (prop::bool::weighted(0.9), prop::bool::weighted(0.9)).boxed(),
        _ => (any::<bool>(), any::<bool>()).boxed(),
    };
    (toks, orc, 0u8..3, freeze, any::<bool>(), tl, em, prop_oneof![3 => Just(0u8), 1 => Just(1u8), 1 => Just(2u8)], meta, prop_oneof![Just(0u32), 1u32..90, 90u32..1_000_000])
        .prop_map(|(tok, orc, t, freeze, perm, (tl_allowed, tl_complete), em, em_kind, meta, wait)| Pre { tok, orc, t, freeze, perm, tl_allowed, tl_complete, em, em_kind, meta, wait })
        .boxed()
}

fn case_strategy(part: u8, kind: Kind) -> BoxedStrategy<Case> {
    (pre_strategy(part, kind), op_strategy(kind)).prop_map(move |(pre, op)| Case { part, pre, op }).boxed()
}

pub const STREAMS_A: &[Kind] = &[
    Kind::InterestOnly,
    Kind::LimitsOnly,
    Kind::Emode,
    Kind::CloneEmode,
    Kind::SetupEmissions,
    Kind::UpdateEmissions,
    Kind::MetaInit,
    Kind::MetaWrite,
    Kind::ForceTokenless,
    Kind::Purge,
];
pub const STREAMS_B: &[Kind] = &[
    Kind::ConfigureBank,
    Kind::InterestOnly,
    Kind::LimitsOnly,
    Kind::ConfigOracle,
    Kind::FixedPrice,
    Kind::Emode,
    Kind::CloneEmode,
    Kind::SetupEmissions,
    Kind::UpdateEmissions,
];

// ==========================================================================================
// Part C — forced deleverage
// ==========================================================================================
#[derive(Clone, Debug, Serialize, Deserialize, PartialEq)]
pub struct Wd {
    /// 0 = absolute dollars, 1 = (limit - withdrawn in the model's current day window) + delta dollars
    pub mode: u8,
    pub dollars: u32,
    pub delta: i8,
    /// extra fraction of a dollar in per-mille
    pub frac_pm: u16,
}
#[derive(Clone, Debug, Serialize, Deserialize, PartialEq)]
pub struct Br {
    /// seconds since the previous bracket (or since the limit was configured)
    pub gap: u32,
    pub ws: Vec<Wd>,
    /// repayment as per-mille of what keeps maintenance health unchanged
    pub repay_pm: u16,
    /// the risk admin repays the WHOLE debt (repay_all) instead: the account ends the bracket debt-free, which must
    /// not excuse taking more collateral than that was worth
    #[serde(default)]
    pub repay_all: bool,
    /// before the bracket the victim deposits a small position (worth `dollars` as for `ws`) in a third bank; the
    /// risk admin takes it with `withdraw(amount = 0, withdraw_all = true)` as the first withdrawal of the bracket —
    /// the amount argument says nothing about what leaves the vault, the limit must be measured on the latter
    #[serde(default)]
    pub all2: Option<Wd>,
    /// bit i set: the i-th plain withdrawal of the bracket carries ANOTHER key than the risk admin in its authority slot
    /// (a helper's signature, tokens to the helper's account). Inside a receivership the withdraw instruction accepts any
    /// signer, so the bracket is still the risk admin's (it signs start and end) and the withdrawal still counts
    /// towards the daily limit.
    #[serde(default)]
    pub helper_mask: u8,
}
#[derive(Clone, Debug, Serialize, Deserialize, PartialEq)]
pub struct DCase {
    pub dec: u8,
    /// collateral price class
    pub price: u8,
    /// collateral oracle kind
    pub orc: u8,
    /// confidence in per-mille of the price (Pyth / Switchboard)
    pub conf_pm: u16,
    /// daily limit in dollars; 0 = never configured
    pub limit: u32,
    pub brackets: Vec<Br>,
}

const GAPS: &[u32] = &[0, 1, 100, 43_200, 86_399, 86_400, 86_401, 172_800];

fn dcase_strategy() -> BoxedStrategy<DCase> {
    let wd = (prop_oneof![2 => Just(0u8), 3 => Just(1u8)], prop_oneof![3 => 0u32..20, 2 => 20u32..2_000, 1 => 2_000u32..10_000], prop_oneof![5 => -2i8..=0, 2 => 1i8..=2], prop_oneof![3 => Just(0u16), 2 => 1u16..1000, 1 => Just(999u16)])
        .prop_map(|(mode, dollars, delta, frac_pm)| Wd { mode, dollars, delta, frac_pm });
    let br = (prop::sample::select(GAPS.to_vec()), prop::collection::vec(wd.clone(), 1..=3), prop_oneof![6 => 1_050u16..1_500, 1 => 900u16..1_000, 1 => Just(1_000u16)], prop::option::weighted(0.35, wd.clone()), prop_oneof![5 => Just(0u8), 3 => 1u8..8]).prop_map(|(gap, ws, repay_pm, all2, helper_mask)| Br { gap, ws, repay_pm, repay_all: all2.is_none() && repay_pm % 4 == 1, all2, helper_mask });
    (
        prop_oneof![Just(6u8), Just(8u8), Just(9u8)],
        0u8..5,
        0u8..3,
        prop_oneof![2 => Just(0u16), 2 => 1u16..20, 1 => 20u16..45],
        prop_oneof![1 => Just(0u32), 1 => Just(1u32), 1 => Just(2u32), 2 => 3u32..20, 2 => 20u32..2_000, 1 => 2_000u32..50_000],
        prop::collection::vec(br, 1..=5),
    )
        .prop_map(|(dec, price, orc, conf_pm, limit, brackets)| DCase { dec, price, orc, conf_pm, limit, brackets })
        .boxed()
}

fn price_mant(class: u8) -> i64 {
    match class % 5 {
        0 => 1_000_000,
        1 => 2_000_000,
        2 => 500_000,
        3 => 137_250_000,
        _ => 10_000,
    }
}

fn d_world(c: &DCase) -> Option<World> {
    let mant = price_mant(c.price);
    let conf = (mant as u128 * c.conf_pm as u128 / 1000) as u64;
    let oracle = match c.orc % 3 {
        0 => OracleSpec::fixed(mant, -6),
        k => OracleSpec { kind: k, mant, expo: -6, conf, ema_mant: mant, ema_conf: conf, max_age: 100, max_conf: 0 },
    };
    let b0 = BankSpec { decimals: c.dec, oracle, aw_i: 500_000, aw_m: 750_000, ..BankSpec::default() };
    let b1 = BankSpec {
        decimals: 6,
        oracle: OracleSpec::fixed(1_000_000, -6),
        curve: CurveSpec { zero: 10_000_000, hundred: 1_000_000_000, points: vec![], ins_fixed: 1_000, ins_ir: 10_000, prot_fixed: 0, prot_ir: 0, orig: 0 },
        ..BankSpec::default()
    };
    // a third bank ($1 fixed, same weights as the collateral bank) for small positions taken with withdraw_all
    let b2 = BankSpec { decimals: 6, oracle: OracleSpec::fixed(1_000_000, -6), aw_i: 500_000, aw_m: 750_000, ..BankSpec::default() };
    let mut w = World::build(&WorldSpec { banks: vec![b0, b1, b2], n_users: 2, ..WorldSpec::default() }).ok()?;
    let u = w.users.clone();
    // $2M of collateral, $2M lent, $200k borrowed
    let coll: u128 = 2_000_000u128 * 10u128.pow(c.dec as u32) * 1_000_000 / mant as u128;
    if coll >= (1u128 << 62) {
        return None;
    }
    w.vm.exec(&w.ix_deposit(u[0].accts[0], u[0].auth, 0, u[0].tokens[0], coll as u64, None)).ok()?;
    w.vm.exec(&w.ix_deposit(u[1].accts[0], u[1].auth, 1, u[1].tokens[1], 2_000_000_000_000, None)).ok()?;
    w.vm.exec(&w.ix_borrow(u[0].accts[0], u[0].auth, 1, u[0].tokens[1], 200_000_000_000)).ok()?;
    // a little collateral from another depositor so that the victim is not the whole bank
    w.vm.exec(&w.ix_deposit(u[1].accts[0], u[1].auth, 0, u[1].tokens[0], (coll / 7 + 1) as u64, None)).ok()?;
    w.vm.exec(&w.ix_init_liq_record(u[0].accts[0], w.roles.risk)).ok()?;
    // the other depositor has a liquidation record too (for the two-brackets-one-end probe)
    w.vm.exec(&w.ix_init_liq_record(u[1].accts[0], w.roles.risk)).ok()?;
    Some(w)
}

#[derive(Default, Debug, Clone)]
pub struct DStats {
    pub built: bool,
    pub committed: u32,
    pub rejected: u32,
    pub over_limit_attempts: u32,
    pub exactly_at_limit: u32,
    pub window_restarts: u32,
    pub boundary_commit: Vec<u32>,
    pub floor_of_sum_exceeds: u32,
    pub rejected_within_limit: u32,
    pub outside_checked: u32,
    pub withdraw_all_in_bracket: u32,
    pub withdraw_all_committed: u32,
    pub two_brackets_one_end: u32,
    pub helper_signed_in_bracket: u32,
    pub helper_signed_committed: u32,
    pub codes: Vec<u64>,
}

pub fn run_dcase(c: &DCase, st: &mut DStats) -> Result<(), (String, String)> {
    let Some(mut w) = d_world(c) else { return Ok(()) };
    st.built = true;
    let victim = w.users[0].accts[0];
    let risk = w.roles.risk;
    // the risk admin's own token accounts
    let rt0 = kp("c12_risk_tok", 0);
    let rt1 = kp("c12_risk_tok", 1);
    let a0 = w.make_token_acct(&w.banks[0].clone(), risk, 0);
    let a1 = w.make_token_acct(&w.banks[1].clone(), risk, 1 << 60);
    w.vm.set(rt0, a0);
    w.vm.set(rt1, a1);
    // a helper (any other key) with its own token account for the collateral mint
    let helper = w.roles.stranger;
    let ht0 = kp("c12_helper_tok", 0);
    let ah = w.make_token_acct(&w.banks[0].clone(), helper, 0);
    w.vm.set(ht0, ah);
    if c.limit != 0 {
        if w.vm.exec(&ix_delev_limit(&w, c.limit, w.roles.admin)).is_err() {
            return Ok(());
        }
    }
    // the model's own day window (Q4): restarts at the first withdrawal >= 86 400 s after the previous restart
    let mut win_start: i64 = w.vm.now();
    let mut sum_floor = q_zero(); // sum of per-withdrawal whole dollars (lower enclosure)
    let mut sum_exact = q_zero(); // sum of values (lower enclosure), for the floor-of-sum reading
    let limit_q = q_int(c.limit);
    let scale = pow10(c.dec as u32);
    for br in &c.brackets {
        w.vm.advance(br.gap as i64);
        w.refresh_oracles();
        let _ = w.vm.exec(&w.ix_accrue(0));
        let _ = w.vm.exec(&w.ix_accrue(1));
        let now = w.vm.now();
        let bank0 = w.bank(0);
        let bank1 = w.bank(1);
        let Some(p_low) = oracle_view(&w.vm, &bank0, now).low(PriceKind::Spot) else { continue };
        if !p_low.lo.is_positive() {
            continue;
        }
        // (3) outside a bracket the risk admin cannot withdraw from somebody else's account
        {
            let mut probe = w.vm.clone();
            let before = w.tok(&rt0);
            let ix = w.ix_withdraw_with(victim, risk, 0, rt0, 1_000, None, w.risk_metas(&victim, None, None));
            let r = probe.exec(&ix);
            st.outside_checked += 1;
            if r.is_ok() || token_amount(probe.data(&rt0)) != before {
                return Err(("deleverage:withdraw-outside-bracket".into(), "the risk admin withdrew from a user's account without a start_deleverage/end_deleverage bracket".into()));
            }
        }
        // model window as it would be at this time
        let (mut m_start, mut m_floor, mut m_exact) = (win_start, sum_floor.clone(), sum_exact.clone());
        let mut restarted = false;
        let mut total_value_hi = q_zero();
        let mut crosses = false;
        let mut exact_hit = false;
        // the small third-bank position the risk admin will take with withdraw_all (deposited by the victim now, i.e.
        // before the bracket); its model value comes from what is actually in the position
        let mut all2_amount: Option<u64> = None;
        if let Some(wd) = &br.all2 {
            let bank2 = w.bank(2);
            if let Some(p2) = oracle_view(&w.vm, &bank2, now).low(PriceKind::Spot) {
                if c.limit != 0 && now - m_start >= 86_400 {
                    m_start = now;
                    m_floor = q_zero();
                    m_exact = q_zero();
                    restarted = true;
                }
                let remaining = &limit_q - &m_floor;
                let dollars: Q = if c.limit == 0 {
                    q_int(wd.dollars)
                } else if wd.mode == 0 {
                    let m = (remaining.to_integer() + num_bigint::BigInt::from(2)).to_u64().unwrap_or(1).max(1);
                    q_int(wd.dollars as u64 % m)
                } else {
                    remaining + q_int(wd.delta as i64)
                } + q_ratio(wd.frac_pm as u64, 1000u64);
                let amount = if dollars.is_positive() && p2.lo.is_positive() { q_ceil(&(&dollars * pow10(6) / &p2.lo)).to_u64().unwrap_or(0) } else { 0 };
                let u0 = w.users[0].clone();
                if amount > 0 && w.vm.exec(&w.ix_deposit(victim, u0.auth, 2, u0.tokens[2], amount, None)).is_ok() {
                    // what the position holds (nobody borrows bank 2: share value 1, so this is `amount`)
                    let a = w.macct(&victim);
                    let bits = a.lending_account.balances.iter().find(|b| b.active != 0 && b.bank_pk == w.banks[2].key).map(|b| crate::snap::bits(b.asset_shares)).unwrap_or(0);
                    let units = q_floor(&(q_bits(bits) * q_w(w.bank(2).asset_share_value))).to_u64().unwrap_or(0);
                    if units > 0 {
                        let v = Iv::point(q_int(units)).mul(&p2).trunc().mul_q(&(q_one() / pow10(6))).trunc();
                        let v_lo = q_max(v.lo.clone(), q_zero());
                        m_floor += Q::from_integer(q_floor(&v_lo));
                        m_exact += &v_lo;
                        total_value_hi += &v.hi;
                        if c.limit != 0 {
                            if Q::from_integer(q_floor(&v.hi)) + (&m_floor - Q::from_integer(q_floor(&v_lo))) > limit_q {
                                crosses = true;
                            }
                            if m_floor == limit_q {
                                exact_hit = true;
                            }
                        }
                        all2_amount = Some(units);
                    }
                }
            }
        }
        let riskm = w.risk_metas(&victim, None, None);
        let mut ixs = vec![w.ix_start_deleverage(victim, risk)];
        if all2_amount.is_some() {
            let rt2 = kp("c12_risk_tok", 2);
            if w.vm.get(&rt2).is_none() {
                let a2 = w.make_token_acct(&w.banks[2].clone(), risk, 0);
                w.vm.set(rt2, a2);
            }
            ixs.push(w.ix_withdraw_with(victim, risk, 2, rt2, 0, Some(true), riskm.clone()));
            st.withdraw_all_in_bracket += 1;
        }
        let mut helper_used = false;
        for (wi_idx, wd) in br.ws.iter().enumerate() {
            if c.limit != 0 && now - m_start >= 86_400 {
                m_start = now;
                m_floor = q_zero();
                m_exact = q_zero();
                restarted = true;
            }
            let remaining = &limit_q - &m_floor;
            let dollars: Q = if c.limit == 0 {
                q_int(wd.dollars)
            } else if wd.mode == 0 {
                // an absolute amount folded into 0 ..= remaining + 1
                let m = (remaining.to_integer() + num_bigint::BigInt::from(2)).to_u64().unwrap_or(1).max(1);
                q_int(wd.dollars as u64 % m)
            } else {
                remaining + q_int(wd.delta as i64)
            } + q_ratio(wd.frac_pm as u64, 1000u64);
            if !dollars.is_positive() {
                continue;
            }
            // smallest amount whose low-biased value is at least `dollars`
            let amount = q_ceil(&(&dollars * &scale / &p_low.lo)).to_u64().unwrap_or(0);
            if amount == 0 {
                continue;
            }
            let v = Iv::point(q_int(amount)).mul(&p_low).trunc().mul_q(&(q_one() / &scale)).trunc();
            let v_lo = q_max(v.lo.clone(), q_zero());
            m_floor += Q::from_integer(q_floor(&v_lo));
            m_exact += &v_lo;
            total_value_hi += &v.hi;
            if c.limit != 0 {
                if Q::from_integer(q_floor(&v.hi)) + (&m_floor - Q::from_integer(q_floor(&v_lo))) > limit_q {
                    crosses = true;
                }
                if m_floor == limit_q {
                    exact_hit = true;
                }
            }
            if br.helper_mask & (1 << wi_idx) != 0 {
                ixs.push(w.ix_withdraw_with(victim, helper, 0, ht0, amount, None, riskm.clone()));
                helper_used = true;
            } else {
                ixs.push(w.ix_withdraw_with(victim, risk, 0, rt0, amount, None, riskm.clone()));
            }
        }
        if helper_used {
            st.helper_signed_in_bracket += 1;
        }
        if ixs.len() == 1 {
            continue;
        }
        // repayment that keeps maintenance health (liability valued at the high-biased price)
        let p1 = oracle_view(&w.vm, &bank1, now).high(PriceKind::Spot).map(|p| p.lo).unwrap_or_else(q_one);
        let need = &total_value_hi * q_w(bank0.config.asset_weight_maint) / (q_w(bank1.config.liability_weight_maint) * &p1) * pow10(6);
        let repay = (q_ceil(&(need * q_ratio(br.repay_pm as u64, 1000u64))).to_u64().unwrap_or(u64::MAX / 4)).saturating_add(if br.repay_pm > 1000 { 5 } else { 0 });
        if br.repay_all && all2_amount.is_none() {
            // one more, large withdrawal: around what clearing the whole debt is worth at maintenance weights
            // (repay_pm / 1000 of it: below, at and above the health-neutral amount)
            if c.limit == 0 {
                let a = w.macct(&victim);
                let debt_bits = a.lending_account.balances.iter().find(|b| b.active != 0 && b.bank_pk == w.banks[1].key).map(|b| crate::snap::bits(b.liability_shares)).unwrap_or(0);
                let p1h = oracle_view(&w.vm, &bank1, now).high(PriceKind::Spot).map(|p| p.hi).unwrap_or_else(q_one);
                let debt_value = q_bits(debt_bits) * q_w(bank1.liability_share_value) * q_w(bank1.config.liability_weight_maint) * &p1h / pow10(6);
                let neutral_units = &debt_value / (q_w(bank0.config.asset_weight_maint) * &p_low.lo) * &scale;
                let extra = q_ceil(&(neutral_units * q_ratio(br.repay_pm as u64, 1000u64))).to_u64().unwrap_or(0);
                if extra > 0 {
                    ixs.push(w.ix_withdraw_with(victim, risk, 0, rt0, extra, None, riskm.clone()));
                }
            }
            ixs.push(w.ix_repay(victim, risk, 1, rt1, 0, Some(true)));
            ixs.push(w.ix_end_deleverage(victim, risk, w.risk_metas(&victim, None, Some(w.banks[1].key))));
        } else {
            ixs.push(w.ix_repay(victim, risk, 1, rt1, repay.max(1), None));
            let end_metas = if all2_amount.is_some() { w.risk_metas(&victim, None, Some(w.banks[2].key)) } else { riskm.clone() };
            ixs.push(w.ix_end_deleverage(victim, risk, end_metas));
        }
        // malformed brackets never commit: no end; a withdraw after the end
        {
            let mut probe = w.vm.clone();
            let no_end = &ixs[..ixs.len() - 1];
            if probe.exec_tx(no_end).ok {
                return Err(("deleverage:bracket:no-end".into(), "[start_deleverage, withdraw.., repay] without end_deleverage committed".into()));
            }
            let mut probe = w.vm.clone();
            let mut trailing = ixs.clone();
            trailing.push(w.ix_withdraw_with(victim, risk, 0, rt0, 1_000, None, riskm.clone()));
            if probe.exec_tx(&trailing).ok {
                return Err(("deleverage:bracket:withdraw-after-end".into(), "a withdraw by the risk admin after end_deleverage committed".into()));
            }
            // two brackets, one end: the victim's bracket is opened and used, then ANOTHER account's bracket is opened and
            // closed - the victim's is never ended (no health comparison, markers left behind). With and without a short
            // instruction of an allow-listed program in between.
            let other = w.users[1].accts[0];
            for with_short in [false, true] {
                let mut probe = w.vm.clone();
                let mut two = vec![ixs[0].clone(), ixs[1].clone()];
                if with_short {
                    two.push(solana_program::instruction::Instruction { program_id: crate::svm::proxy_id_allowed(), accounts: vec![], data: vec![1] });
                }
                two.push(w.ix_start_deleverage(other, risk));
                two.push(w.ix_end_deleverage(other, risk, w.risk_metas(&other, None, None)));
                st.two_brackets_one_end += 1;
                if probe.exec_tx(&two).ok {
                    return Err((
                        "deleverage:bracket:not-ended".into(),
                        format!("[start_deleverage(victim), withdraw(victim),{} start_deleverage(other), end_deleverage(other)] committed: the victim's bracket was never ended (flags {:#b})", if with_short { " short ix," } else { "" }, read_macct(&probe, &victim).map(|a| a.account_flags).unwrap_or(0)),
                    ));
                }
            }
        }
        let pre_vm = w.vm.clone();
        let h_pre = read_macct(&pre_vm, &victim).map(|a| health(&pre_vm, &a, Req::Maintenance, now));
        let out = w.vm.exec_tx(&ixs);
        if !out.ok {
            st.rejected += 1;
            if let Some((_, e)) = &out.err {
                st.codes.push(err_code(e));
            }
            if crosses {
                st.over_limit_attempts += 1;
            } else if br.repay_pm > 1000 {
                st.rejected_within_limit += 1;
            }
            continue;
        }
        st.committed += 1;
        if all2_amount.is_some() {
            st.withdraw_all_committed += 1;
        }
        if helper_used {
            st.helper_signed_committed += 1;
        }
        // commit the model window
        if restarted {
            st.window_restarts += 1;
            st.boundary_commit.push(br.gap);
        }
        win_start = m_start;
        sum_floor = m_floor;
        sum_exact = m_exact;
        if exact_hit {
            st.exactly_at_limit += 1;
        }
        // (2) daily limit: sum of per-withdrawal whole dollars in the model's day window <= limit
        if c.limit != 0 {
            if sum_floor > limit_q {
                return Err((
                    "deleverage:daily-limit".into(),
                    format!(
                        "committed deleverage withdrawals worth {} whole dollars within the day window started at t+{} s, limit {} (bracket at t+{} s)",
                        sum_floor.to_integer(),
                        win_start - START_TIME,
                        c.limit,
                        now - START_TIME
                    ),
                ));
            }
            if Q::from_integer(q_floor(&sum_exact)) > limit_q {
                st.floor_of_sum_exceeds += 1;
            }
        }
        // (4) flags cleared
        let a_post = w.macct(&victim);
        if a_post.account_flags & (ACCOUNT_IN_RECEIVERSHIP | ACCOUNT_IN_DELEVERAGE) != 0 {
            return Err(("deleverage:flags-left-set".into(), format!("after the committed bracket the account flags are {:#b}", a_post.account_flags)));
        }
        // (1) maintenance health not lower than at the start
        let h_post = health(&w.vm, &a_post, Req::Maintenance, now);
        if let (Some(Some(h0)), Some(h1)) = (h_pre.map(|h| h.health()), h_post.health()) {
            if h1.hi < h0.lo {
                return Err(("deleverage:health-worse".into(), format!("maintenance health fell from >= {} to <= {} in a committed deleverage", q_str(&h0.lo), q_str(&h1.hi))));
            }
        }
    }
    Ok(())
}

// ==========================================================================================
// Driver
// ==========================================================================================
const RULE: &str = "proptest, one stream per instruction. Parts A/B: 3-bank worlds (SPL / Token-2022 / transfer-fee mints, fixed / Pyth / Switchboard oracles, e-mode, caps) with depositors and borrowers in every bank; the target bank's pre-state flag word is set through real instructions (configure_bank: freeze / permissionless bad debt / tokenless repayments; force_tokenless_repay_complete; optional emissions set-up; CLOSE_ENABLED from creation). A: every delegated-admin instruction (interest-only, limits-only, e-mode configure, e-mode clone by e-mode or group admin, setup_emissions, update_emissions_parameters, init/write_bank_metadata, force_tokenless_repay_complete, purge_deleverage_balance) with every Option combination, 64-bit flag words (uniform, single bits, all subsets of the two emission bits, emission bits mixed with others), limits 0/1/MAX, valid and invalid curves / e-mode entries / amounts; after each SUCCESS the whole account store is diffed field by field and every changed field/account must lie in the role's frame written from the statement (cache.*, last_update always allowed). B: with FREEZE_SETTINGS set, configure_bank (all BankConfigOpt combinations incl. freeze_settings=false), interest-only, limits-only, configure_bank_oracle, set_fixed_oracle_price, e-mode configure/clone, setup/update emissions by the proper signer: weights, oracle settings, curve, risk tier, cap, operational state, asset tag and the freeze bit are unchanged after any success. C: risk-admin brackets [start_deleverage, withdraw x1-3 (in three eighths of the brackets some of them carry a helper's key and token account instead of the risk admin's - inside a receivership any signer may withdraw, the withdrawal still counts), repay (a quarter of them repay_all: the account ends debt-free), end_deleverage] with withdraw sizes around (limit - withdrawn) +-2 $, limits 0..50k $, clock gaps {0,1,100,43200,86399,86400,86401,172800} s: committed bracket => health not lower (model enclosure), flags cleared, sum of per-withdrawal whole dollars in the model's day window <= limit; no withdraw outside / after a bracket; [start(victim), withdraw(victim), (short ix,) start(other), end(other)] never commits. Non-trivial = successful admin instruction on a frozen bank or with an out-of-remit bit/field in its argument; committed or rejected deleverage bracket that crosses the limit, hits it exactly, or restarts the day window.";

fn split_err(msg: &str) -> (String, String) {
    msg.split_once('|').map(|(a, b)| (a.to_string(), b.to_string())).unwrap_or((msg.to_string(), msg.to_string()))
}

fn run_stream(ctx: &Ctx, wi: usize, part: u8, kind: Kind, cases: u32, rep: &mut Report, cache: &mut Cache) {
    let strat = case_strategy(part, kind);
    let pname = if part == 0 { "A" } else { "B" };
    let stream = format!("c12-{pname}-{kind:?}");
    let mut first_sig: Option<String> = None;
    let outcome = run_prop(ctx.seed_bytes(&stream, wi as u64), cases, &strat, |c, counting| {
        let mut st = Stats::default();
        let r = run_case(c, cache, &mut st);
        if counting {
            rep.eval();
            let name = c.op.ix_name();
            if !st.built {
                rep.label(&format!("{pname}:{name}:prestate-not-built"));
            } else if st.ok {
                rep.label(&format!("{pname}:{name}:ok{}", if st.frozen { ":frozen" } else { "" }));
                if st.changed.iter().all(|f| f == "cache" || f == "last_update") {
                    rep.label(&format!("{pname}:{name}:ok:no-change"));
                }
                if c.op.out_of_remit() {
                    rep.label(&format!("{pname}:{name}:ok:out-of-remit-arg"));
                }
                if matches!(c.op, Op::SetupEmissions { .. } | Op::UpdateEmissions { .. }) {
                    rep.label(&format!("{pname}:{name}:ok:emissions-mint-kind-{}", c.pre.em_kind));
                }
                let frozen_arg = match &c.op {
                    Op::ConfigureBank { cfg } => cfg.names_frozen_setting(),
                    _ => true,
                };
                if (st.frozen && frozen_arg) || c.op.out_of_remit() {
                    rep.nontrivial_case(&json!({"p": part, "ix": name, "fl": st.flags_pre, "s": c.op.shape(), "t": c.pre.t}));
                    if rep.samples.len() < 6 && wi == 0 {
                        rep.sample(json!({"part": pname, "instruction": name, "bank_flags_before": st.flags_pre, "argument_shape": c.op.shape(), "changed": st.changed}));
                    }
                }
            } else {
                rep.label(&format!("{pname}:{name}:rejected"));
            }
        }
        match r {
            Ok(()) => Ok(()),
            Err((sig, msg)) => {
                if counting {
                    first_sig = Some(sig.clone());
                } else if first_sig.as_deref() != Some(sig.as_str()) {
                    // keep the clause stable while shrinking
                    return Ok(());
                }
                Err(format!("{sig}|{msg}"))
            }
        }
    });
    if let Some((c, msg)) = outcome.failure {
        let (sig, m) = split_err(&msg);
        rep.violation(&sig, m, json!({"kind": "admin", "case": serde_json::to_value(&c).unwrap()}));
    }
}

fn run_delev_stream(ctx: &Ctx, wi: usize, cases: u32, rep: &mut Report) {
    let strat = dcase_strategy();
    let mut first_sig: Option<String> = None;
    let outcome = run_prop(ctx.seed_bytes("c12-C-deleverage", wi as u64), cases, &strat, |c, counting| {
        let mut st = DStats::default();
        let r = run_dcase(c, &mut st);
        if counting {
            rep.eval();
            if !st.built {
                rep.label("C:world-not-built");
            }
            rep.label_n("C:bracket:committed", st.committed as u64);
            rep.label_n("C:bracket:rejected", st.rejected as u64);
            rep.label_n("C:bracket:rejected:crossing-limit", st.over_limit_attempts as u64);
            rep.label_n("C:bracket:rejected:within-limit-and-repaid-enough", st.rejected_within_limit as u64);
            rep.label_n("C:bracket:committed:exactly-at-limit", st.exactly_at_limit as u64);
            rep.label_n("C:bracket:committed:window-restart", st.window_restarts as u64);
            rep.label_n("C:outside-bracket-withdraw-refused", st.outside_checked as u64);
            rep.label_n("C:bracket-with-withdraw_all", st.withdraw_all_in_bracket as u64);
            rep.label_n("C:bracket-with-withdraw_all-committed", st.withdraw_all_committed as u64);
            rep.label_n("C:bracket-with-helper-signed-withdraw", st.helper_signed_in_bracket as u64);
            rep.label_n("C:two-brackets-one-end-probes-refused", st.two_brackets_one_end as u64);
            rep.label_n("C:bracket-with-helper-signed-withdraw-committed", st.helper_signed_committed as u64);
            for g in &st.boundary_commit {
                rep.label(&format!("C:window-restart-at-gap:{g}"));
            }
            for e in &st.codes {
                rep.label(&format!("C:rejected-code:{e}"));
            }
            rep.add_extra("deleverage_floor_of_sum_reading_exceeds_limit", st.floor_of_sum_exceeds as u64);
            if c.limit == 0 {
                rep.label("C:no-limit-configured");
            }
            if st.over_limit_attempts + st.exactly_at_limit + st.window_restarts > 0 {
                rep.nontrivial_case(&json!({"l": c.limit, "g": c.brackets.iter().map(|b| b.gap).collect::<Vec<_>>(), "o": st.over_limit_attempts, "e": st.exactly_at_limit, "r": st.window_restarts, "p": c.price, "d": c.dec}));
                if wi == 1 && rep.samples.len() < MAX_SAMPLES {
                    rep.sample(json!({"part": "C", "limit": c.limit, "gaps": c.brackets.iter().map(|b| b.gap).collect::<Vec<_>>(), "committed": st.committed, "rejected_crossing_limit": st.over_limit_attempts, "exactly_at_limit": st.exactly_at_limit, "window_restarts": st.window_restarts}));
                }
            }
        }
        match r {
            Ok(()) => Ok(()),
            Err((sig, msg)) => {
                if counting {
                    first_sig = Some(sig.clone());
                } else if first_sig.as_deref() != Some(sig.as_str()) {
                    return Ok(());
                }
                Err(format!("{sig}|{msg}"))
            }
        }
    });
    if let Some((c, msg)) = outcome.failure {
        let (sig, m) = split_err(&msg);
        rep.violation(&sig, m, json!({"kind": "deleverage", "case": serde_json::to_value(&c).unwrap()}));
    }
}

pub fn run(ctx: &Ctx) -> Report {
    let n_ab: u32 = ctx.tier.pick(600, 30_000);
    let n_c: u32 = ctx.tier.pick(1600, 80_000);
    let mut rep = par_workers(ctx.threads, |wi| {
        let mut rep = Report::new(RULE);
        let mut cache: Cache = BTreeMap::new();
        for k in STREAMS_A {
            run_stream(ctx, wi, 0, *k, n_ab, &mut rep, &mut cache);
        }
        for k in STREAMS_B {
            run_stream(ctx, wi, 1, *k, n_ab, &mut rep, &mut cache);
        }
        run_delev_stream(ctx, wi, n_c, &mut rep);
        rep
    });
    rep.nontrivial_floor = ctx.tier.pick(300, 3_000);
    // a run in which the scenarios could not be built proves nothing
    let unbuilt: u64 = rep.labels.iter().filter(|(k, _)| k.ends_with(":prestate-not-built") || k.as_str() == "C:world-not-built").map(|(_, v)| *v).sum();
    if unbuilt * 10 > rep.evaluations {
        rep.engine_errors.push(format!("{unbuilt} of {} scenarios could not be built through real instructions", rep.evaluations));
    }
    let all_successes: u64 = rep.labels.iter().filter(|(k, _)| k.ends_with(":ok") || k.ends_with(":ok:frozen")).map(|(_, v)| *v).sum();
    if all_successes == 0 {
        rep.engine_errors.push("no admin instruction succeeded".into());
    }
    rep
}

pub fn replay(_ctx: &Ctx, case: &Value) -> Report {
    let mut rep = Report::new(RULE);
    rep.nontrivial_floor = 0;
    rep.eval();
    let kind = case.get("kind").and_then(|k| k.as_str()).unwrap_or("");
    let inner = case.get("case").cloned().unwrap_or(Value::Null);
    match kind {
        "admin" => match serde_json::from_value::<Case>(inner) {
            Ok(c) => {
                let mut st = Stats::default();
                let mut cache: Cache = BTreeMap::new();
                if let Err((sig, msg)) = run_case(&c, &mut cache, &mut st) {
                    rep.violation(&sig, msg, case.clone());
                }
            }
            Err(e) => rep.engine_errors.push(format!("bad replay: {e}")),
        },
        "deleverage" => match serde_json::from_value::<DCase>(inner) {
            Ok(c) => {
                let mut st = DStats::default();
                if let Err((sig, msg)) = run_dcase(&c, &mut st) {
                    rep.violation(&sig, msg, case.clone());
                }
            }
            Err(e) => rep.engine_errors.push(format!("bad replay: {e}")),
        },
        other => rep.engine_errors.push(format!("bad replay: unknown kind {other:?}")),
    }
    rep
}
