//! C07 — bankruptcy: only real bad debt, by entitled signers, insurance first, rest pro rata,
//! share value never negative, wiped-out banks stay shut, bankrupt account disabled.
use crate::common::*;
use crate::model::*;
use crate::num::*;
use crate::outln;
use crate::props::c04::c04_bank_strategy_pub;
use crate::snap::{bank_snap, bits};
use crate::svm::{err_code, Vm};
use crate::world::*;
use marginfi_type_crate::types::{BankConfigOpt, BankOperationalState, ACCOUNT_DISABLED};
use num_traits::{Signed, ToPrimitive, Zero};
use proptest::prelude::*;
use serde::{Deserialize, Serialize};
use serde_json::{json, Value};
use solana_program::pubkey::Pubkey;

#[derive(Clone, Debug, Serialize, Deserialize)]
pub struct BkCase {
    pub spec: WorldSpec,
    /// deposits of the other lenders into the debt bank
    pub lenders: Vec<u64>,
    pub collateral: u64,
    /// fraction (x/65536) of min(borrowing power, bank liquidity) borrowed
    pub borrow_frac: u32,
    /// insurance fund as a fraction (x/65536) of the debt, 0 = none; special: 65536 = exactly the debt
    pub insurance_frac: u32,
    pub insurance_delta: i8,
    /// collateral price after the crash in per-mille of the original (0 = minimum price)
    pub crash_pm: u16,
    /// 0 admin, 1 risk admin, 2 stranger
    pub signer: u8,
    pub permissionless: bool,
    /// 0 = the debt bank, 1 = a bank where the account owes nothing
    pub wrong_bank: bool,
    pub wait: u32,
    /// use emA != spot on the collateral to separate the readings
    pub ema_skew_pm: u16,
    /// operational state the admin gives the COLLATERAL bank after the borrow: 0 operational, 1 reduce-only, 2 paused
    /// (its deposits then count for nothing towards new borrowing, but they are still assets of the account)
    #[serde(default)]
    pub collateral_state: u8,
    /// 0 = one debt; k > 0 = before the main borrow the victim also borrows k / 256 of its borrowing power from the third
    /// bank, so that after the first settlement a SECOND debt is left: the account is disabled already, but a second
    /// write-off still needs it to be bankrupt (probed with the collateral price as crashed and after a recovery)
    #[serde(default)]
    pub second_debt: u8,
}

pub fn case_strategy() -> impl Strategy<Value = BkCase> {
    (
        prop::collection::vec(c04_bank_strategy_pub(), 3..=3),
        prop::collection::vec(prop_oneof![1u64..1000, 1000u64..1_000_000_000, 1_000_000_000u64..1_000_000_000_000_000], 0..=4),
        prop_oneof![1000u64..1_000_000_000, 1_000_000_000u64..10_000_000_000_000_000],
        prop_oneof![3 => 1000u32..65_536, 3 => Just(65_536u32)],
        (prop_oneof![3 => Just(0u32), 3 => 1u32..65_536, 2 => Just(65_536u32), 2 => 65_536u32..200_000], -2i8..=2),
        prop_oneof![5 => Just(0u16), 2 => 1u16..50, 1 => 50u16..1000],
        0u8..3,
        prop::bool::weighted(0.3),
        prop::bool::weighted(0.08),
        prop_oneof![2 => Just(0u32), 2 => 1u32..100_000, 3 => 100_000u32..100_000_000],
        (prop_oneof![3 => Just(1000u16), 1 => 500u16..2000], prop_oneof![6 => Just(0u8), 2 => Just(1u8), 1 => Just(2u8)], prop_oneof![3 => Just(0u8), 1 => 1u8..=8, 1 => 8u8..=120]),
    )
        .prop_map(|(mut banks, lenders, collateral, borrow_frac, (insurance_frac, insurance_delta), crash_pm, signer, permissionless, wrong_bank, wait, (ema_skew_pm, collateral_state, second_debt))| {
            // a re-stated collateral bank is mostly paired with a mild crash or none: the account then stays solvent and
            // the settlement must be refused whatever the bank's state
            let crash_pm = if collateral_state != 0 && crash_pm < 50 && crash_pm % 2 == 0 { 1000 - crash_pm * 10 } else { crash_pm };
            for (i, b) in banks.iter_mut().enumerate() {
                // the collateral bank keeps its generated collateral-value cap (an initial-weight discount only)
                if i != 0 {
                    b.init_limit = 0;
                }
                b.emode_tag = 0;
                b.emode_entries.clear();
                if i == 0 {
                    b.isolated = false;
                    if b.aw_i < 100_000 {
                        b.aw_i += 300_000;
                    }
                    if b.aw_m < b.aw_i {
                        b.aw_m = b.aw_i;
                    }
                }
                if i == 2 && second_debt > 0 {
                    // the second debt bank must be borrowable next to the first
                    b.isolated = false;
                }
                if i == 1 && second_debt > 0 {
                    b.isolated = false;
                }
                if i == 1 {
                    // a curve with real interest and fees so that debt can outgrow deposits
                    b.curve.zero = 50_000_000;
                    b.curve.hundred = 2_000_000_000;
                    b.curve.ins_fixed = 30_000;
                    b.curve.prot_fixed = 20_000;
                    b.curve.ins_ir = 100_000;
                    b.permissionless_bad_debt = permissionless;
                }
            }
            BkCase { spec: WorldSpec { banks, n_users: 7, program_fees_enabled: false, ..WorldSpec::default() }, lenders, collateral, borrow_frac, insurance_frac, insurance_delta, crash_pm, signer, permissionless, wrong_bank, wait, ema_skew_pm, collateral_state, second_debt }
        })
}

#[derive(Default, Debug)]
pub struct Stats {
    pub built: bool,
    pub success: bool,
    pub err: Option<u64>,
    pub regime: &'static str,
    pub depositors: usize,
    pub killed: bool,
    pub terminal_checked: bool,
    pub entitled: bool,
    pub collateral_restated: bool,
    pub hostile_tried: u64,
    pub hostile_accepted: u64,
    /// second settlement (the other debt of the already disabled account): attempts / successes, with the collateral
    /// price as crashed and after a recovery
    pub second_crashed: Option<bool>,
    pub second_recovered: Option<bool>,
}

/// true iff under EVERY admissible reading (spot / EMA price x the two given states) the account's assets are worth at
/// least its liabilities or at least ten cents, i.e. it is definitely NOT bankrupt
fn definitely_not_bankrupt(vms: [&Vm; 2], acct: &Pubkey) -> bool {
    for vm in vms {
        for kind in [PriceKind::Ema, PriceKind::Spot] {
            match equity(vm, acct, kind) {
                None => return false, // undefined reading cannot prove non-bankruptcy
                Some((a, l, ign)) => {
                    let solvent = &a.lo - &ign >= l.hi;
                    let rich = &a.lo - &ign >= q_ratio(1, 10);
                    if !(solvent || rich) {
                        return false;
                    }
                }
            }
        }
    }
    true
}

fn set_token_amount(vm: &mut Vm, k: &Pubkey, amount: u64) {
    vm.modify(k, |a| {
        if a.data.len() >= 72 {
            a.data[64..72].copy_from_slice(&amount.to_le_bytes());
        }
    });
}

fn transfer_fee_post(spec: &BankSpec, x: u64) -> u64 {
    if spec.token != 2 || spec.fee_bps == 0 {
        return x;
    }
    let fee = ((x as u128 * spec.fee_bps as u128 + 9_999) / 10_000).min(spec.fee_max as u128) as u64;
    x - fee
}

fn equity(vm: &Vm, acct: &Pubkey, kind: PriceKind) -> Option<(Iv, Iv, Q)> {
    let a = read_macct(vm, acct)?;
    let h = health_with_kind(vm, &a, Req::Equity, vm.now(), Some(kind));
    Some((h.assets?, h.liabs?, h.ignored))
}

pub fn run_case(c: &BkCase, stats: &mut Stats) -> Result<(), (String, String)> {
    let Ok(mut w) = World::build(&c.spec) else { return Ok(()) };
    let (cb, db, xb) = (0usize, 1usize, 2usize);
    let victim = w.users[0].clone();
    // lenders
    let mut n_dep = 0;
    let anchor = w.users[1].clone();
    // an anchor lender so that there is always liquidity
    let ix = w.ix_deposit(anchor.accts[0], anchor.auth, db, anchor.tokens[db], 1_000_000 + c.lenders.iter().fold(0u64, |a, b| a.wrapping_add(*b)) % 1_000_000_000, None);
    if w.vm.exec(&ix).is_ok() {
        n_dep += 1;
    }
    for (i, amt) in c.lenders.iter().enumerate() {
        let u = w.users[2 + i].clone();
        let ix = w.ix_deposit(u.accts[0], u.auth, db, u.tokens[db], *amt, None);
        if w.vm.exec(&ix).is_ok() {
            n_dep += 1;
        }
    }
    let ix = w.ix_deposit(anchor.accts[0], anchor.auth, xb, anchor.tokens[xb], 1_000_000_000, None);
    let _ = w.vm.exec(&ix);
    stats.depositors = n_dep;
    // victim: collateral + borrow
    let ix = w.ix_deposit(victim.accts[0], victim.auth, cb, victim.tokens[cb], c.collateral, None);
    if w.vm.exec(&ix).is_err() {
        return Ok(());
    }
    let borrowing_power = |w: &World, bi: usize| -> u64 {
        let a = read_macct(&w.vm, &victim.accts[0]).unwrap();
        let h = health(&w.vm, &a, Req::Initial, w.vm.now());
        let bank = w.bank(bi);
        let ov = oracle_view(&w.vm, &bank, w.vm.now());
        match (h.health(), ov.high(PriceKind::Ema)) {
            (Some(hh), Some(p)) if hh.lo.is_positive() && p.hi.is_positive() => q_floor(&(&hh.lo / (&p.hi * q_w(bank.config.liability_weight_init)) * pow10(bank.mint_decimals as u32))).to_u64().unwrap_or(0),
            _ => 0,
        }
    };
    if c.second_debt > 0 {
        let p2 = borrowing_power(&w, xb).min(w.tok(&w.banks[xb].lv));
        let a2 = ((p2 as u128 * c.second_debt as u128) >> 8) as u64;
        if a2 > 0 {
            let ix = w.ix_borrow(victim.accts[0], victim.auth, xb, victim.tokens[xb], a2);
            let _ = w.vm.exec(&ix);
        }
    }
    let liq = w.tok(&w.banks[db].lv);
    let power = {
        let a = read_macct(&w.vm, &victim.accts[0]).unwrap();
        let h = health(&w.vm, &a, Req::Initial, w.vm.now());
        let bank = w.bank(db);
        let ov = oracle_view(&w.vm, &bank, w.vm.now());
        match (h.health(), ov.high(PriceKind::Ema)) {
            (Some(hh), Some(p)) if hh.lo.is_positive() && p.hi.is_positive() => q_floor(&(&hh.lo / (&p.hi * q_w(bank.config.liability_weight_init)) * pow10(bank.mint_decimals as u32))).to_u64().unwrap_or(0),
            _ => 0,
        }
    };
    let cap = power.min(liq);
    let mut amt = ((cap as u128 * c.borrow_frac as u128) >> 16) as u64;
    if amt == 0 {
        return Ok(());
    }
    // origination fee would push the debt above deposits; back off a little when borrowing everything
    let mut ok = false;
    for _ in 0..4 {
        let ix = w.ix_borrow(victim.accts[0], victim.auth, db, victim.tokens[db], amt);
        if w.vm.exec(&ix).is_ok() {
            ok = true;
            break;
        }
        amt = amt - amt / 50 - 1.min(amt);
        if amt == 0 {
            break;
        }
    }
    if !ok {
        return Ok(());
    }
    w.vm.advance(c.wait as i64);
    w.refresh_oracles();
    // bring the bank up to date to learn the debt, then fund the insurance vault relative to it
    let mut probe = w.vm.clone();
    let _ = probe.exec(&w.ix_accrue(db));
    let dkey = w.banks[db].key;
    let debt_q = {
        let b = read_bank(&probe, &dkey);
        let a = read_macct(&probe, &victim.accts[0]).unwrap();
        let l = a.lending_account.balances.iter().find(|x| x.active != 0 && x.bank_pk == dkey).map(|x| bits(x.liability_shares)).unwrap_or(0);
        q_bits(l) * q_w(b.liability_share_value)
    };
    let debt_units = q_ceil(&debt_q).to_u64().unwrap_or(u64::MAX / 2);
    let ins = if c.insurance_frac == 0 {
        0u64
    } else if c.insurance_frac == 65_536 {
        (debt_units as i128 + c.insurance_delta as i128).max(0) as u64
    } else {
        ((debt_units as u128 * c.insurance_frac as u128) >> 16).min(u64::MAX as u128 / 2) as u64
    };
    if ins > 0 {
        set_token_amount(&mut w.vm, &w.banks[db].iv.clone(), ins);
    }
    // the admin may take the collateral bank out of normal operation first
    if c.collateral_state != 0 {
        let mut o = BankConfigOpt::default();
        o.operational_state = Some(if c.collateral_state == 1 { BankOperationalState::ReduceOnly } else { BankOperationalState::Paused });
        let ix = w.ix_configure_bank(cb, o, w.roles.admin);
        if w.vm.exec(&ix).is_ok() {
            stats.collateral_restated = true;
        }
    }
    // crash the collateral
    {
        let o = w.banks[cb].spec.oracle.clone();
        let nm = if c.crash_pm == 0 { 1 } else { ((o.mant as i128 * c.crash_pm as i128) / 1000).max(1) as i64 };
        let ema = ((nm as i128 * c.ema_skew_pm as i128) / 1000).max(1) as i64;
        let _ = w.set_price(cb, nm, 0, if o.kind == 1 { ema } else { nm }, 0);
    }
    stats.built = true;
    let signer = match c.signer {
        0 => w.roles.admin,
        1 => w.roles.risk,
        _ => w.roles.stranger,
    };
    let target_bank = if c.wrong_bank { xb } else { db };
    let pre = w.vm.clone();
    let mut pre_acc = w.vm.clone();
    let _ = pre_acc.exec(&w.ix_accrue(target_bank));
    let ix = w.ix_bankruptcy(target_bank, victim.accts[0], signer);
    // hostile presentation of the VAULT slot: the liquidity vault replaced by a token account of the same mint that is
    // not the bank's (a user's; the bank's own fee vault). Judged by effect: whatever leaves the insurance vault must
    // arrive in the bank's liquidity vault ("the debt is covered from the bank's insurance vault as far as it reaches").
    {
        let lv = w.banks[target_bank].lv;
        let tkey0 = w.banks[target_bank].key;
        for (name, sub) in [("a user's token account", anchor.tokens[target_bank]), ("the bank's fee vault", w.banks[target_bank].fv)] {
            let mut v = ix.clone();
            let Some(pos) = v.accounts.iter().position(|m| m.pubkey == lv) else { continue };
            v.accounts[pos].pubkey = sub;
            let mut vm = pre.clone();
            stats.hostile_tried += 1;
            if vm.exec(&v).is_ok() {
                stats.hostile_accepted += 1;
                let (b0, b1) = (bank_snap(&pre, &tkey0).unwrap(), bank_snap(&vm, &tkey0).unwrap());
                let ins_out = b0.ins_vault as i128 - b1.ins_vault as i128;
                let vault_in = b1.vault as i128 - b0.vault as i128;
                let fee_allow = if w.banks[target_bank].spec.token == 2 { ins_out } else { 0 };
                if ins_out > 0 && vault_in + fee_allow < ins_out || (ins_out > 0 && vault_in <= 0) {
                    return Err((
                        "bankruptcy:cover-paid-elsewhere".into(),
                        format!("handle_bankruptcy with {name} in the liquidity-vault slot was accepted: the insurance vault paid {ins_out} but the bank's liquidity vault received {vault_in}"),
                    ));
                }
            }
        }
    }
    let mut r = w.vm.exec(&ix).map_err(|e| err_code(&e));
    if r.is_err() {
        // hostile presentation of the observation accounts: the collateral bank's group left out, replaced by the debt
        // bank's group, or no observation accounts at all. Whatever the program accepts is judged like an honest success.
        let ckey = w.banks[cb].key;
        let glen = w.risk_metas_for_bank(&ckey).len();
        let mut variants: Vec<solana_program::instruction::Instruction> = vec![];
        if let Some(pos) = ix.accounts.iter().rposition(|m| m.pubkey == ckey) {
            let mut v1 = ix.clone();
            v1.accounts.drain(pos..(pos + glen).min(v1.accounts.len()));
            variants.push(v1);
            let mut v2 = ix.clone();
            v2.accounts.splice(pos..(pos + glen).min(v2.accounts.len()), w.risk_metas_for_bank(&w.banks[db].key));
            variants.push(v2);
            // the collateral bank itself, but with another bank's (authentic) oracle account in its oracle slot
            if glen >= 2 && w.banks[db].oracle_kind != 0 {
                let mut v4 = ix.clone();
                v4.accounts[pos + 1] = solana_program::instruction::AccountMeta::new_readonly(w.banks[db].oracle_key, false);
                variants.push(v4);
            }
        }
        let n_obs = w.risk_metas(&victim.accts[0], None, None).len();
        if n_obs > 0 && ix.accounts.len() > n_obs {
            let mut v3 = ix.clone();
            let keep = v3.accounts.len() - n_obs;
            v3.accounts.truncate(keep);
            variants.push(v3);
        }
        for v in variants {
            let mut vm = pre.clone();
            stats.hostile_tried += 1;
            if vm.exec(&v).is_ok() {
                stats.hostile_accepted += 1;
                w.vm = vm;
                r = Ok(());
                break;
            }
        }
    }
    let post = w.vm.clone();
    if let Err(e) = r {
        stats.err = Some(e);
        return Ok(());
    }
    stats.success = true;
    let tkey = w.banks[target_bank].key;
    let b_pre = bank_snap(&pre, &tkey).unwrap();
    let b_acc = bank_snap(&pre_acc, &tkey).unwrap();
    let b_post = bank_snap(&post, &tkey).unwrap();
    // --- who may sign
    let permissionless = b_pre.flags & marginfi_type_crate::constants::PERMISSIONLESS_BAD_DEBT_SETTLEMENT_FLAG != 0;
    stats.entitled = c.signer < 2 || permissionless;
    if !(c.signer < 2 || permissionless) {
        return Err(("bankruptcy:unauthorized-signer".into(), "bad debt settled by a stranger on a bank that did not opt into permissionless settlement".into()));
    }
    // --- the account really was bankrupt (alarm only if it is not under every admissible reading)
    if definitely_not_bankrupt([&pre, &pre_acc], &victim.accts[0]) {
        return Err(("bankruptcy:account-not-bankrupt".into(), "bad debt written off although under every reading (spot/EMA x stored/accrued) assets are worth at least the liabilities or at least $0.10".into()));
    }
    // --- the account owed in this bank
    let l_pre = {
        let a = read_macct(&pre_acc, &victim.accts[0]).unwrap();
        a.lending_account.balances.iter().find(|x| x.active != 0 && x.bank_pk == tkey).map(|x| bits(x.liability_shares)).unwrap_or(0)
    };
    let d = q_bits(l_pre) * &b_acc.lsv;
    if d <= q_ratio(1, 10_000) {
        return Err(("bankruptcy:no-debt-in-bank".into(), format!("bad debt settled in a bank where the account owes {}", q_str(&d))));
    }
    // --- insurance first
    let spec = &w.banks[target_bank].spec;
    let i_avail = q_int(transfer_fee_post(spec, b_pre.ins_vault));
    let cover = q_min(d.clone(), i_avail.clone());
    let uncovered = &d - &cover;
    let vault_in = q_int(b_post.vault) - q_int(b_pre.vault);
    let ins_out = q_int(b_pre.ins_vault) - q_int(b_post.ins_vault);
    let u = q_int(16) * ulp() * (q_one() + &b_acc.a_shares + &b_acc.l_shares) * q_max(q_one(), q_max(b_acc.asv.clone(), b_acc.lsv.clone()));
    if &vault_in + &u < cover {
        return Err(("bankruptcy:insurance-not-used-first".into(), format!("debt {} insurance available {} but only {} reached the liquidity vault", q_str(&d), q_str(&i_avail), q_str(&vault_in))));
    }
    if vault_in > ins_out {
        return Err(("bankruptcy:vault-credit-exceeds-insurance-debit".into(), format!("liquidity vault +{} but insurance vault -{}", q_str(&vault_in), q_str(&ins_out))));
    }
    if ins_out > &cover + q_int(2) + q_int(spec.fee_max.min(u64::MAX / 4)) && ins_out > (&cover + q_int(2)) * q_ratio(10_000u64, (10_000u64.saturating_sub(spec.fee_bps as u64)).max(1)) + q_int(2) {
        return Err(("bankruptcy:insurance-overdrawn".into(), format!("insurance vault paid {} for a cover of {}", q_str(&ins_out), q_str(&cover))));
    }
    // --- the remainder is socialised pro rata and exactly
    let claims_pre = &b_acc.a_shares * &b_acc.asv;
    let claims_post = &b_post.a_shares * &b_post.asv;
    if b_post.asv.is_negative() {
        return Err(("bankruptcy:negative-share-value".into(), "asset share value went negative".into()));
    }
    if b_post.a_bits != b_acc.a_bits {
        return Err(("bankruptcy:deposit-shares-changed".into(), "total deposit shares changed in a bankruptcy (loss must be spread through the share value)".into()));
    }
    // every depositor keeps its shares (same proportion for all)
    for (k, a) in all_maccts(&post) {
        if k == victim.accts[0] {
            continue;
        }
        let before = read_macct(&pre_acc, &k);
        if let Some(bf) = before {
            let s0 = bf.lending_account.balances.iter().find(|x| x.active != 0 && x.bank_pk == tkey).map(|x| bits(x.asset_shares));
            let s1 = a.lending_account.balances.iter().find(|x| x.active != 0 && x.bank_pk == tkey).map(|x| bits(x.asset_shares));
            if s0 != s1 {
                return Err(("bankruptcy:depositor-singled-out".into(), format!("depositor {k} shares changed {:?} -> {:?}", s0, s1)));
            }
        }
    }
    let wipe = uncovered >= claims_pre;
    let a_u = (q_one() + &b_acc.a_shares) * ulp() * q_int(4) + &u;
    if wipe {
        stats.regime = "wipe-out";
        if !b_post.asv.is_zero() && uncovered > &claims_pre + &a_u {
            return Err(("bankruptcy:wipeout-left-value".into(), format!("uncovered loss {} >= deposits {} but share value is {}", q_str(&uncovered), q_str(&claims_pre), q_str(&b_post.asv))));
        }
    } else {
        stats.regime = if uncovered.is_zero() { "insured" } else { "socialised" };
        let loss = &claims_pre - &claims_post;
        if (&loss - &uncovered).abs() > a_u {
            return Err(("bankruptcy:socialised-amount".into(), format!("depositors lost {} but the uncovered bad debt is {} (debt {} cover {})", q_str(&loss), q_str(&uncovered), q_str(&d), q_str(&cover))));
        }
    }
    let killed = b_post.op_state == BankOperationalState::KilledByBankruptcy as u8;
    stats.killed = killed;
    if uncovered > &claims_pre + &a_u && !killed {
        return Err(("bankruptcy:not-killed".into(), format!("deposits {} fully consumed by uncovered loss {} but the bank is not shut", q_str(&claims_pre), q_str(&uncovered))));
    }
    if b_post.asv.is_zero() && !b_acc.asv.is_zero() && !killed {
        return Err(("bankruptcy:not-killed".into(), "share value reached zero but the bank is not shut".into()));
    }
    // --- account disabled, debt cleared
    let a_post = read_macct(&post, &victim.accts[0]).unwrap();
    if a_post.account_flags & ACCOUNT_DISABLED == 0 {
        return Err(("bankruptcy:account-not-disabled".into(), "bankrupt account is not disabled".into()));
    }
    let l_post = a_post.lending_account.balances.iter().find(|x| x.active != 0 && x.bank_pk == tkey).map(|x| bits(x.liability_shares)).unwrap_or(0);
    if q_bits(l_post) * &b_post.lsv >= q_ratio(1, 10_000) {
        return Err(("bankruptcy:debt-not-cleared".into(), format!("account still owes {}", q_str(&(q_bits(l_post) * &b_post.lsv)))));
    }
    // total debt fell by exactly the bad debt
    let dl = &b_acc.l_shares * &b_acc.lsv - &b_post.l_shares * &b_post.lsv;
    if (&dl - &d).abs() > u {
        return Err(("bankruptcy:total-debt-delta".into(), format!("total debt fell by {} for a bad debt of {}", q_str(&dl), q_str(&d))));
    }
    // --- a killed bank is permanently shut: no admin action may revive it
    if killed {
        stats.terminal_checked = true;
        // ... neither directly nor on the frozen-settings path (the admin freezes the bank's settings first: a frozen
        // bank's configure requests take another code path), nor with the state change bundled with other fields
        for freeze_first in [false, true] {
            for st in [BankOperationalState::Operational, BankOperationalState::Paused, BankOperationalState::ReduceOnly] {
                for bundled in [false, true] {
                    let mut vm = post.clone();
                    if freeze_first {
                        let mut f = BankConfigOpt::default();
                        f.freeze_settings = Some(true);
                        let _ = vm.exec(&w.ix_configure_bank(target_bank, f, w.roles.admin));
                    }
                    let mut o = BankConfigOpt::default();
                    o.operational_state = Some(st);
                    if bundled {
                        o.deposit_limit = Some(u64::MAX / 2);
                        o.borrow_limit = Some(u64::MAX / 2);
                    }
                    let _ = vm.exec(&w.ix_configure_bank(target_bank, o, w.roles.admin));
                    let b = read_bank(&vm, &tkey);
                    if b.config.operational_state != BankOperationalState::KilledByBankruptcy {
                        return Err((
                            "bankruptcy:killed-bank-revived".into(),
                            format!("configure_bank(operational_state = {:?}{}) took a {}bank out of KilledByBankruptcy", st, if bundled { ", limits" } else { "" }, if freeze_first { "settings-frozen " } else { "" }),
                        ));
                    }
                }
            }
        }
        // and it accepts no deposit
        let mut vm = post.clone();
        let ix = w.ix_deposit(anchor.accts[0], anchor.auth, target_bank, anchor.tokens[target_bank], 1000, None);
        if vm.exec(&ix).is_ok() {
            return Err(("bankruptcy:killed-bank-accepts-deposit".into(), "deposit into a killed bank succeeded".into()));
        }
    }
    // --- a second debt of the (now disabled) account: a further write-off needs the account to be bankrupt STILL. Tried
    // by the group admin with the collateral price as crashed, and after the price recovered to its original level.
    let other = if target_bank == db { xb } else { db };
    let okey = w.banks[other].key;
    let owes_other = {
        let a = read_macct(&post, &victim.accts[0]).unwrap();
        a.lending_account.balances.iter().find(|x| x.active != 0 && x.bank_pk == okey).map(|x| bits(x.liability_shares)).unwrap_or(0) > 0
    };
    if owes_other {
        for recovered in [false, true] {
            let mut w2 = w.clone();
            w2.vm = post.clone();
            if recovered {
                // (World::set_price overwrites the bank's spec: the original level is the case's)
                let m0 = c.spec.banks[cb].oracle.mant;
                let _ = w2.set_price(cb, m0, 0, m0, 0);
            }
            let before = w2.vm.clone();
            let mut before_acc = w2.vm.clone();
            let _ = before_acc.exec(&w2.ix_accrue(other));
            let ix2 = w2.ix_bankruptcy(other, victim.accts[0], w2.roles.admin);
            let ok2 = w2.vm.exec(&ix2).is_ok();
            if recovered {
                stats.second_recovered = Some(ok2);
            } else {
                stats.second_crashed = Some(ok2);
            }
            if ok2 && recovered && std::env::var("MFV_DEBUG_C07").is_ok() {
                for kind in [PriceKind::Ema, PriceKind::Spot] {
                    eprintln!("DEBUG second/recovered {:?}: {:?}", kind as u8, equity(&before, &victim.accts[0], kind).map(|(a, l, i)| (q_str(&a.lo), q_str(&l.hi), q_str(&i))));
                }
            }
            if ok2 && definitely_not_bankrupt([&before, &before_acc], &victim.accts[0]) {
                return Err((
                    "bankruptcy:account-not-bankrupt".into(),
                    format!(
                        "SECOND settlement (bank #{other}, after bank #{target_bank} was settled and the account disabled{}): bad debt written off although under every reading assets are worth at least the liabilities or at least $0.10",
                        if recovered { ", collateral price recovered" } else { "" }
                    ),
                ));
            }
        }
    }
    Ok(())
}

const RULE: &str = "proptest: 3-bank worlds (generated decimals, SPL / Token-2022 / transfer-fee mints, oracles with EMA skew), 1-5 depositors with generated shares in the debt bank, a victim that borrows a generated fraction (up to all) of the liquidity against collateral whose price is then crashed (to the minimum or only partly = control), interest with fees accruing for a generated time, the collateral bank left operational / set reduce-only / paused by the admin after the borrow (its deposits are still the account's assets), insurance vault funded at {0, fraction of, exactly +-2 of, more than} the accrued debt, signer in {admin, risk admin, stranger} x permissionless flag, right / wrong bank. On success: signer entitled; account bankrupt under at least one admissible reading (spot/EMA x stored/accrued); debt in this bank > 0.0001; insurance used first and not overdrawn; deposit shares untouched for every depositor and total claims fall by exactly debt - cover; share value >= 0; a second debt (a quarter..two fifths of the cases: the victim also owes the third bank) is tried after the first settlement with the price as crashed and after a recovery - a success needs the account to be bankrupt still; wipe-out => bank killed, and a killed bank survives every configure_bank(operational_state) and refuses deposits; account disabled, debt cleared, total debt falls by the bad debt. Non-trivial = successful settlement with >= 2 depositors; regimes (insured / socialised / wipe-out) and rejection codes are counted.";

pub fn run(ctx: &Ctx) -> Report {
    let cases: u32 = ctx.tier.pick(5000, 250_000);
    let mut rep = par_workers(ctx.threads, |wi| {
        let mut rep = Report::new(RULE);
        let strat = case_strategy();
        let outcome = run_prop(ctx.seed_bytes("c07", wi as u64), cases, &strat, |c, counting| {
            let mut st = Stats::default();
            let r = run_case(c, &mut st);
            if counting {
                rep.eval();
                rep.add_extra("hostile_observation_lists_tried", st.hostile_tried);
                rep.add_extra("hostile_observation_lists_accepted", st.hostile_accepted);
                if st.built {
                    rep.label("built");
                }
                if st.success {
                    rep.label(&format!("settled:{}", st.regime));
                    rep.label(&format!("signer:{}:perm={}", c.signer, c.permissionless));
                }
                if st.killed {
                    rep.label("bank-killed");
                }
                if st.terminal_checked {
                    rep.label("terminality-checked");
                }
                if let Some(e) = st.err {
                    rep.label(&format!("rejected:{e}"));
                }
                if let Some(ok) = st.second_crashed {
                    rep.label(&format!("second-settlement:still-crashed:{}", if ok { "settled" } else { "refused" }));
                }
                if let Some(ok) = st.second_recovered {
                    rep.label(&format!("second-settlement:price-recovered:{}", if ok { "settled" } else { "refused" }));
                }
                if st.collateral_restated {
                    rep.label(&format!("collateral-bank-{}:{}", if c.collateral_state == 1 { "reduce-only" } else { "paused" }, if st.success { "settled" } else { "refused" }));
                }
                if st.success && st.depositors >= 2 {
                    rep.nontrivial_case(&json!({"r": st.regime, "n": st.depositors, "s": c.signer, "p": c.permissionless, "i": c.insurance_frac, "d": c.insurance_delta, "t": c.spec.banks[1].token, "w": c.wait, "b": c.borrow_frac}));
                    if rep.samples.len() < 4 {
                        rep.sample(json!({"regime": st.regime, "depositors": st.depositors, "signer": c.signer, "permissionless": c.permissionless, "insurance_frac": c.insurance_frac, "insurance_delta": c.insurance_delta, "debt_bank_token": c.spec.banks[1].token, "wait": c.wait}));
                    }
                }
            }
            r.map_err(|(s, m)| format!("{s}|{m}"))
        });
        if let Some((c, msg)) = outcome.failure {
            let (sig, m) = msg.split_once('|').map(|(a, b)| (a.to_string(), b.to_string())).unwrap_or((msg.clone(), msg.clone()));
            rep.violation(&sig, m, serde_json::to_value(&c).unwrap());
        }
        rep
    });
    rep.nontrivial_floor = ctx.tier.pick(30, 300);
    rep
}

pub fn replay(_ctx: &Ctx, case: &Value) -> Report {
    let mut rep = Report::new(RULE);
    rep.nontrivial_floor = 0;
    match serde_json::from_value::<BkCase>(case.clone()) {
        Ok(c) => {
            let mut st = Stats::default();
            rep.eval();
            if let Err((sig, msg)) = run_case(&c, &mut st) {
                rep.violation(&sig, msg, case.clone());
            }
            outln!("replay stats: {:?}", st);
        }
        Err(e) => rep.engine_errors.push(format!("bad replay: {e}")),
    }
    rep
}
