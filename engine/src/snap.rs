//! Exact snapshots of banks / accounts / vaults taken from raw account bytes.
use crate::num::*;
use crate::svm::Vm;
use crate::world::*;
use fixed::types::I80F48;
use marginfi_type_crate::types::{Bank, MarginfiAccount};
use num_bigint::BigInt;
use solana_program::pubkey::Pubkey;
use std::collections::BTreeMap;

#[derive(Clone, Debug)]
pub struct BankSnap {
    pub key: Pubkey,
    pub a_shares: Q,
    pub l_shares: Q,
    pub a_bits: i128,
    pub l_bits: i128,
    pub asv: Q,
    pub lsv: Q,
    pub f_ins: Q,
    pub f_grp: Q,
    pub f_prog: Q,
    pub vault: u64,
    pub ins_vault: u64,
    pub fee_vault: u64,
    pub last_update: i64,
    pub flags: u64,
    pub op_state: u8,
    pub deposit_limit: u64,
    pub borrow_limit: u64,
    pub raw: Bank,
}
impl BankSnap {
    pub fn assets(&self) -> Q {
        &self.a_shares * &self.asv
    }
    pub fn liabs(&self) -> Q {
        &self.l_shares * &self.lsv
    }
    pub fn fees(&self) -> Q {
        &self.f_ins + &self.f_grp + &self.f_prog
    }
    /// A*asv - L*lsv + fees
    pub fn net_claims(&self) -> Q {
        self.assets() - self.liabs() + self.fees()
    }
}

pub fn bits(w: marginfi_type_crate::types::WrappedI80F48) -> i128 {
    I80F48::from(w).to_bits()
}

pub fn bank_snap(vm: &Vm, key: &Pubkey) -> Option<BankSnap> {
    let b = try_read_bank(vm, key)?;
    Some(BankSnap {
        key: *key,
        a_shares: q_w(b.total_asset_shares),
        l_shares: q_w(b.total_liability_shares),
        a_bits: bits(b.total_asset_shares),
        l_bits: bits(b.total_liability_shares),
        asv: q_w(b.asset_share_value),
        lsv: q_w(b.liability_share_value),
        f_ins: q_w(b.collected_insurance_fees_outstanding),
        f_grp: q_w(b.collected_group_fees_outstanding),
        f_prog: q_w(b.collected_program_fees_outstanding),
        vault: token_amount(vm.data(&b.liquidity_vault)),
        ins_vault: token_amount(vm.data(&b.insurance_vault)),
        fee_vault: token_amount(vm.data(&b.fee_vault)),
        last_update: b.last_update,
        flags: b.flags,
        op_state: b.config.operational_state as u8,
        deposit_limit: b.config.deposit_limit,
        borrow_limit: b.config.borrow_limit,
        raw: b,
    })
}

#[derive(Clone, Debug)]
pub struct PosSnap {
    pub bank: Pubkey,
    pub tag: u8,
    pub a_bits: i128,
    pub l_bits: i128,
    pub slot: usize,
}

#[derive(Clone)]
pub struct AcctSnap {
    pub key: Pubkey,
    pub flags: u64,
    pub authority: Pubkey,
    pub positions: Vec<PosSnap>,
    pub raw: MarginfiAccount,
}

pub fn acct_snap(key: &Pubkey, a: &MarginfiAccount) -> AcctSnap {
    let mut positions = vec![];
    for (i, b) in a.lending_account.balances.iter().enumerate() {
        if b.active != 0 {
            positions.push(PosSnap { bank: b.bank_pk, tag: b.bank_asset_tag, a_bits: bits(b.asset_shares), l_bits: bits(b.liability_shares), slot: i });
        }
    }
    AcctSnap { key: *key, flags: a.account_flags, authority: a.authority, positions, raw: *a }
}

/// Whole-store snapshot of the marginfi state relevant to the ledger monitors.
#[derive(Clone)]
pub struct StoreSnap {
    pub banks: BTreeMap<Pubkey, BankSnap>,
    pub accts: BTreeMap<Pubkey, AcctSnap>,
    /// per bank: sum over all accounts of (asset share bits, liability share bits)
    pub sums: BTreeMap<Pubkey, (BigInt, BigInt)>,
    pub now: i64,
}

pub fn store_snap(vm: &Vm) -> StoreSnap {
    let mut banks = BTreeMap::new();
    for (k, _) in all_banks(vm) {
        if let Some(s) = bank_snap(vm, &k) {
            banks.insert(k, s);
        }
    }
    let mut accts = BTreeMap::new();
    let mut sums: BTreeMap<Pubkey, (BigInt, BigInt)> = BTreeMap::new();
    for (k, a) in all_maccts(vm) {
        let s = acct_snap(&k, &a);
        for p in &s.positions {
            let e = sums.entry(p.bank).or_insert((BigInt::from(0), BigInt::from(0)));
            e.0 += BigInt::from(p.a_bits);
            e.1 += BigInt::from(p.l_bits);
        }
        accts.insert(k, s);
    }
    StoreSnap { banks, accts, sums, now: vm.now() }
}
