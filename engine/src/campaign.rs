//! The shared stateful campaign: generated worlds, generated operation sequences, an interpreter
//! that turns each op into a real transaction, and step records handed to the monitors.
use crate::common::idx;
use crate::snap::*;
use crate::svm::{err_code, Vm};
use crate::world::*;
use marginfi_type_crate::types::{BankConfigOpt, ACCOUNT_DISABLED};
use proptest::prelude::*;
use serde::{Deserialize, Serialize};
use solana_program::{instruction::Instruction, pubkey::Pubkey};

#[derive(Clone, Debug, Serialize, Deserialize, PartialEq)]
pub enum Op {
    /// rel: 0 absolute amount; 1 = fraction amt/65536 of a natural reference (wallet / position /
    /// vault liquidity); 2 = reference + (amt % 5) - 2 (boundary)
    Deposit { u: u16, b: u16, amt: u64, rel: u8, up: u8 },
    Withdraw { u: u16, b: u16, amt: u64, rel: u8, all: bool },
    Borrow { u: u16, b: u16, amt: u64, rel: u8 },
    Repay { u: u16, b: u16, amt: u64, rel: u8, all: bool },
    Liquidate { lq: u16, le: u16, asset: u16, liab: u16, amt: u64, rel: u8 },
    Accrue { b: u16 },
    Collect { b: u16 },
    WithdrawFees { b: u16, amt: u64, ins: bool },
    /// crash: first crash the price of all the account's collateral to the minimum
    Bankrupt { u: u16, b: u16, signer: u8, crash: bool },
    CloseBalance { u: u16, b: u16 },
    /// multiply the bank's price by num/1000, set conf to conf_bps of price
    Price { b: u16, num: u16, conf_bps: u16 },
    Wait { secs: u32 },
    /// move the price of an indebted user's main collateral so that its maintenance health becomes
    /// -(depth/1000) x liabilities (mode 0), or crash all its collateral to the minimum price (mode 1)
    Distress { le: u16, mode: u8, depth: u16 },
    /// receivership bracket: start, withdraw(wb,wamt), repay(rb,ramt), end
    Receivership { lq: u16, le: u16, wb: u16, wamt: u64, rb: u16, ramt: u64, rel: u8 },
    /// flash-loan bracket: start, borrow(b,amt), [repay_all], end
    Flash { u: u16, b: u16, amt: u64, rel: u8, repay: bool },
    /// admin reconfiguration: kind 0 deposit limit, 1 borrow limit, 2 op state, 3 init limit,
    /// 4 asset tag (val % 7: default, SOL, staked, kamino, drift, solend, invalid),
    /// 5 a whole new interest-rate configuration (curve + the five fee fields, derived from val through the curve
    /// generator) by the curve admin, 6 the four weights (derived from val, any tuple — the program's validator
    /// decides), 7 the global fee admin switches the group's program fees on / off (val & 1), 8 the global fee admin
    /// edits the program fee rates (val) and — when val bit 63 is clear — propagates them to the group in the same
    /// transaction, 9 oracle max age / max confidence, 10 risk tier (val & 1 = isolated),
    /// 11 permissionless bad-debt settlement flag (val & 1)
    Configure { b: u16, kind: u8, val: u64 },
    /// bank sunset steps: 0 = admin allows token-less repayments on the bank, 1 = risk admin forces
    /// "repayments complete", 2 = risk admin purges user u's balance in the bank,
    /// 3 = risk-admin deleverage bracket [start, repay_all (token-less when allowed), end] on user u
    Sunset { b: u16, u: u16, step: u8 },
    Transfer { u: u16 },
    /// payer: 0 = the authority pays the fee / receives the rent itself, 1 = a separate wallet (the stranger) does
    CloseAccount { u: u16, #[serde(default)] payer: u8 },
    Freeze { u: u16, on: bool },
    Pulse { u: u16 },
    /// emissions: step 0 = the emissions admin sets emissions up on bank b (flags 1 borrow / 2 lending / 3 both
    /// from val % 3 + 1, rate 10^(6 + 3 (val / 3 % 3)) per whole token per year, 10^12 funded), 1 = user u claims
    /// (withdraw_emissions to its own token account), 2 = anyone settles user u's emissions in bank b
    Emissions { b: u16, u: u16, step: u8, val: u8 },
    /// what-if probe: the group admin closes bank b on a CLONE of the store (the campaign's world is left
    /// untouched); the step reports whether the program accepted, C02 judges the consequence clause
    CloseBank { b: u16 },
}

impl Op {
    pub fn name(&self) -> &'static str {
        match self {
            Op::Deposit { .. } => "deposit",
            Op::Withdraw { all: true, .. } => "withdraw_all",
            Op::Withdraw { .. } => "withdraw",
            Op::Borrow { .. } => "borrow",
            Op::Repay { all: true, .. } => "repay_all",
            Op::Repay { .. } => "repay",
            Op::Liquidate { .. } => "liquidate",
            Op::Accrue { .. } => "accrue",
            Op::Collect { .. } => "collect",
            Op::WithdrawFees { ins: true, .. } => "withdraw_insurance",
            Op::WithdrawFees { .. } => "withdraw_fees",
            Op::Bankrupt { .. } => "bankruptcy",
            Op::CloseBalance { .. } => "close_balance",
            Op::Price { .. } => "price",
            Op::Wait { .. } => "wait",
            Op::Distress { .. } => "distress",
            Op::Receivership { .. } => "receivership",
            Op::Flash { .. } => "flashloan",
            Op::Configure { .. } => "configure",
            Op::Sunset { step: 0, .. } => "sunset_allow",
            Op::Sunset { step: 1, .. } => "sunset_force_complete",
            Op::Sunset { step: 2, .. } => "purge",
            Op::Sunset { .. } => "deleverage",
            Op::Transfer { .. } => "transfer",
            Op::CloseAccount { .. } => "close_account",
            Op::Freeze { .. } => "freeze",
            Op::Pulse { .. } => "pulse",
            Op::Emissions { .. } => "emissions",
            Op::CloseBank { .. } => "close_bank",
        }
    }
}

/// What was actually executed for one op.
#[derive(Clone, Debug)]
pub struct Step {
    pub index: usize,
    pub op: Op,
    pub ok: bool,
    pub err: Option<(usize, u64)>,
    /// resolved fields (if applicable)
    pub user: Option<usize>,
    pub macct: Option<Pubkey>,
    pub other_macct: Option<Pubkey>,
    pub bank: Option<usize>,
    pub bank2: Option<usize>,
    pub amount: u64,
    pub ixs: Vec<Instruction>,
    /// user token account that pays/receives (for value-flow checks) with pre/post balances
    pub user_token: Option<(Pubkey, u64, u64)>,
    pub skipped: bool,
    pub skip_why: &'static str,
    pub now: i64,
    /// the account store before the op (cheap persistent clone) for differential probes
    pub pre_vm: Option<Vm>,
    /// the op ran on a clone of the store only (what-if probe): `ok` is the program's answer, nothing was committed
    pub probe: bool,
}

pub struct Runner {
    pub w: World,
    pub snap: StoreSnap,
    pub steps: usize,
    /// accounts created by transfers: (user index -> extra accounts)
    pub disabled_seen: u64,
}

fn amount_abs_strategy() -> impl Strategy<Value = u64> {
    prop_oneof![
        4 => 0u64..=3,
        6 => 1u64..1000,
        10 => 1000u64..10_000_000,
        10 => 10_000_000u64..1_000_000_000_000,
        2 => 1_000_000_000_000u64..(1u64 << 62),
        1 => Just(u64::MAX),
        1 => Just(u64::MAX - 1),
        2 => (0u32..63).prop_map(|k| (1u64 << k) + 1),
        2 => (1u32..63).prop_map(|k| (1u64 << k) - 1),
    ]
}
fn amt_rel() -> impl Strategy<Value = (u64, u8)> {
    prop_oneof![
        5 => amount_abs_strategy().prop_map(|a| (a, 0u8)),
        6 => (0u64..=65536).prop_map(|a| (a, 1u8)),
        2 => (0u64..5).prop_map(|a| (a, 2u8)),
    ]
}

pub fn op_strategy() -> impl Strategy<Value = Op> {
    let i = || any::<u16>();
    prop_oneof![
        20 => (i(), i(), amt_rel(), 0u8..3).prop_map(|(u, b, (amt, rel), up)| Op::Deposit { u, b, amt, rel, up }),
        10 => (i(), i(), amt_rel(), prop::bool::weighted(0.25)).prop_map(|(u, b, (amt, rel), all)| Op::Withdraw { u, b, amt, rel, all }),
        16 => (i(), i(), amt_rel()).prop_map(|(u, b, (amt, rel))| Op::Borrow { u, b, amt, rel }),
        9 => (i(), i(), amt_rel(), prop::bool::weighted(0.3)).prop_map(|(u, b, (amt, rel), all)| Op::Repay { u, b, amt, rel, all }),
        8 => (i(), i(), i(), i(), amt_rel()).prop_map(|(lq, le, asset, liab, (amt, rel))| Op::Liquidate { lq, le, asset, liab, amt, rel }),
        3 => i().prop_map(|b| Op::Accrue { b }),
        3 => i().prop_map(|b| Op::Collect { b }),
        2 => (i(), amount_abs_strategy(), any::<bool>()).prop_map(|(b, amt, ins)| Op::WithdrawFees { b, amt, ins }),
        4 => (i(), i(), 0u8..4, prop::bool::weighted(0.6)).prop_map(|(u, b, signer, crash)| Op::Bankrupt { u, b, signer, crash }),
        2 => (i(), i()).prop_map(|(u, b)| Op::CloseBalance { u, b }),
        7 => (i(), prop_oneof![1 => Just(0u16), 3 => 1u16..500, 3 => 500u16..1000, 2 => 1000u16..3000, 1 => Just(1000u16)], prop_oneof![3 => Just(0u16), 2 => 0u16..100, 1 => 100u16..2000]).prop_map(|(b, num, conf_bps)| Op::Price { b, num, conf_bps }),
        9 => prop_oneof![2 => Just(0u32), 3 => 1u32..120, 3 => 120u32..100_000, 2 => 100_000u32..40_000_000, 1 => 40_000_000u32..160_000_000].prop_map(|secs| Op::Wait { secs }),
        5 => (i(), prop_oneof![4 => Just(0u8), 1 => Just(1u8)], prop_oneof![3 => 1u16..30, 2 => 30u16..300, 1 => 300u16..900]).prop_map(|(le, mode, depth)| Op::Distress { le, mode, depth }),
        4 => (i(), i(), i(), amt_rel(), i(), amount_abs_strategy()).prop_map(|(lq, le, wb, (wamt, rel), rb, ramt)| Op::Receivership { lq, le, wb, wamt, rb, ramt, rel }),
        3 => (i(), i(), amt_rel(), any::<bool>()).prop_map(|(u, b, (amt, rel), repay)| Op::Flash { u, b, amt, rel, repay }),
        3 => (i(), 0u8..4, prop_oneof![Just(0u64), Just(1u64), Just(u64::MAX), amount_abs_strategy()]).prop_map(|(b, kind, val)| Op::Configure { b, kind, val }),
        2 => (i(), 0u64..7).prop_map(|(b, val)| Op::Configure { b, kind: 4, val }),
        3 => (i(), prop_oneof![3 => Just(5u8), 3 => Just(6u8), 2 => Just(7u8), 2 => Just(8u8), 1 => Just(9u8), 1 => Just(10u8), 1 => Just(11u8)], any::<u64>()).prop_map(|(b, kind, val)| Op::Configure { b, kind, val }),
        4 => (i(), i(), prop_oneof![1 => Just(0u8), 1 => Just(1u8), 3 => Just(2u8), 2 => Just(3u8)]).prop_map(|(b, u, step)| Op::Sunset { b, u, step }),
        1 => i().prop_map(|u| Op::Transfer { u }),
        1 => (i(), 0u8..2).prop_map(|(u, payer)| Op::CloseAccount { u, payer }),
        1 => (i(), any::<bool>()).prop_map(|(u, on)| Op::Freeze { u, on }),
        1 => i().prop_map(|u| Op::Pulse { u }),
        3 => (i(), i(), prop_oneof![3 => Just(0u8), 2 => Just(1u8), 1 => Just(2u8)], any::<u8>()).prop_map(|(b, u, step, val)| Op::Emissions { b, u, step, val }),
        2 => i().prop_map(|b| Op::CloseBank { b }),
    ]
}

pub fn curve_strategy() -> impl Strategy<Value = CurveSpec> {
    (
        0u32..1_000_000_000,
        prop::collection::vec((1u32..u32::MAX, 0u32..u32::MAX), 0..=5),
        0u32..2_000_000_000,
        prop::array::uniform5(prop_oneof![3 => Just(0u32), 2 => 0u32..200_000, 1 => 200_000u32..1_000_000]),
    )
        .prop_map(|(zero, mut pts, hundred_extra, fees)| {
            pts.sort();
            pts.dedup_by_key(|p| p.0);
            let mut rates: Vec<u32> = pts.iter().map(|p| p.1).collect();
            rates.push(zero);
            let hundred = zero.saturating_add(hundred_extra).max(1);
            // rates must be within [zero, hundred], non-decreasing
            let mut rs: Vec<u32> = rates.iter().map(|r| zero + (*r % (hundred - zero + 1))).collect();
            rs.pop();
            rs.sort();
            let points: Vec<(u32, u32)> = pts.iter().zip(rs.iter()).map(|(p, r)| (p.0, *r)).collect();
            CurveSpec { zero, hundred, points, ins_fixed: fees[0], ins_ir: fees[1], prot_fixed: fees[2], prot_ir: fees[3], orig: fees[4] / 10 }
        })
}

pub fn oracle_strategy() -> impl Strategy<Value = OracleSpec> {
    (0u8..3, 1i64..2_000_000_000, prop_oneof![4 => Just(-6i32), 2 => -9i32..=-2, 1 => -2i32..=0], 0u16..300, 900u16..1100).prop_map(|(kind, mant, expo, conf_bps, ema_num)| {
        if kind == 0 {
            OracleSpec::fixed(mant, expo)
        } else {
            let conf = (mant as u128 * conf_bps as u128 / 10_000) as u64;
            let ema = (mant as i128 * ema_num as i128 / 1000).max(1) as i64;
            OracleSpec { kind, mant, expo, conf, ema_mant: if kind == 1 { ema } else { mant }, ema_conf: conf, max_age: 100, max_conf: 0 }
        }
    })
}

#[derive(Clone, Debug)]
pub struct GenCfg {
    pub max_banks: usize,
    pub max_users: usize,
    pub max_ops: usize,
    pub t22: bool,
    pub emode: bool,
}
impl Default for GenCfg {
    fn default() -> Self {
        GenCfg { max_banks: 4, max_users: 4, max_ops: 40, t22: true, emode: false }
    }
}

pub fn bank_strategy(cfg: &GenCfg) -> impl Strategy<Value = BankSpec> {
    let t22 = cfg.t22;
    (
        (prop_oneof![6 => Just(6u8), 3 => Just(9u8), 3 => 0u8..=12], if t22 { (0u8..3).boxed() } else { Just(0u8).boxed() }, prop_oneof![2 => Just(0u16), 3 => 1u16..1000, 1 => Just(10_000u16), 1 => 1000u16..10_000], prop_oneof![Just(0u64), 1u64..1_000_000, Just(u64::MAX)]),
        // weights: aw_i <= aw_m <= 2 ; 1 <= lw_m <= lw_i
        (0u32..=1_000_000, 0u32..=1_000_000, 0u32..1_500_000, 0u32..1_500_000, prop::bool::weighted(0.12)),
        (prop_oneof![5 => Just(u64::MAX), 2 => 1_000u64..1_000_000_000_000, 1 => Just(0u64)], prop_oneof![5 => Just(u64::MAX), 2 => 1_000u64..1_000_000_000_000, 1 => Just(0u64)], prop_oneof![5 => Just(0u64), 2 => 1u64..10_000_000]),
        curve_strategy(),
        oracle_strategy(),
        prop::bool::weighted(0.2),
    )
        .prop_map(|((decimals, token, fee_bps, fee_max), (aw_i, aw_gap, lw_m_x, lw_gap, isolated), (deposit_limit, borrow_limit, init_limit), curve, oracle, permless)| {
            let (aw_i, aw_m) = if isolated { (0, 0) } else { (aw_i, (aw_i + aw_gap).min(2_000_000)) };
            let lw_m = 1_000_000 + lw_m_x;
            let lw_i = lw_m + lw_gap;
            BankSpec {
                decimals,
                token,
                fee_bps: if token == 2 { fee_bps } else { 0 },
                fee_max: if token == 2 { fee_max } else { 0 },
                aw_i,
                aw_m,
                lw_i,
                lw_m,
                isolated,
                deposit_limit,
                borrow_limit,
                init_limit,
                curve,
                oracle,
                emode_tag: 0,
                emode_entries: vec![],
                asset_tag: (fee_max % 3 == 1) as u8,
                op_state: 1,
                permissionless_bad_debt: permless,
                staked: None,
            }
        })
}

pub fn world_strategy(cfg: &GenCfg) -> impl Strategy<Value = WorldSpec> {
    (
        prop::collection::vec(bank_strategy(cfg), 1..=cfg.max_banks),
        2u8..=(cfg.max_users as u8).max(2),
        prop_oneof![2 => Just((0u32, 0u32, false)), 3 => (0u32..200_000, 0u32..500_000, any::<bool>())],
        prop_oneof![3 => Just(1u64 << 62), 1 => 1_000_000u64..1_000_000_000_000_000],
        // staked-collateral banks (real add_bank_permissionless): in 10 % of the worlds every bank after the first
        // becomes one with probability 1/2; the other banks keep their default / SOL tags, so mixing is attempted
        (prop::bool::weighted(0.1), prop::collection::vec((1_000_000_000u64..2_000_000_000_000_000, 500u32..3000, any::<bool>()), 4)),
    )
        .prop_map(|(mut banks, n_users, (pf, pr, pe), user_tokens, (with_staked, pools))| {
            if with_staked && banks.len() > 1 {
                let mut feed = banks[0].oracle.clone();
                if feed.kind != 1 {
                    feed = OracleSpec { kind: 1, conf: (feed.mant as u64) / 500, ema_conf: (feed.mant as u64) / 500, ..feed };
                }
                banks[0].oracle = feed.clone();
                banks[0].asset_tag = 1;
                for (i, b) in banks.iter_mut().enumerate().skip(1) {
                    let (supply, rate_pm, st) = pools[i % pools.len()];
                    if st {
                        b.staked = Some(crate::world::StakedSpec { supply, stake: ((supply as u128 * rate_pm as u128 / 1000) as u64).saturating_add(1_000_000_000) });
                        b.oracle = OracleSpec { kind: 3, ..feed.clone() };
                        b.asset_tag = 2;
                        b.token = 0;
                        b.fee_bps = 0;
                        b.fee_max = 0;
                        b.decimals = 9;
                        b.isolated = false;
                        b.aw_i = b.aw_i.min(1_000_000);
                        b.aw_m = b.aw_m.max(b.aw_i);
                    }
                }
            }
            (banks, n_users, (pf, pr, pe), user_tokens)
        })
        .prop_map(|(banks, n_users, (pf, pr, pe), user_tokens)| WorldSpec {
            program_fee_fixed: pf,
            program_fee_rate: pr,
            program_fees_enabled: pe,
            bank_init_flat_sol_fee: 5000,
            liq_flat_sol_fee: 0,
            liq_max_fee: 50_000,
            banks,
            n_users,
            user_tokens,
            distinct_roles: true,
        })
}

/// A short generated prefix that sets up a lender and a borrower (still ordinary ops, so the
/// whole sequence shrinks as one value).
pub fn prefix_strategy() -> impl Strategy<Value = Vec<Op>> {
    (any::<u16>(), 1u64..=65536, 1u64..=65536, 20000u64..=65536, prop_oneof![Just(0u32), 1u32..100_000, 100_000u32..40_000_000]).prop_map(|(b0, f0, f1, fb, secs)| {
        let b1 = b0.wrapping_add(32768);
        vec![
            Op::Deposit { u: 0, b: b0, amt: f0, rel: 1, up: 0 },
            Op::Deposit { u: 40001, b: b1, amt: f1, rel: 1, up: 0 },
            Op::Borrow { u: 40001, b: b0, amt: fb, rel: 1 },
            Op::Wait { secs },
        ]
    })
}

pub fn case_strategy(cfg: &GenCfg) -> impl Strategy<Value = (WorldSpec, Vec<Op>)> {
    let max_ops = cfg.max_ops;
    let ops = prop_oneof![
        4 => prop::collection::vec(op_strategy(), 1..=max_ops),
        8 => (prefix_strategy(), prop::collection::vec(op_strategy(), 1..=max_ops)).prop_map(|(mut p, v)| { p.extend(v); p }),
        // a bank in sunset: token-less repayments allowed and forced complete right after the lending prefix
        1 => (prefix_strategy(), any::<u16>(), prop::collection::vec(op_strategy(), 1..=max_ops)).prop_map(|(mut p, b, v)| {
            p.push(Op::Sunset { b, u: 0, step: 0 });
            p.push(Op::Sunset { b, u: 0, step: 1 });
            p.extend(v);
            p
        }),
        // wind-down: after a short history everybody repays and withdraws everything, then the admin tries to
        // close every bank (what-if probes)
        2 => (prefix_strategy(), prop::collection::vec(op_strategy(), 0..=(max_ops / 3).max(1)), 0u32..100_000).prop_map(|(mut p, v, secs)| {
            p.extend(v);
            p.push(Op::Wait { secs });
            let slots = [0u16, 16384, 32768, 49152];
            for all_repay in [true, false] {
                for u in slots {
                    for b in slots {
                        if all_repay {
                            p.push(Op::Repay { u, b, amt: 0, rel: 0, all: true });
                        } else {
                            p.push(Op::Withdraw { u, b, amt: 0, rel: 0, all: true });
                        }
                    }
                }
            }
            for b in slots {
                p.push(Op::CloseBank { b });
            }
            p
        }),
        // near wipe-out: one lender, one borrower who takes (almost) every token of the bank and then goes bankrupt, so
        // that the loss eats 99.99..100 % of the deposits: the deposit share value lands in (0, 0.0001) — or the bank is
        // wiped out when fees push the debt past the deposits. The lender then keeps using the bank.
        1 => (prop_oneof![10u64..1000, 1000u64..1_000_000], 0u64..3, 100_000_000u64..10_000_000_000, prop::collection::vec(op_strategy(), 0..6)).prop_map(|(d, k, coll, tail)| {
            let (lender, borrower, b0, b1) = (0u16, 40000u16, 0u16, 32780u16);
            let mut p = vec![
                Op::Deposit { u: lender, b: b0, amt: d, rel: 0, up: 0 },
                Op::Deposit { u: borrower, b: b1, amt: coll, rel: 0, up: 0 },
                Op::Borrow { u: borrower, b: b0, amt: k, rel: 2 },
                Op::Bankrupt { u: borrower, b: b0, signer: 0, crash: true },
                Op::Withdraw { u: lender, b: b0, amt: 1, rel: 0, all: false },
                Op::Withdraw { u: lender, b: b0, amt: 2, rel: 0, all: false },
                Op::Deposit { u: lender, b: b0, amt: 7, rel: 0, up: 0 },
                Op::Withdraw { u: lender, b: b0, amt: 3, rel: 0, all: false },
                Op::Withdraw { u: lender, b: b0, amt: 0, rel: 0, all: true },
            ];
            p.extend(tail);
            p
        }),
        // seized, then closed: a borrower is distressed, a liquidator takes (almost) all of its collateral with classic
        // liquidations and a receivership bracket, and the borrower - left with debt and little or no collateral - tries
        // to close its account, its balances, to transfer it, before anybody handles the bad debt
        1 => (prefix_strategy(), 1u16..900, prop::collection::vec(op_strategy(), 0..6)).prop_map(|(mut p, depth, tail)| {
            let (b0, b1) = match (&p[0], &p[1]) {
                (Op::Deposit { b: x, .. }, Op::Deposit { b: y, .. }) => (*x, *y),
                _ => (0, 32768),
            };
            let (lender, borrower) = (0u16, 40001u16);
            p.push(Op::Distress { le: borrower, mode: 0, depth });
            p.push(Op::Liquidate { lq: lender, le: borrower, asset: b1, liab: b0, amt: 0, rel: 2 });
            p.push(Op::Liquidate { lq: lender, le: borrower, asset: b1, liab: b0, amt: 65536, rel: 1 });
            p.push(Op::Distress { le: borrower, mode: 1, depth: 0 });
            p.push(Op::Liquidate { lq: lender, le: borrower, asset: b1, liab: b0, amt: 2, rel: 2 });
            p.push(Op::Liquidate { lq: lender, le: borrower, asset: b1, liab: b0, amt: 65536, rel: 1 });
            p.push(Op::CloseBalance { u: borrower, b: b1 });
            p.push(Op::CloseBalance { u: borrower, b: b0 });
            p.push(Op::CloseAccount { u: borrower, payer: 0 });
            p.push(Op::CloseAccount { u: borrower, payer: 1 });
            p.push(Op::Transfer { u: borrower });
            p.extend(tail);
            p
        }),
        // inflation: long waits with accruals drive the share values up by orders of magnitude (as far as the
        // world's curve and utilisation allow), then a wind-down, tiny deposits and close_bank probes
        1 => (prefix_strategy(), 2usize..7, prop::collection::vec((any::<u16>(), 1u64..2000), 1..4), prop::collection::vec(op_strategy(), 0..6)).prop_map(|(mut p, k, tiny, tail)| {
            let b0 = match p[0] { Op::Deposit { b, .. } => b, _ => 0 };
            for _ in 0..k {
                p.push(Op::Wait { secs: 157_000_000 });
                p.push(Op::Accrue { b: b0 });
            }
            let slots = [0u16, 16384, 32768, 49152];
            for u in slots {
                p.push(Op::Repay { u, b: b0, amt: 0, rel: 0, all: true });
            }
            for u in slots {
                p.push(Op::Withdraw { u, b: b0, amt: 0, rel: 0, all: true });
            }
            for (u, amt) in tiny {
                p.push(Op::Deposit { u, b: b0, amt, rel: 0, up: 0 });
            }
            p.push(Op::CloseBank { b: b0 & !3 });
            p.extend(tail);
            for b in slots {
                p.push(Op::CloseBank { b });
            }
            p
        }),
    ];
    (world_strategy(cfg), ops)
}

fn apply_rel(amt: u64, rel: u8, reference: u64) -> u64 {
    match rel {
        1 => ((reference as u128 * amt.min(65536) as u128) >> 16) as u64,
        2 => (reference as i128 + (amt % 5) as i128 - 2).clamp(0, u64::MAX as i128) as u64,
        _ => amt,
    }
}

impl Runner {
    pub fn new(spec: &WorldSpec) -> Result<Runner, String> {
        let w = World::build(spec)?;
        let snap = store_snap(&w.vm);
        Ok(Runner { w, snap, steps: 0, disabled_seen: 0 })
    }

    fn position_amounts(&self, macct: &Pubkey, bank_key: &Pubkey) -> (u64, u64) {
        // floor(asset value), ceil(liability value) in native units (f64-free, via rationals)
        let Some(a) = self.snap.accts.get(macct) else { return (0, 0) };
        let Some(b) = self.snap.banks.get(bank_key) else { return (0, 0) };
        for p in &a.positions {
            if p.bank == *bank_key {
                use crate::num::*;
                use num_traits::ToPrimitive;
                let av = q_floor(&(q_bits(p.a_bits) * &b.asv)).to_u64().unwrap_or(u64::MAX);
                let lv = q_ceil(&(q_bits(p.l_bits) * &b.lsv)).to_u64().unwrap_or(u64::MAX);
                return (av, lv);
            }
        }
        (0, 0)
    }

    /// largest amount of bank `bi` the account could borrow according to the reference model
    /// (initial health / (high price x liability weight)), capped by the vault liquidity
    pub fn borrow_power(&self, macct: &Pubkey, bi: usize) -> u64 {
        use crate::model::{health, oracle_view, PriceKind, Req};
        use crate::num::*;
        use num_traits::{Signed, ToPrimitive};
        let liq = self.w.tok(&self.w.banks[bi].lv);
        let Some(a) = read_macct(&self.w.vm, macct) else { return liq };
        let h = health(&self.w.vm, &a, Req::Initial, self.w.vm.now());
        let Some(hh) = h.health() else { return liq };
        if !hh.lo.is_positive() {
            return 0;
        }
        let bank = self.w.bank(bi);
        let ov = oracle_view(&self.w.vm, &bank, self.w.vm.now());
        let Some(p) = ov.high(PriceKind::Ema) else { return liq };
        let w = q_w(bank.config.liability_weight_init);
        if !p.hi.is_positive() {
            return liq;
        }
        let amt = &hh.lo / (&p.hi * w) * pow10(bank.mint_decimals as u32);
        q_floor(&amt).to_u64().unwrap_or(u64::MAX).min(liq)
    }

    /// users whose primary account has a position satisfying `f`
    fn users_with<F: Fn(&PosSnap) -> bool>(&self, f: F) -> Vec<usize> {
        let mut v = vec![];
        for (ui, u) in self.w.users.iter().enumerate() {
            if let Some(s) = self.snap.accts.get(&u.accts[0]) {
                if s.positions.iter().any(|p| f(p)) {
                    v.push(ui);
                }
            }
        }
        v
    }
    fn pick_user<F: Fn(&PosSnap) -> bool>(&self, u: u16, f: F) -> usize {
        let c = self.users_with(f);
        if c.is_empty() {
            idx(u, self.w.users.len())
        } else {
            c[idx(u, c.len())]
        }
    }
    fn pick_bank<F: Fn(&PosSnap) -> bool>(&self, macct: &Pubkey, b: u16, f: F) -> usize {
        let c: Vec<usize> = self.snap.accts.get(macct).map(|s| s.positions.iter().filter(|p| f(p)).filter_map(|p| self.w.bank_index(&p.bank)).collect()).unwrap_or_default();
        if c.is_empty() {
            idx(b, self.w.banks.len())
        } else {
            c[idx(b, c.len())]
        }
    }

    /// Execute one op. Never panics; an op that cannot be resolved is `skipped`.
    pub fn step(&mut self, op: &Op) -> Step {
        let nb = self.w.banks.len();
        let nu = self.w.users.len();
        let mut st = Step {
            index: self.steps,
            op: op.clone(),
            ok: false,
            err: None,
            user: None,
            macct: None,
            other_macct: None,
            bank: None,
            bank2: None,
            amount: 0,
            ixs: vec![],
            user_token: None,
            skipped: false,
            skip_why: "",
            now: self.w.vm.now(),
            pre_vm: None,
            probe: false,
        };
        self.steps += 1;
        let mut token_watch: Option<Pubkey> = None;
        match op {
            Op::Deposit { u, b, amt, rel, up } => {
                let (ui, bi) = (idx(*u, nu), idx(*b, nb));
                let usr = self.w.users[ui].clone();
                let wallet = self.w.tok(&usr.tokens[bi]);
                let a = apply_rel(*amt, *rel, wallet.min(1_000_000_000_000));
                let upv = match up {
                    0 => None,
                    1 => Some(false),
                    _ => Some(true),
                };
                st.user = Some(ui);
                st.macct = Some(usr.accts[0]);
                st.bank = Some(bi);
                st.amount = a;
                token_watch = Some(usr.tokens[bi]);
                st.ixs = vec![self.w.ix_deposit(usr.accts[0], usr.auth, bi, usr.tokens[bi], a, upv)];
            }
            Op::Withdraw { u, b, amt, rel, all } => {
                let has_a = |p: &PosSnap| p.a_bits > 0;
                let ui = if u % 4 == 0 { idx(*u, nu) } else { self.pick_user(*u, has_a) };
                let usr = self.w.users[ui].clone();
                let bi = if b % 4 == 0 { idx(*b, nb) } else { self.pick_bank(&usr.accts[0], *b, has_a) };
                let (av, _) = self.position_amounts(&usr.accts[0], &self.w.banks[bi].key);
                let a = apply_rel(*amt, *rel, av);
                st.user = Some(ui);
                st.macct = Some(usr.accts[0]);
                st.bank = Some(bi);
                st.amount = a;
                token_watch = Some(usr.tokens[bi]);
                st.ixs = vec![self.w.ix_withdraw(usr.accts[0], usr.auth, bi, usr.tokens[bi], a, if *all { Some(true) } else { None })];
            }
            Op::Borrow { u, b, amt, rel } => {
                let ui = idx(*u, nu);
                let usr = self.w.users[ui].clone();
                let mut bi = idx(*b, nb);
                if b % 5 != 0 {
                    // prefer a bank with liquidity in which this account has no deposit
                    let held: Vec<Pubkey> = self.snap.accts.get(&usr.accts[0]).map(|s| s.positions.iter().filter(|p| p.a_bits > 0).map(|p| p.bank).collect()).unwrap_or_default();
                    let c: Vec<usize> = (0..nb).filter(|i| !held.contains(&self.w.banks[*i].key) && self.w.tok(&self.w.banks[*i].lv) > 0).collect();
                    if !c.is_empty() {
                        bi = c[idx(*b, c.len())];
                    }
                }
                let reference = if *rel == 0 { 0 } else if u % 5 == 0 { self.w.tok(&self.w.banks[bi].lv) } else { self.borrow_power(&usr.accts[0], bi) };
                let a = apply_rel(*amt, *rel, reference);
                st.user = Some(ui);
                st.macct = Some(usr.accts[0]);
                st.bank = Some(bi);
                st.amount = a;
                token_watch = Some(usr.tokens[bi]);
                st.ixs = vec![self.w.ix_borrow(usr.accts[0], usr.auth, bi, usr.tokens[bi], a)];
            }
            Op::Repay { u, b, amt, rel, all } => {
                let has_l = |p: &PosSnap| p.l_bits > 0;
                let ui = if u % 4 == 0 { idx(*u, nu) } else { self.pick_user(*u, has_l) };
                let usr = self.w.users[ui].clone();
                let bi = if b % 4 == 0 { idx(*b, nb) } else { self.pick_bank(&usr.accts[0], *b, has_l) };
                let (_, lv) = self.position_amounts(&usr.accts[0], &self.w.banks[bi].key);
                let a = apply_rel(*amt, *rel, lv);
                st.user = Some(ui);
                st.macct = Some(usr.accts[0]);
                st.bank = Some(bi);
                st.amount = a;
                token_watch = Some(usr.tokens[bi]);
                st.ixs = vec![self.w.ix_repay(usr.accts[0], usr.auth, bi, usr.tokens[bi], a, if *all { Some(true) } else { None })];
            }
            Op::Liquidate { lq, le, asset, liab, amt, rel } => {
                let lei = self.pick_user(*le, |p| p.l_bits >= (1i128 << 48));
                let mut lqi = idx(*lq, nu);
                if lei == lqi {
                    lqi = (lqi + 1) % nu;
                }
                let liquidatee = self.w.users[lei].accts[0];
                let liquidator = self.w.users[lqi].clone();
                // resolve asset / liab among the liquidatee's actual positions when possible
                let (assets, liabs): (Vec<usize>, Vec<usize>) = {
                    let mut a = vec![];
                    let mut l = vec![];
                    if let Some(s) = self.snap.accts.get(&liquidatee) {
                        for p in &s.positions {
                            if let Some(bi) = self.w.bank_index(&p.bank) {
                                if p.l_bits >= (1i128 << 48) {
                                    l.push(bi)
                                } else if p.a_bits > 0 {
                                    a.push(bi)
                                }
                            }
                        }
                    }
                    (a, l)
                };
                let ab = if assets.is_empty() { idx(*asset, nb) } else { assets[idx(*asset, assets.len())] };
                let lb = if liabs.is_empty() { idx(*liab, nb) } else { liabs[idx(*liab, liabs.len())] };
                let (av, _) = self.position_amounts(&liquidatee, &self.w.banks[ab].key);
                let a = apply_rel(*amt, *rel, av);
                st.user = Some(lqi);
                st.macct = Some(liquidator.accts[0]);
                st.other_macct = Some(liquidatee);
                st.bank = Some(ab);
                st.bank2 = Some(lb);
                st.amount = a;
                st.ixs = vec![self.w.ix_liquidate(liquidator.accts[0], liquidator.auth, liquidatee, ab, lb, a)];
            }
            Op::Accrue { b } => {
                let bi = idx(*b, nb);
                st.bank = Some(bi);
                st.ixs = vec![self.w.ix_accrue(bi)];
            }
            Op::Collect { b } => {
                let bi = idx(*b, nb);
                st.bank = Some(bi);
                st.ixs = vec![self.w.ix_collect_fees(bi)];
            }
            Op::WithdrawFees { b, amt, ins } => {
                let bi = idx(*b, nb);
                st.bank = Some(bi);
                let dst = self.w.users[0].tokens[bi];
                let have = self.w.tok(if *ins { &self.w.banks[bi].iv } else { &self.w.banks[bi].fv });
                let a = (*amt).min(have.max(1));
                st.amount = a;
                st.ixs = vec![if *ins { self.w.ix_withdraw_insurance(bi, self.w.roles.admin, dst, a) } else { self.w.ix_withdraw_fees(bi, self.w.roles.admin, dst, a) }];
            }
            Op::Bankrupt { u, b, signer, crash } => {
                let ui = self.pick_user(*u, |p| p.l_bits > 0);
                let macct = self.w.users[ui].accts[0];
                if *crash {
                    let assets: Vec<usize> = self.snap.accts.get(&macct).map(|s| s.positions.iter().filter(|p| p.a_bits > 0 && p.l_bits == 0).filter_map(|p| self.w.bank_index(&p.bank)).collect()).unwrap_or_default();
                    let has_liab = self.snap.accts.get(&macct).map(|s| s.positions.iter().any(|p| p.l_bits > 0)).unwrap_or(false);
                    if has_liab {
                        for bi in assets {
                            let _ = self.w.set_price(bi, 1, 0, 1, 0);
                        }
                        self.snap = store_snap(&self.w.vm);
                    }
                }
                // prefer a bank where the account owes
                let liabs: Vec<usize> = self
                    .snap
                    .accts
                    .get(&macct)
                    .map(|s| s.positions.iter().filter(|p| p.l_bits > 0).filter_map(|p| self.w.bank_index(&p.bank)).collect())
                    .unwrap_or_default();
                let bi = if liabs.is_empty() { idx(*b, nb) } else { liabs[idx(*b, liabs.len())] };
                let s = match signer {
                    0 => self.w.roles.admin,
                    1 => self.w.roles.risk,
                    _ => self.w.roles.stranger,
                };
                st.user = Some(ui);
                st.macct = Some(macct);
                st.bank = Some(bi);
                st.ixs = vec![self.w.ix_bankruptcy(bi, macct, s)];
            }
            Op::CloseBalance { u, b } => {
                let ui = idx(*u, nu);
                let usr = self.w.users[ui].clone();
                let bi = if b % 4 == 0 { idx(*b, nb) } else { self.pick_bank(&usr.accts[0], *b, |p| p.a_bits < (1i128 << 48) && p.l_bits < (1i128 << 48)) };
                st.user = Some(ui);
                st.macct = Some(usr.accts[0]);
                st.bank = Some(bi);
                st.ixs = vec![self.w.ix_close_balance(usr.accts[0], usr.auth, bi)];
            }
            Op::Price { b, num, conf_bps } => {
                let bi = idx(*b, nb);
                let o = self.w.banks[bi].spec.oracle.clone();
                let mant = if *num == 0 { 1 } else { ((o.mant as i128 * *num as i128) / 1000).clamp(1, i64::MAX as i128 / 4) as i64 };
                let conf = if o.kind == 0 { 0 } else { (mant as u128 * *conf_bps as u128 / 10_000) as u64 };
                let ema = if o.kind == 1 { ((o.ema_mant as i128 + mant as i128) / 2).max(1) as i64 } else { mant };
                st.bank = Some(bi);
                let r = self.w.set_price(bi, mant, conf, ema, conf);
                st.ok = r.is_ok();
                self.snap = store_snap(&self.w.vm);
                return st;
            }
            Op::Wait { secs } => {
                self.w.vm.advance(*secs as i64);
                self.w.refresh_oracles();
                st.ok = true;
                st.now = self.w.vm.now();
                self.snap.now = st.now;
                return st;
            }
            Op::Distress { le, mode, depth } => {
                use crate::model::{health, Req};
                use crate::num::*;
                use num_traits::{Signed, ToPrimitive, Zero};
                let lei = self.pick_user(*le, |p| p.l_bits >= (1i128 << 48));
                let macct = self.w.users[lei].accts[0];
                st.user = Some(lei);
                st.macct = Some(macct);
                let Some(a) = read_macct(&self.w.vm, &macct) else {
                    st.skipped = true;
                    st.skip_why = "no-account";
                    return st;
                };
                let h = health(&self.w.vm, &a, Req::Maintenance, self.w.vm.now());
                let assets: Vec<(usize, Q)> = h.positions.iter().filter(|p| !p.is_liab && p.price.is_some()).filter_map(|p| self.w.bank_index(&p.bank).map(|bi| (bi, p.value.lo.clone()))).collect();
                if assets.is_empty() || !h.defined() || h.n_liabs == 0 {
                    st.skip_why = if h.n_liabs == 0 { "no-liabs" } else if !h.defined() { "undefined" } else { "no-assets" };
                    st.skipped = true;
                    return st;
                }
                if *mode == 1 {
                    for (bi, _) in &assets {
                        let _ = self.w.set_price(*bi, 1, 0, 1, 0);
                    }
                } else {
                    let (bj, vj) = assets.iter().max_by(|x, y| x.1.cmp(&y.1)).unwrap().clone();
                    let total_a: Q = assets.iter().fold(q_zero(), |acc, x| acc + &x.1);
                    let l = h.liabs.as_ref().unwrap().hi.clone();
                    let target = -(q_ratio(*depth as u64, 1000u64) * &l);
                    let want_vj = &l + &target - (&total_a - &vj);
                    if vj.is_zero() || !want_vj.is_positive() {
                        st.skip_why = "target-unreachable";
                        st.skipped = true;
                        return st;
                    }
                    let f = want_vj / &vj;
                    let o = self.w.banks[bj].spec.oracle.clone();
                    let nm = q_floor(&(q_int(o.mant) * &f)).to_i64().unwrap_or(i64::MAX / 4).clamp(1, i64::MAX / 4);
                    let conf = ((o.conf as u128).saturating_mul(nm as u128) / (o.mant.max(1) as u128)) as u64;
                    let _ = self.w.set_price(bj, nm, conf, nm, conf);
                    st.bank = Some(bj);
                }
                st.ok = true;
                self.snap = store_snap(&self.w.vm);
                return st;
            }
            Op::Receivership { lq, le, wb, wamt, rb, ramt, rel } => {
                let lei = self.pick_user(*le, |p| p.l_bits >= (1i128 << 48));
                let mut lqi = idx(*lq, nu);
                if lei == lqi {
                    lqi = (lqi + 1) % nu;
                }
                let liquidatee = self.w.users[lei].accts[0];
                let liq = self.w.users[lqi].clone();
                let (assets, liabs): (Vec<usize>, Vec<usize>) = {
                    let mut a = vec![];
                    let mut l = vec![];
                    if let Some(s) = self.snap.accts.get(&liquidatee) {
                        for p in &s.positions {
                            if let Some(bi) = self.w.bank_index(&p.bank) {
                                if p.l_bits >= (1i128 << 48) {
                                    l.push(bi)
                                } else if p.a_bits > 0 {
                                    a.push(bi)
                                }
                            }
                        }
                    }
                    (a, l)
                };
                let wbi = if assets.is_empty() { idx(*wb, nb) } else { assets[idx(*wb, assets.len())] };
                let rbi = if liabs.is_empty() { idx(*rb, nb) } else { liabs[idx(*rb, liabs.len())] };
                let (av, _) = self.position_amounts(&liquidatee, &self.w.banks[wbi].key);
                let wa = apply_rel(*wamt, *rel, av);
                let (_, lv) = self.position_amounts(&liquidatee, &self.w.banks[rbi].key);
                let ra = if *rel == 0 { *ramt } else { (*ramt).min(lv) };
                // make sure a liquidation record exists (separate tx, like a real liquidator would)
                let rec = World::liq_record_key(&liquidatee);
                if self.w.vm.get(&rec).is_none() {
                    let ix = self.w.ix_init_liq_record(liquidatee, liq.auth);
                    let _ = self.w.vm.exec(&ix);
                }
                st.user = Some(lqi);
                st.macct = Some(liquidatee);
                st.bank = Some(wbi);
                st.bank2 = Some(rbi);
                st.amount = wa;
                let risk = self.w.risk_metas(&liquidatee, None, None);
                st.ixs = vec![
                    self.w.ix_start_liquidation(liquidatee, liq.auth),
                    self.w.ix_withdraw_with(liquidatee, liq.auth, wbi, liq.tokens[wbi], wa, None, risk.clone()),
                    // every third bracket repays "all" (what a liquidator closing out a position does)
                    if *ramt % 3 == 0 { self.w.ix_repay(liquidatee, liq.auth, rbi, liq.tokens[rbi], 0, Some(true)) } else { self.w.ix_repay(liquidatee, liq.auth, rbi, liq.tokens[rbi], ra, None) },
                    // after a repay-all the closed balance is no longer among the observation accounts
                    self.w.ix_end_liquidation(liquidatee, liq.auth, if *ramt % 3 == 0 { self.w.risk_metas(&liquidatee, None, Some(self.w.banks[rbi].key)) } else { risk }),
                ];
            }
            Op::Flash { u, b, amt, rel, repay } => {
                let (ui, bi) = (idx(*u, nu), idx(*b, nb));
                let usr = self.w.users[ui].clone();
                let liq = self.w.tok(&self.w.banks[bi].lv);
                let a = apply_rel(*amt, *rel, liq);
                st.user = Some(ui);
                st.macct = Some(usr.accts[0]);
                st.bank = Some(bi);
                st.amount = a;
                let risk_with = self.w.risk_metas(&usr.accts[0], Some(self.w.banks[bi].key), None);
                let had = self.snap.accts.get(&usr.accts[0]).map(|s| s.positions.iter().any(|p| p.bank == self.w.banks[bi].key)).unwrap_or(false);
                let mut ixs = vec![self.w.ix_start_flashloan(usr.accts[0], usr.auth, if *repay { 3 } else { 2 }), self.w.ix_borrow_with(usr.accts[0], usr.auth, bi, usr.tokens[bi], a, vec![])];
                if a == 0 {
                    // an empty bracket: just start and end (what a disabled / frozen account must not be able to do)
                    st.bank = None;
                    ixs = vec![self.w.ix_start_flashloan(usr.accts[0], usr.auth, 1), self.w.ix_end_flashloan(usr.accts[0], usr.auth, self.w.risk_metas(&usr.accts[0], None, None))];
                } else if *repay {
                    ixs.push(self.w.ix_repay(usr.accts[0], usr.auth, bi, usr.tokens[bi], 0, Some(true)));
                    let risk_end = if had { risk_with.clone() } else { self.w.risk_metas(&usr.accts[0], None, None) };
                    ixs.push(self.w.ix_end_flashloan(usr.accts[0], usr.auth, risk_end));
                } else {
                    ixs.push(self.w.ix_end_flashloan(usr.accts[0], usr.auth, risk_with));
                }
                st.ixs = ixs;
            }
            Op::Configure { b, kind, val } => {
                let bi = idx(*b, nb);
                st.bank = Some(bi);
                let mut o = BankConfigOpt::default();
                match kind {
                    0 => o.deposit_limit = Some(*val),
                    1 => o.borrow_limit = Some(*val),
                    2 => o.operational_state = Some(op_state((*val % 3) as u8)),
                    4 => o.asset_tag = Some((*val % 7) as u8),
                    6 => {
                        let aw_i = (*val % 1_100_001) as u32;
                        let aw_m = aw_i.saturating_add(((*val >> 21) % 1_000_001) as u32).saturating_sub(((*val >> 61) % 2) as u32 * 50_000);
                        let lw_m = 950_000 + ((*val >> 41) % 600_001) as u32;
                        let lw_i = lw_m.saturating_add(((*val >> 51) % 600_001) as u32).saturating_sub(((*val >> 62) % 2) as u32 * 50_000);
                        o.asset_weight_init = Some(w_mill(aw_i));
                        o.asset_weight_maint = Some(w_mill(aw_m));
                        o.liability_weight_init = Some(w_mill(lw_i));
                        o.liability_weight_maint = Some(w_mill(lw_m));
                    }
                    9 => {
                        o.oracle_max_age = Some([0u16, 1, 29, 30, 60, 100, 600, u16::MAX][(*val % 8) as usize]);
                        o.oracle_max_confidence = Some([0u32, 1, 42_949_672, 429_496_729, u32::MAX][((*val >> 8) % 5) as usize]);
                    }
                    10 => o.risk_tier = Some(if *val & 1 == 1 { marginfi_type_crate::types::RiskTier::Isolated } else { marginfi_type_crate::types::RiskTier::Collateral }),
                    11 => o.permissionless_bad_debt_settlement = Some(*val & 1 == 1),
                    _ => o.total_asset_value_init_limit = Some(*val),
                }
                st.ixs = vec![self.w.ix_configure_bank(bi, o, self.w.roles.admin)];
                match kind {
                    5 => {
                        // a fresh curve + fee set from the same generator the worlds use, as a pure function of val
                        use proptest::strategy::ValueTree;
                        use proptest::test_runner::{Config, RngAlgorithm, TestRng, TestRunner};
                        let mut seed = [0u8; 32];
                        seed[..8].copy_from_slice(&val.to_le_bytes());
                        let mut tr = TestRunner::new_with_rng(Config { failure_persistence: None, ..Config::default() }, TestRng::from_seed(RngAlgorithm::ChaCha, &seed));
                        if let Ok(t) = curve_strategy().new_tree(&mut tr) {
                            let c = t.current();
                            st.ixs = vec![self.w.ix_configure_interest_only(bi, curve_opt(&c), self.w.roles.curve)];
                        }
                    }
                    7 => {
                        st.bank = None;
                        st.ixs = vec![mfi_ix(
                            anchor_lang::ToAccountMetas::to_account_metas(&marginfi::accounts::ConfigGroupFee { marginfi_group: self.w.group, global_fee_admin: self.w.roles.fee_admin, fee_state: self.w.fee_state }, Some(true)),
                            anchor_lang::InstructionData::data(&marginfi::instruction::ConfigGroupFee { enable_program_fee: *val & 1 == 1 }),
                        )];
                    }
                    8 => {
                        st.bank = None;
                        let fixed = ((*val % 7) * 10_000) as u32; // 0 .. 6 % APR
                        let rate = (((*val >> 8) % 9) * 25_000) as u32; // 0 .. 20 % of the interest
                        let edit = mfi_ix(
                            anchor_lang::ToAccountMetas::to_account_metas(&marginfi::accounts::EditFeeState { global_fee_admin: self.w.roles.fee_admin, fee_state: self.w.fee_state }, Some(true)),
                            anchor_lang::InstructionData::data(&marginfi::instruction::EditGlobalFeeState {
                                admin: self.w.roles.fee_admin,
                                fee_wallet: self.w.fee_wallet,
                                bank_init_flat_sol_fee: self.w.spec.bank_init_flat_sol_fee,
                                liquidation_flat_sol_fee: self.w.spec.liq_flat_sol_fee,
                                program_fee_fixed: w_mill(fixed),
                                program_fee_rate: w_mill(rate),
                                liquidation_max_fee: w_mill(self.w.spec.liq_max_fee),
                            }),
                        );
                        st.ixs = if *val >> 63 == 0 { vec![edit, self.w.ix_propagate_fee_state()] } else { vec![edit] };
                    }
                    _ => {}
                }
            }
            Op::Sunset { b, u, step } => {
                let mut bi = idx(*b, nb);
                // purge / deleverage: prefer a bank that already carries the matching sunset flag
                let want_flag = match step {
                    2 => Some(marginfi_type_crate::constants::TOKENLESS_REPAYMENTS_COMPLETE),
                    3 if b % 2 == 0 => Some(marginfi_type_crate::constants::TOKENLESS_REPAYMENTS_ALLOWED),
                    _ => None,
                };
                if let Some(f) = want_flag {
                    let c: Vec<usize> = (0..nb).filter(|i| self.snap.banks.get(&self.w.banks[*i].key).map(|x| x.flags & f != 0).unwrap_or(false)).collect();
                    if !c.is_empty() {
                        bi = c[idx(*b, c.len())];
                    }
                }
                st.bank = Some(bi);
                match step {
                    0 => {
                        let mut o = BankConfigOpt::default();
                        o.tokenless_repayments_allowed = Some(true);
                        st.ixs = vec![self.w.ix_configure_bank(bi, o, self.w.roles.admin)];
                    }
                    1 => st.ixs = vec![self.w.ix_force_tokenless_complete(bi, self.w.roles.risk)],
                    2 => {
                        let key = self.w.banks[bi].key;
                        let ui = self.pick_user(*u, |p| p.bank == key);
                        st.user = Some(ui);
                        st.macct = Some(self.w.users[ui].accts[0]);
                        st.ixs = vec![self.w.ix_purge(self.w.users[ui].accts[0], bi, self.w.roles.risk)];
                    }
                    _ => {
                        let key = self.w.banks[bi].key;
                        let ui = self.pick_user(*u, |p| p.bank == key && p.l_bits > 0);
                        let acct = self.w.users[ui].accts[0];
                        st.user = Some(ui);
                        st.macct = Some(acct);
                        let rec = World::liq_record_key(&acct);
                        if self.w.vm.get(&rec).is_none() {
                            let ix = self.w.ix_init_liq_record(acct, self.w.roles.risk);
                            let _ = self.w.vm.exec(&ix);
                        }
                        // the risk admin needs a token account for the (possibly skipped) transfer
                        let risk = self.w.roles.risk;
                        let rta = kp("risk_ta", bi as u64);
                        if self.w.vm.get(&rta).is_none() {
                            let a = self.w.make_token_acct(&self.w.banks[bi].clone(), risk, 1 << 60);
                            self.w.vm.set(rta, a);
                        }
                        let risk_pre = self.w.risk_metas(&acct, None, None);
                        let risk_post = self.w.risk_metas(&acct, None, Some(key));
                        st.ixs = vec![self.w.ix_start_deleverage(acct, risk), self.w.ix_repay(acct, risk, bi, rta, 0, Some(true)), self.w.ix_end_deleverage(acct, risk, risk_post)];
                        let _ = risk_pre;
                    }
                }
            }
            Op::CloseBank { b } => {
                let mut bi = idx(*b, nb);
                if b % 4 != 0 {
                    // prefer a bank whose totals are (nearly) empty: that is where the program may accept
                    let c: Vec<usize> = (0..nb).filter(|i| self.snap.banks.get(&self.w.banks[*i].key).map(|x| x.a_bits < (1i128 << 40) && x.l_bits < (1i128 << 40)).unwrap_or(false)).collect();
                    if !c.is_empty() {
                        bi = c[idx(*b, c.len())];
                    }
                }
                st.bank = Some(bi);
                let ix = self.w.ix_close_bank(bi, self.w.roles.admin);
                let mut vm2 = self.w.vm.clone();
                let r = vm2.exec_tx(std::slice::from_ref(&ix));
                st.ixs = vec![ix];
                st.ok = r.ok;
                st.err = r.err.as_ref().map(|(i, e)| (*i, err_code(e)));
                st.probe = true;
                return st;
            }
            Op::Transfer { u } => {
                let ui = idx(*u, nu);
                let usr = self.w.users[ui].clone();
                let new = self.w.fresh_key("macct_new");
                // the new account must sign its own creation
                let mut ix = self.w.ix_transfer_account(usr.accts[0], new, usr.auth, usr.auth);
                for m in ix.accounts.iter_mut() {
                    if m.pubkey == new {
                        m.is_signer = true;
                    }
                }
                st.user = Some(ui);
                st.macct = Some(usr.accts[0]);
                st.other_macct = Some(new);
                st.ixs = vec![ix];
            }
            Op::CloseAccount { u, payer } => {
                let ui = idx(*u, nu);
                let usr = self.w.users[ui].clone();
                st.user = Some(ui);
                st.macct = Some(usr.accts[0]);
                let fee_payer = if *payer == 1 { self.w.roles.stranger } else { usr.auth };
                st.ixs = vec![self.w.ix_close_account_paid_by(usr.accts[0], usr.auth, fee_payer)];
            }
            Op::Freeze { u, on } => {
                let ui = idx(*u, nu);
                let usr = self.w.users[ui].clone();
                st.user = Some(ui);
                st.macct = Some(usr.accts[0]);
                st.ixs = vec![self.w.ix_set_freeze(usr.accts[0], self.w.roles.admin, *on)];
            }
            Op::Pulse { u } => {
                let ui = idx(*u, nu);
                let usr = self.w.users[ui].clone();
                st.user = Some(ui);
                st.macct = Some(usr.accts[0]);
                st.ixs = vec![self.w.ix_pulse_health(usr.accts[0])];
            }
            Op::Emissions { b, u, step, val } => {
                let mut bi = idx(*b, nb);
                let (_mint, funding) = self.w.ensure_emissions_fixtures();
                if *step != 0 {
                    // prefer a bank that has emissions switched on
                    let c: Vec<usize> = (0..nb).filter(|i| self.snap.banks.get(&self.w.banks[*i].key).map(|x| x.flags & 3 != 0).unwrap_or(false)).collect();
                    if !c.is_empty() {
                        bi = c[idx(*b, c.len())];
                    }
                }
                st.bank = Some(bi);
                match step {
                    0 => {
                        let flags = (*val % 3) as u64 + 1;
                        let rate = 10u64.pow(6 + 3 * ((*val / 3) % 3) as u32);
                        st.ixs = vec![self.w.ix_setup_emissions(bi, funding, flags, rate, 1_000_000_000_000)];
                    }
                    _ => {
                        let key = self.w.banks[bi].key;
                        let ui = self.pick_user(*u, |p| p.bank == key);
                        let usr = self.w.users[ui].clone();
                        st.user = Some(ui);
                        st.macct = Some(usr.accts[0]);
                        if *step == 1 {
                            let dst = self.w.emissions_destination(usr.auth, ui as u64);
                            st.ixs = vec![self.w.ix_withdraw_emissions(usr.accts[0], usr.auth, bi, dst)];
                        } else {
                            st.ixs = vec![self.w.ix_settle_emissions(usr.accts[0], bi)];
                        }
                    }
                }
            }
        }
        let pre_tok = token_watch.map(|k| self.w.tok(&k));
        st.pre_vm = Some(self.w.vm.clone());
        let mut r = self.w.vm.exec_tx(&st.ixs);
        // A client may present the observation accounts in the account's actual slot order rather than
        // in sorted order: if a borrow that opens a new position is refused, retry once with the
        // accounts ordered as the slots would be if the program did NOT re-sort (new position in the
        // first empty slot). On a correct program this retry fails as well.
        if !r.ok {
            if let (Op::Borrow { .. }, Some(bi), Some(acct)) = (op, st.bank, st.macct) {
                if let Some(a) = read_macct(&self.w.vm, &acct) {
                    let key = self.w.banks[bi].key;
                    let has = a.lending_account.balances.iter().any(|b| b.active != 0 && b.bank_pk == key);
                    if !has {
                        let mut order: Vec<Pubkey> = vec![];
                        let mut placed = false;
                        for b in a.lending_account.balances.iter() {
                            if b.active != 0 {
                                order.push(b.bank_pk);
                            } else if !placed {
                                order.push(key);
                                placed = true;
                            }
                        }
                        let sorted = {
                            let mut s2 = order.clone();
                            s2.sort_by(|x, y| y.cmp(x));
                            s2
                        };
                        if placed && order != sorted {
                            let mut metas = vec![];
                            for k in &order {
                                metas.extend(self.w.risk_metas_for_bank(k));
                            }
                            let usr = self.w.users[st.user.unwrap()].clone();
                            let ix = self.w.ix_borrow_with(acct, usr.auth, bi, usr.tokens[bi], st.amount, metas);
                            let r2 = self.w.vm.exec_tx(std::slice::from_ref(&ix));
                            if r2.ok {
                                st.ixs = vec![ix];
                                r = r2;
                            }
                        }
                    }
                }
            }
        }
        // A full withdrawal is normally sent WITHOUT the observation accounts of the bank being closed. A client may
        // also send them: if the first form is refused, retry once with the bank included (on a correct program this
        // is refused as well, or judged like any other success).
        if !r.ok {
            if let (Op::Withdraw { all: true, .. }, Some(bi), Some(acct), Some(ui)) = (op, st.bank, st.macct, st.user) {
                let usr = self.w.users[ui].clone();
                let ix = self.w.ix_withdraw_with(acct, usr.auth, bi, usr.tokens[bi], 0, Some(true), self.w.risk_metas(&acct, None, None));
                let r2 = self.w.vm.exec_tx(std::slice::from_ref(&ix));
                if r2.ok {
                    st.ixs = vec![ix];
                    r = r2;
                }
            }
        }
        st.ok = r.ok;
        st.err = r.err.as_ref().map(|(i, e)| (*i, err_code(e)));
        if let (Some(k), Some(p)) = (token_watch, pre_tok) {
            st.user_token = Some((k, p, self.w.tok(&k)));
        }
        // bookkeeping after success
        if st.ok {
            match op {
                Op::Transfer { .. } => {
                    // the user now operates the new account
                    if let (Some(ui), Some(new)) = (st.user, st.other_macct) {
                        self.w.users[ui].accts.insert(0, new);
                    }
                }
                Op::CloseAccount { .. } => {
                    // re-create a fresh account for this user so the sequence can go on
                    if let Some(ui) = st.user {
                        let usr = self.w.users[ui].clone();
                        let new = self.w.fresh_key("macct_re");
                        let mut ix = self.w.ix_account_init(new, usr.auth);
                        for m in ix.accounts.iter_mut() {
                            if m.pubkey == new {
                                m.is_signer = true;
                            }
                        }
                        if self.w.vm.exec(&ix).is_ok() {
                            self.w.users[ui].accts[0] = new;
                        }
                    }
                }
                _ => {}
            }
        }
        st
    }

    /// What-if probes for an account that has just become disabled (bankrupt or migrated): on clones of the store
    /// its authority tries a deposit, a withdrawal, a borrow, a repayment and an empty flash-loan bracket.
    /// Returns the names of the attempts the program accepted (must be none).
    pub fn probe_disabled_account(&self, acct: &Pubkey) -> Vec<&'static str> {
        let mut accepted = vec![];
        let Some(ui) = self.w.users.iter().position(|u| u.accts.contains(acct)) else { return accepted };
        let usr = self.w.users[ui].clone();
        let a = read_macct(&self.w.vm, acct);
        let held: Vec<usize> = a.map(|a| a.lending_account.balances.iter().filter(|b| b.active != 0).filter_map(|b| self.w.bank_index(&b.bank_pk)).collect()).unwrap_or_default();
        let b0 = held.first().copied().unwrap_or(0);
        let mut tries: Vec<(&'static str, Vec<Instruction>)> = vec![
            ("deposit", vec![self.w.ix_deposit(*acct, usr.auth, b0, usr.tokens[b0], 1000, None)]),
            ("withdraw", vec![self.w.ix_withdraw(*acct, usr.auth, b0, usr.tokens[b0], 1, None)]),
            ("borrow", vec![self.w.ix_borrow(*acct, usr.auth, b0, usr.tokens[b0], 1)]),
            ("repay", vec![self.w.ix_repay(*acct, usr.auth, b0, usr.tokens[b0], 1, None)]),
            ("flashloan", vec![self.w.ix_start_flashloan(*acct, usr.auth, 1), self.w.ix_end_flashloan(*acct, usr.auth, self.w.risk_metas(acct, None, None))]),
        ];
        for bi in held.iter().skip(1).take(2) {
            tries.push(("withdraw", vec![self.w.ix_withdraw(*acct, usr.auth, *bi, usr.tokens[*bi], 1, None)]));
            tries.push(("repay", vec![self.w.ix_repay(*acct, usr.auth, *bi, usr.tokens[*bi], 1, None)]));
        }
        // an account that was migrated (transferred) moves its positions exactly once: a second transfer of it - with the
        // keypair instruction or the PDA one - must be refused
        let migrated = read_macct(&self.w.vm, acct).map(|a| a.migrated_to != Pubkey::default()).unwrap_or(false);
        if migrated {
            let new = kp("macct_second_transfer", self.steps as u64);
            let mut ix = self.w.ix_transfer_account(*acct, new, usr.auth, usr.auth);
            for m in ix.accounts.iter_mut() {
                if m.pubkey == new {
                    m.is_signer = true;
                }
            }
            tries.push(("second-transfer", vec![ix]));
            tries.push(("second-transfer-pda", vec![self.w.ix_transfer_account_pda(*acct, usr.auth, usr.auth, 7 + (self.steps % 1000) as u16)]));
        }
        for (name, ixs) in tries {
            let mut vm = self.w.vm.clone();
            let r = vm.exec_tx(&ixs);
            // the flash-loan START itself must be refused: a bracket that only fails at a later instruction counts
            let start_accepted = name == "flashloan" && r.err.as_ref().map(|(i, _)| *i >= 1).unwrap_or(false);
            if r.ok || start_accepted {
                accepted.push(name);
            }
        }
        accepted
    }

    /// What-if probe for an account that has just been frozen or disabled: on clones of the store its authority (and,
    /// for a frozen account, the group admin in the authority slot) tries to close it, paying the fee itself or
    /// through a separate fee payer. Returns (attempts accepted — must be none, whether the account was empty so that
    /// the flag was the only obstacle).
    pub fn probe_close_flagged(&self, acct: &Pubkey) -> (Vec<&'static str>, bool) {
        let mut accepted = vec![];
        let Some(ui) = self.w.users.iter().position(|u| u.accts.contains(acct)) else { return (accepted, false) };
        let usr = self.w.users[ui].clone();
        let empty = read_macct(&self.w.vm, acct).map(|a| a.lending_account.balances.iter().all(|b| b.active == 0)).unwrap_or(false);
        let admin = self.w.roles.admin;
        let stranger = self.w.roles.stranger;
        let tries: Vec<(&'static str, Instruction)> = vec![
            ("close(authority pays)", self.w.ix_close_account_paid_by(*acct, usr.auth, usr.auth)),
            ("close(separate fee payer)", self.w.ix_close_account_paid_by(*acct, usr.auth, stranger)),
            ("close(admin as authority)", self.w.ix_close_account_paid_by(*acct, admin, admin)),
            ("close(admin as authority, separate fee payer)", self.w.ix_close_account_paid_by(*acct, admin, stranger)),
            ("close(authority, admin pays)", self.w.ix_close_account_paid_by(*acct, usr.auth, admin)),
        ];
        for (name, ix) in tries {
            let mut vm = self.w.vm.clone();
            if vm.exec_tx(&[ix]).ok {
                accepted.push(name);
            }
        }
        (accepted, empty)
    }

    /// take the post-step snapshot (call after the monitors have seen `self.snap` as pre-state)
    pub fn refresh_snapshot(&mut self) -> StoreSnap {
        let s = store_snap(&self.w.vm);
        self.snap = s.clone();
        s
    }

    pub fn account_disabled(&self, k: &Pubkey) -> bool {
        self.snap.accts.get(k).map(|a| a.flags & ACCOUNT_DISABLED != 0).unwrap_or(false)
    }
}

pub fn vm_clone(vm: &Vm) -> Vm {
    vm.clone()
}

// ------------------------------------------------------------------------------------------
// byte decoder for the coverage-guided driver (libFuzzer): total function bytes -> case
// ------------------------------------------------------------------------------------------
pub struct ByteReader<'a> {
    d: &'a [u8],
    i: usize,
}
impl<'a> ByteReader<'a> {
    pub fn new(d: &'a [u8]) -> Self {
        ByteReader { d, i: 0 }
    }
    pub fn left(&self) -> usize {
        self.d.len().saturating_sub(self.i)
    }
    pub fn u8(&mut self) -> u8 {
        let v = self.d.get(self.i).copied().unwrap_or(0);
        self.i += 1;
        v
    }
    pub fn u16(&mut self) -> u16 {
        u16::from_le_bytes([self.u8(), self.u8()])
    }
    pub fn u32(&mut self) -> u32 {
        u32::from_le_bytes([self.u8(), self.u8(), self.u8(), self.u8()])
    }
    pub fn u64(&mut self) -> u64 {
        (self.u32() as u64) | ((self.u32() as u64) << 32)
    }
    pub fn below(&mut self, n: u32) -> u32 {
        if n == 0 {
            0
        } else {
            self.u32() % n
        }
    }
    pub fn bool(&mut self) -> bool {
        self.u8() & 1 == 1
    }
}

fn dec_amount(r: &mut ByteReader) -> (u64, u8) {
    match r.u8() % 8 {
        0 => (r.u8() as u64 % 4, 0),
        1 => (r.u16() as u64, 0),
        2 => (r.u32() as u64, 0),
        3 => (r.u64() >> (r.u8() % 40), 0),
        4 => (u64::MAX - (r.u8() as u64 % 2), 0),
        5 | 6 => (r.u32() as u64 % 65_537, 1),
        _ => (r.u8() as u64 % 5, 2),
    }
}

fn dec_bank(r: &mut ByteReader) -> BankSpec {
    let token = r.u8() % 3;
    let isolated = r.u8() % 8 == 0;
    let aw_i = if isolated { 0 } else { r.below(1_000_001) };
    let aw_m = if isolated { 0 } else { (aw_i + r.below(1_000_001)).min(2_000_000) };
    let lw_m = 1_000_000 + r.below(1_500_000);
    let lw_i = lw_m + r.below(1_500_000);
    let lim = |r: &mut ByteReader| match r.u8() % 8 {
        0 => 0u64,
        1 | 2 => 1000 + r.u64() % 1_000_000_000_000,
        _ => u64::MAX,
    };
    let zero = r.below(1_000_000_000);
    let hundred = zero.saturating_add(r.below(2_000_000_000)).max(1);
    let npts = r.u8() % 6;
    let mut utils: Vec<u32> = (0..npts).map(|_| 1 + r.below(u32::MAX - 1)).collect();
    utils.sort();
    utils.dedup();
    let mut rates: Vec<u32> = (0..utils.len()).map(|_| zero + r.below(hundred - zero + 1)).collect();
    rates.sort();
    let fee = |r: &mut ByteReader| if r.u8() % 2 == 0 { 0 } else { r.below(300_000) };
    let curve = CurveSpec { zero, hundred, points: utils.into_iter().zip(rates).collect(), ins_fixed: fee(r), ins_ir: fee(r), prot_fixed: fee(r), prot_ir: fee(r), orig: fee(r) / 10 };
    let kind = r.u8() % 3;
    let mant = 1 + (r.u32() as i64 % 2_000_000_000);
    let expo = -(r.u8() as i32 % 9) - 1;
    let oracle = if kind == 0 {
        OracleSpec::fixed(mant, expo.max(-8))
    } else {
        let conf = (mant as u128 * (r.u16() % 300) as u128 / 10_000) as u64;
        let ema = if kind == 1 { (mant as i128 * (900 + r.u16() as i128 % 200) / 1000).max(1) as i64 } else { mant };
        OracleSpec { kind, mant, expo, conf, ema_mant: ema, ema_conf: conf, max_age: 100, max_conf: 0 }
    };
    BankSpec {
        decimals: if r.u8() % 2 == 0 { 6 } else { r.u8() % 13 },
        token,
        fee_bps: if token == 2 { (r.u16() % 10_001) as u16 } else { 0 },
        fee_max: if token == 2 { r.u32() as u64 } else { 0 },
        aw_i,
        aw_m,
        lw_i,
        lw_m,
        isolated,
        deposit_limit: lim(r),
        borrow_limit: lim(r),
        init_limit: if r.u8() % 4 == 0 { 1 + r.u32() as u64 % 10_000_000 } else { 0 },
        curve,
        oracle,
        emode_tag: 0,
        emode_entries: vec![],
        asset_tag: 0,
        op_state: 1,
        permissionless_bad_debt: r.u8() % 5 == 0,
        staked: None,
    }
}

pub fn decode_case(data: &[u8]) -> (WorldSpec, Vec<Op>) {
    let mut r = ByteReader::new(data);
    let nb = 1 + (r.u8() % 4) as usize;
    let mut banks: Vec<BankSpec> = (0..nb).map(|_| dec_bank(&mut r)).collect();
    // staked-collateral banks (as in world_strategy)
    if r.u8() % 8 == 0 && banks.len() > 1 {
        let mut feed = banks[0].oracle.clone();
        if feed.kind != 1 {
            feed = OracleSpec { kind: 1, conf: (feed.mant as u64) / 500, ema_conf: (feed.mant as u64) / 500, ..feed };
        }
        banks[0].oracle = feed.clone();
        banks[0].asset_tag = 1;
        for b in banks.iter_mut().skip(1) {
            if r.bool() {
                let supply = 1_000_000_000 + r.u64() % 2_000_000_000_000_000;
                let rate_pm = 500 + r.below(2500) as u128;
                b.staked = Some(crate::world::StakedSpec { supply, stake: ((supply as u128 * rate_pm / 1000) as u64).saturating_add(1_000_000_000) });
                b.oracle = OracleSpec { kind: 3, ..feed.clone() };
                b.asset_tag = 2;
                b.token = 0;
                b.fee_bps = 0;
                b.fee_max = 0;
                b.decimals = 9;
                b.isolated = false;
                b.aw_i = b.aw_i.min(1_000_000);
                b.aw_m = b.aw_m.max(b.aw_i);
            }
        }
    }
    let n_users = 2 + r.u8() % 3;
    let pe = r.bool();
    let spec = WorldSpec {
        program_fee_fixed: if pe { r.below(200_000) } else { 0 },
        program_fee_rate: if pe { r.below(500_000) } else { 0 },
        program_fees_enabled: pe,
        bank_init_flat_sol_fee: 5000,
        liq_flat_sol_fee: 0,
        liq_max_fee: 50_000,
        banks,
        n_users,
        user_tokens: if r.u8() % 4 == 0 { 1_000_000 + r.u64() % 1_000_000_000_000_000 } else { 1 << 62 },
        distinct_roles: true,
    };
    let mut ops = vec![];
    while r.left() > 4 && ops.len() < 160 {
        let k = r.u8() % 32;
        let op = match k {
            0..=5 => {
                let (amt, rel) = dec_amount(&mut r);
                Op::Deposit { u: r.u16(), b: r.u16(), amt, rel, up: r.u8() % 3 }
            }
            6..=8 => {
                let (amt, rel) = dec_amount(&mut r);
                Op::Withdraw { u: r.u16(), b: r.u16(), amt, rel, all: r.u8() % 4 == 0 }
            }
            9..=13 => {
                let (amt, rel) = dec_amount(&mut r);
                Op::Borrow { u: r.u16(), b: r.u16(), amt, rel }
            }
            14..=15 => {
                let (amt, rel) = dec_amount(&mut r);
                Op::Repay { u: r.u16(), b: r.u16(), amt, rel, all: r.u8() % 3 == 0 }
            }
            16..=17 => {
                let (amt, rel) = dec_amount(&mut r);
                Op::Liquidate { lq: r.u16(), le: r.u16(), asset: r.u16(), liab: r.u16(), amt, rel }
            }
            18 => Op::Accrue { b: r.u16() },
            19 => Op::Collect { b: r.u16() },
            20 => Op::WithdrawFees { b: r.u16(), amt: r.u64() >> (r.u8() % 50), ins: r.bool() },
            21 => Op::Bankrupt { u: r.u16(), b: r.u16(), signer: r.u8() % 4, crash: r.u8() % 5 < 3 },
            22 => Op::CloseBalance { u: r.u16(), b: r.u16() },
            23 => Op::Price { b: r.u16(), num: r.u16() % 3000, conf_bps: if r.bool() { 0 } else { r.u16() % 2000 } },
            24..=25 => Op::Wait { secs: match r.u8() % 4 { 0 => r.u8() as u32, 1 => r.u16() as u32, 2 => r.u32() % 40_000_000, _ => 0 } },
            26 => Op::Distress { le: r.u16(), mode: (r.u8() % 5 == 0) as u8, depth: 1 + r.u16() % 900 },
            27 => {
                let (wamt, rel) = dec_amount(&mut r);
                Op::Receivership { lq: r.u16(), le: r.u16(), wb: r.u16(), wamt, rb: r.u16(), ramt: r.u64() >> (r.u8() % 50), rel }
            }
            28 => {
                let (amt, rel) = dec_amount(&mut r);
                Op::Flash { u: r.u16(), b: r.u16(), amt, rel, repay: r.bool() }
            }
            29 => Op::Configure { b: r.u16(), kind: r.u8() % 12, val: match r.u8() % 4 { 0 => 0, 1 => 1, 2 => u64::MAX, _ => r.u64() >> (r.u8() % 50) } },
            30 => match r.u8() % 6 {
                5 => Op::CloseBank { b: r.u16() },
                4 => Op::Emissions { b: r.u16(), u: r.u16(), step: r.u8() % 3, val: r.u8() },
                3 => Op::Sunset { b: r.u16(), u: r.u16(), step: r.u8() % 4 },
                0 => Op::Transfer { u: r.u16() },
                1 => Op::CloseAccount { u: r.u16(), payer: r.u8() % 2 },
                _ => Op::Freeze { u: r.u16(), on: r.bool() },
            },
            _ => Op::Pulse { u: r.u16() },
        };
        ops.push(op);
    }
    (spec, ops)
}
