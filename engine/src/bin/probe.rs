use mfv::common::*;
use mfv::world::*;
fn main() {
    silence_program_stdout();
    std::panic::set_hook(Box::new(|_| {}));
    let mut spec = WorldSpec::default();
    let mut b1 = BankSpec::default();
    b1.oracle = OracleSpec::pyth(10_000_000, -6, 0);
    let mut b2 = BankSpec::default();
    b2.oracle = OracleSpec::pyth(1_000_000, -6, 0);
    spec.banks = vec![b1, b2];
    spec.n_users = 3;
    let mut w = World::build(&spec).unwrap();
    let (u0, u1, u2) = (w.users[0].clone(), w.users[1].clone(), w.users[2].clone());
    out(&format!("lender dep: {:?}", w.vm.exec(&w.ix_deposit(u0.accts[0], u0.auth, 1, u0.tokens[1], 1_000_000_000_000, None))));
    out(&format!("u1 dep: {:?}", w.vm.exec(&w.ix_deposit(u1.accts[0], u1.auth, 0, u1.tokens[0], 100_000_000, None))));
    out(&format!("u1 bor: {:?}", w.vm.exec(&w.ix_borrow(u1.accts[0], u1.auth, 1, u1.tokens[1], 300_000_000))));
    let _ = w.set_price(0, 3_000_000, 0, 3_000_000, 0);
    // self-liquidation: liquidator == liquidatee
    let ix = w.ix_liquidate(u1.accts[0], u1.auth, u1.accts[0], 0, 1, 1_000_000);
    let mut vm = w.vm.clone();
    out(&format!("self-liquidation: {:?} panic={:?}", vm.exec(&ix), mfv::svm::last_panic()));
    // liquidation by u2 normal
    out(&format!("u2 dep: {:?}", w.vm.exec(&w.ix_deposit(u2.accts[0], u2.auth, 1, u2.tokens[1], 1_000_000_000, None))));
    let ix = w.ix_liquidate(u2.accts[0], u2.auth, u1.accts[0], 0, 1, 1_000_000);
    let mut vm = w.vm.clone();
    out(&format!("normal liquidation: {:?}", vm.exec(&ix)));
    // withdraw with destination = the bank's own liquidity vault
    let ix = w.ix_withdraw(u0.accts[0], u0.auth, 1, w.banks[1].lv, 1000, None);
    let mut vm = w.vm.clone();
    out(&format!("withdraw into the liquidity vault: {:?}", vm.exec(&ix)));
    // borrow with destination = insurance vault
    let ix = w.ix_borrow(u1.accts[0], u1.auth, 1, w.banks[1].iv, 1000);
    let mut vm = w.vm.clone();
    out(&format!("borrow into the insurance vault: {:?}", vm.exec(&ix)));
    // transfer account to itself
    let mut ix = w.ix_transfer_account(u0.accts[0], u0.accts[0], u0.auth, u0.auth);
    for m in ix.accounts.iter_mut() { if m.pubkey == u0.accts[0] { m.is_signer = true; } }
    let mut vm = w.vm.clone();
    out(&format!("transfer account to itself: {:?} panic={:?}", vm.exec(&ix), mfv::svm::last_panic()));
    // transfer to an EXISTING other account (u2's)
    let mut ix = w.ix_transfer_account(u0.accts[0], u2.accts[0], u0.auth, u0.auth);
    for m in ix.accounts.iter_mut() { if m.pubkey == u2.accts[0] { m.is_signer = true; } }
    let mut vm = w.vm.clone();
    out(&format!("transfer into an existing account: {:?}", vm.exec(&ix)));
}
