use mfv::common::*;
use mfv::world::*;
fn main() {
    silence_program_stdout();
    std::panic::set_hook(Box::new(|_| {}));
    let mut spec = WorldSpec::default();
    let mut b1 = BankSpec::default();
    b1.oracle = OracleSpec::pyth(10_000_000, -6, 0);
    spec.banks = vec![b1];
    spec.n_users = 2;
    let mut w = World::build(&spec).unwrap();
    let u0 = w.users[0].clone();
    let (_mint, funding) = w.ensure_emissions_fixtures();
    out(&format!("setup emissions: {:?}", w.vm.exec(&w.ix_setup_emissions(0, funding, 2, 1_000_000, 1_000_000_000_000))));
    out(&format!("dep: {:?}", w.vm.exec(&w.ix_deposit(u0.accts[0], u0.auth, 0, u0.tokens[0], 1_000_000_000, None))));
    w.vm.advance(100_000);
    w.refresh_oracles();
    let r = w.vm.exec(&w.ix_withdraw(u0.accts[0], u0.auth, 0, u0.tokens[0], 0, Some(true)));
    out(&format!("withdraw_all with emissions outstanding: {:?}", r));
    let a = w.macct(&u0.accts[0]);
    out(&format!("balance active={} shares={:?} em_out={:?}", a.lending_account.balances[0].active, fixed::types::I80F48::from(a.lending_account.balances[0].asset_shares), fixed::types::I80F48::from(a.lending_account.balances[0].emissions_outstanding)));
}
