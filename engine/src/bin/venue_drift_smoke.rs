//! Smoke test of the fake DRIFT venue: every step goes through `marginfi::entry`.
//! One line per step: `<step>: OK` / `REFUSED(code)`; a step whose outcome differs from the expectation prints
//! `SURPRISE` and makes the process exit 1. Steps marked `(report)` have no expectation.
use fixed::types::I80F48;
use mfv::common::*;
use mfv::svm::{err_code, TxOutcome};
use mfv::venue_drift as vd;
use mfv::world::*;
use num_bigint::BigInt;
use num_traits::ToPrimitive;
use solana_program::{program_error::ProgramError, pubkey::Pubkey};

struct Ctx {
    tag: String,
    surprises: u32,
    steps: u32,
}
impl Ctx {
    fn line(&self, s: &str) {
        out(&format!("[{}] {}", self.tag, s));
    }
    fn surprise(&mut self, s: &str) {
        self.surprises += 1;
        out(&format!("[{}] SURPRISE: {}", self.tag, s));
    }
    /// expect: Some(true) = must succeed, Some(false) = must be refused, None = report only
    fn step(&mut self, name: &str, r: Result<(), ProgramError>, expect: Option<bool>) -> bool {
        self.steps += 1;
        let ok = r.is_ok();
        let txt = match &r {
            Ok(()) => "OK".to_string(),
            Err(e) => format!("REFUSED({})", err_code(e)),
        };
        let rep = if expect.is_none() { " (report)" } else { "" };
        self.line(&format!("{name}: {txt}{rep}"));
        if let Some(x) = expect {
            if x != ok {
                self.surprise(&format!("{name}: expected {} got {txt} panic={:?}", if x { "OK" } else { "REFUSED" }, mfv::svm::last_panic()));
            }
        }
        ok
    }
    fn check(&mut self, name: &str, cond: bool, detail: String) {
        if cond {
            self.line(&format!("  check {name}: ok ({detail})"));
        } else {
            self.surprise(&format!("check {name} FAILED ({detail})"));
        }
    }
}

fn tx(o: TxOutcome) -> Result<(), ProgramError> {
    match o.err {
        None => Ok(()),
        Some((_, e)) => Err(e),
    }
}

fn h(seed: u64, tag: &str) -> u64 {
    u64::from_le_bytes(kp(tag, seed).to_bytes()[..8].try_into().unwrap())
}

fn shares_of(w: &World, acct: &Pubkey, bank: usize) -> u64 {
    let a = w.macct(acct);
    for b in a.lending_account.balances.iter() {
        if b.active != 0 && b.bank_pk == w.banks[bank].key {
            return I80F48::from(b.asset_shares).to_num::<u64>();
        }
    }
    0
}
fn has_balance(w: &World, acct: &Pubkey, bank: usize) -> bool {
    w.macct(acct).lending_account.balances.iter().any(|b| b.active != 0 && b.bank_pk == w.banks[bank].key)
}
fn liability_native(w: &World, acct: &Pubkey, bank: usize) -> f64 {
    let a = w.macct(acct);
    let bk = w.bank(bank);
    for b in a.lending_account.balances.iter() {
        if b.active != 0 && b.bank_pk == w.banks[bank].key {
            return (I80F48::from(b.liability_shares) * I80F48::from(bk.liability_share_value)).to_num::<f64>();
        }
    }
    0.0
}
/// floor(shares * rate) in native tokens, exact
fn tokens_of(w: &World, bank: usize, shares: u64) -> u64 {
    let (n, d) = vd::exact_rate(&w.vm, &w.banks[bank]);
    (BigInt::from(shares) * n / d).to_u64().unwrap()
}

fn venue_spec(token: u8, decimals: u8, seed: u64) -> BankSpec {
    let mut b = BankSpec::default();
    b.decimals = decimals;
    b.token = token;
    b.aw_i = 500_000;
    b.aw_m = 750_000;
    b.oracle = if seed % 2 == 1 {
        OracleSpec::pyth(2_000_000, -6, 20)
    } else {
        OracleSpec { kind: 2, mant: 2_000_000, expo: -6, conf: 20, ema_mant: 2_000_000, ema_conf: 20, max_age: 100, max_conf: 0 }
    };
    b
}

fn build(token: u8, decimals: u8, seed: u64) -> Result<(World, usize), String> {
    let mut spec = WorldSpec::default();
    let b0 = BankSpec::default(); // ordinary bank: 6 decimals, SPL, fixed price 1, borrowable
    spec.banks = vec![b0];
    spec.n_users = 3;
    let mut w = World::build(&spec)?;
    let ci = vd::CUM_INTEREST_ONE + (h(seed, "ci") % 5_000_000_000) as u128;
    let opts = vd::DriftOpts { cumulative_deposit_interest: ci, init_amount: 10 + h(seed, "init") % 1000, ..Default::default() };
    let bi = vd::add_bank_ext(&mut w, &venue_spec(token, decimals, seed), &opts)?;
    Ok((w, bi))
}

fn run(token: u8, decimals: u8, seed: u64) -> (u32, u32) {
    let mut c = Ctx { tag: format!("tok{token} dec{decimals} seed{seed}"), surprises: 0, steps: 0 };
    let (mut w, vb) = match build(token, decimals, seed) {
        Ok(x) => x,
        Err(e) => {
            c.surprise(&format!("build failed: {e} panic={:?}", mfv::svm::last_panic()));
            return (c.surprises, c.steps);
        }
    };
    let v = vd::venue(&w, vb);
    let (rn, rd) = vd::exact_rate(&w.vm, &w.banks[vb]);
    c.line(&format!(
        "world built: venue bank {vb} market_index {} oracle kind {} rate {}/{} init position {:?}",
        v.market_index,
        w.banks[vb].oracle_kind,
        rn,
        rd,
        vd::venue_state(&w.vm, &v).position_scaled_balance
    ));
    c.check("is_drift_bank", vd::is_drift_bank(&w, vb) && !vd::is_drift_bank(&w, 0), "asset tag".into());
    let (u0, u1) = (w.users[0].clone(), w.users[1].clone());
    let a0 = u0.accts[0];
    let unit = 10u64.pow(decimals as u32);
    let stranger = w.roles.stranger;
    let stranger_ta = kp("stranger_ta", 0);
    let acct = w.make_token_acct(&w.banks[vb].clone(), stranger, 0);
    w.vm.set(stranger_ta, acct);
    let admin_src = kp("drift_init_src", vb as u64);
    let holders = vec![u0.tokens[vb], u1.tokens[vb], w.users[2].tokens[vb], stranger_ta, admin_src, v.vault, w.banks[vb].lv];
    let total = |w: &World| -> u128 { holders.iter().map(|k| w.tok(k) as u128).sum() };
    let total0 = total(&w);
    let mut accrued: u128 = 0;

    // --- fund the ordinary bank
    let ix = w.ix_deposit(u1.accts[0], u1.auth, 0, u1.tokens[0], 1_000_000_000_000_000, None);
    c.step("u1 deposits into ordinary bank", w.vm.exec(&ix), Some(true));

    // --- deposit into the venue bank
    let dep = unit * (1_000 + h(seed, "dep") % 9_000) + h(seed, "dep2") % unit;
    let (t_u0, t_v) = (w.tok(&u0.tokens[vb]), w.tok(&v.vault));
    let st0 = vd::venue_state(&w.vm, &v);
    let ix = vd::ix_deposit(&w, 0, &a0, vb, dep);
    c.step(&format!("u0 drift_deposit {dep}"), w.vm.exec(&ix), Some(true));
    let st1 = vd::venue_state(&w.vm, &v);
    let sh = shares_of(&w, &a0, vb);
    let exp_sh = (BigInt::from(dep) * &rd / &rn).to_u64().unwrap();
    c.check("deposit moved tokens user -> venue vault", t_u0 - w.tok(&u0.tokens[vb]) == dep && w.tok(&v.vault) - t_v == dep && w.tok(&w.banks[vb].lv) == 0, format!("vault {}", w.tok(&v.vault)));
    c.check("shares = floor(amount / rate), venue position grew by the same", sh == exp_sh && st1.position_scaled_balance - st0.position_scaled_balance == sh && st1.deposit_balance - st0.deposit_balance == sh as u128, format!("shares {sh}"));
    c.check("deposit not rounded in the user's favour", tokens_of(&w, vb, sh) <= dep, format!("worth {} of {dep}", tokens_of(&w, vb, sh)));

    // a second, debt-free depositor
    let u2 = w.users[2].clone();
    let a2 = u2.accts[0];
    let dep2 = unit * (10 + h(seed, "dep3") % 90) + h(seed, "dep4") % unit;
    let ix = vd::ix_deposit(&w, 2, &a2, vb, dep2);
    c.step(&format!("u2 drift_deposit {dep2}"), w.vm.exec(&ix), Some(true));

    // --- borrow against it
    // collateral value (init) = dep_ui * 2 * 0.5 = dep_ui ; liability weight 1.5, price 1, 6 decimals
    let maxb = ((dep as f64 / unit as f64) / 1.5 * 1e6) as u64;
    let b1 = maxb * 3 / 10;
    let ix = w.ix_borrow(a0, u0.auth, 0, u0.tokens[0], b1);
    c.step(&format!("u0 borrows {b1} (30% of capacity) from ordinary bank"), w.vm.exec(&ix), Some(true));
    let ix = w.ix_borrow(a0, u0.auth, 0, u0.tokens[0], maxb * 9 / 10);
    c.step("u0 borrows 90% more (over capacity)", w.vm.exec(&ix), Some(false));

    // --- withdrawals
    let (t_u0, t_v) = (w.tok(&u0.tokens[vb]), w.tok(&v.vault));
    let wd = dep / 10 + h(seed, "wd") % 1000;
    let sh_before = shares_of(&w, &a0, vb);
    let ix = vd::ix_withdraw(&w, 0, &a0, vb, wd, false, u0.auth, u0.tokens[vb]);
    c.step(&format!("u0 drift_withdraw {wd}"), w.vm.exec(&ix), Some(true));
    let sh_after = shares_of(&w, &a0, vb);
    c.check("withdraw moved tokens venue vault -> user", w.tok(&u0.tokens[vb]) - t_u0 == wd && t_v - w.tok(&v.vault) == wd && w.tok(&w.banks[vb].lv) == 0, format!("vault {}", w.tok(&v.vault)));
    c.check("withdraw not rounded in the user's favour", tokens_of(&w, vb, sh_before) - tokens_of(&w, vb, sh_after) >= wd, format!("shares burnt {} worth {}", sh_before - sh_after, tokens_of(&w, vb, sh_before) - tokens_of(&w, vb, sh_after)));
    let ix = vd::ix_withdraw(&w, 0, &a0, vb, dep * 3 / 4, false, u0.auth, u0.tokens[vb]);
    c.step("u0 drift_withdraw 75% (health would go negative)", w.vm.exec(&ix), Some(false));
    let ix = vd::ix_withdraw(&w, 0, &a0, vb, dep / 100, false, stranger, stranger_ta);
    c.step("stranger drift_withdraw from u0's account", w.vm.exec(&ix), Some(false));
    let ix = vd::ix_withdraw(&w, 0, &a0, vb, dep / 100, false, u1.auth, u1.tokens[vb]);
    c.step("another user drift_withdraw from u0's account", w.vm.exec(&ix), Some(false));
    let ix = vd::ix_deposit_with(&w, &a0, vb, 1000, stranger, stranger_ta);
    c.step("stranger drift_deposit into u0's account", w.vm.exec(&ix), Some(false));
    let ix = vd::ix_withdraw(&w, 0, &a0, vb, dep * 2, false, u0.auth, u0.tokens[vb]);
    c.step("u0 drift_withdraw 2x the deposit", w.vm.exec(&ix), Some(false));

    // --- bank paused / reduce-only
    let admin = w.roles.admin;
    let set_state = |w: &mut World, s: u8| {
        let mut opt = marginfi_type_crate::types::BankConfigOpt::default();
        opt.operational_state = Some(op_state(s));
        let ix = w.ix_configure_bank(vb, opt, admin);
        w.vm.exec(&ix)
    };
    c.step("configure_bank Paused", set_state(&mut w, 0), Some(true));
    let ix = vd::ix_deposit(&w, 0, &a0, vb, 1000);
    c.step("  paused: drift_deposit", w.vm.exec(&ix), Some(false));
    let ix = vd::ix_withdraw(&w, 0, &a0, vb, 1000, false, u0.auth, u0.tokens[vb]);
    c.step("  paused: drift_withdraw", w.vm.exec(&ix), Some(false));
    c.step("configure_bank ReduceOnly", set_state(&mut w, 2), Some(true));
    let ix = vd::ix_deposit(&w, 0, &a0, vb, 1000);
    c.step("  reduce-only: drift_deposit", w.vm.exec(&ix), Some(false));
    let ix = vd::ix_deposit(&w, 2, &a2, vb, 1000);
    c.step("  reduce-only: drift_deposit (debt-free user)", w.vm.exec(&ix), Some(false));
    let t2 = w.tok(&u2.tokens[vb]);
    let ix = vd::ix_withdraw(&w, 2, &a2, vb, dep2 / 3, false, u2.auth, u2.tokens[vb]);
    c.step("  reduce-only: drift_withdraw (debt-free user)", w.vm.exec(&ix), Some(true));
    c.check("reduce-only withdraw paid out", w.tok(&u2.tokens[vb]) - t2 == dep2 / 3, format!("{}", dep2 / 3));
    // the risk engine values a ReduceOnly bank's collateral at 0 for the initial requirement, so an account with debt
    // cannot withdraw anything from it (same as for ordinary banks)
    let ix = vd::ix_withdraw(&w, 0, &a0, vb, 1000, false, u0.auth, u0.tokens[vb]);
    c.step("  reduce-only: drift_withdraw (user with debt, 1000 tokens)", w.vm.exec(&ix), None);
    c.step("configure_bank Operational", set_state(&mut w, 1), Some(true));

    // --- protocol pause
    let ix = w.ix_panic_pause(w.roles.fee_admin);
    c.step("panic_pause", w.vm.exec(&ix), Some(true));
    let ix = w.ix_propagate_fee_state();
    c.step("propagate_fee_state", w.vm.exec(&ix), Some(true));
    let ix = vd::ix_deposit(&w, 0, &a0, vb, 1000);
    c.step("  protocol paused: drift_deposit", w.vm.exec(&ix), Some(false));
    let ix = vd::ix_withdraw(&w, 0, &a0, vb, 1000, false, u0.auth, u0.tokens[vb]);
    c.step("  protocol paused: drift_withdraw", w.vm.exec(&ix), Some(false));
    let ix = w.ix_panic_unpause(w.roles.fee_admin);
    c.step("panic_unpause", w.vm.exec(&ix), Some(true));
    let ix = w.ix_propagate_fee_state();
    c.step("propagate_fee_state", w.vm.exec(&ix), Some(true));
    let ix = vd::ix_deposit(&w, 0, &a0, vb, 1000);
    c.step("  unpaused: drift_deposit", w.vm.exec(&ix), Some(true));

    // --- staleness of the venue account
    w.vm.advance(30);
    w.refresh_oracles();
    let small = (maxb / 100).max(1);
    let ix = w.ix_borrow(a0, u0.auth, 0, u0.tokens[0], small);
    let stale_borrow_ok = c.step("clock +30s, price feed refreshed, spot market NOT refreshed: borrow", w.vm.exec(&ix), None);
    c.line(&format!("  -> a stale spot market makes the borrow {}", if stale_borrow_ok { "SUCCEED (collateral still counted?)" } else { "fail" }));
    let ix = w.ix_pulse_health(a0);
    c.step("  stale spot market: pulse_health", w.vm.exec(&ix), None);
    {
        let hc = w.macct(&a0).health_cache;
        c.line(&format!("  health cache with stale spot market: asset_value {} liability_value {} flags {:#b} mrgn_err {} internal_err {}", I80F48::from(hc.asset_value), I80F48::from(hc.liability_value), hc.flags, hc.mrgn_err, hc.internal_err));
    }
    if stale_borrow_ok {
        c.surprise("a stale venue account was used for pricing (or ignored yet the borrow passed)");
    }
    let mut ixs = vd::refresh_ixs(&w, vb);
    ixs.push(w.ix_borrow(a0, u0.auth, 0, u0.tokens[0], small));
    c.step("  [venue refresh, borrow] in one transaction", tx(w.vm.exec_tx(&ixs)), Some(true));
    w.vm.advance(30);
    w.refresh_oracles();
    let ix = w.ix_borrow(a0, u0.auth, 0, u0.tokens[0], small);
    c.step("  clock +30s again, no refresh: borrow", w.vm.exec(&ix), Some(false));
    vd::refresh_direct(&mut w, vb);
    let ix = w.ix_borrow(a0, u0.auth, 0, u0.tokens[0], small);
    c.step("  refresh_direct then borrow", w.vm.exec(&ix), Some(true));
    w.vm.advance(30);
    w.refresh_oracles();
    let ix = vd::ix_withdraw(&w, 0, &a0, vb, 1000, false, u0.auth, u0.tokens[vb]);
    c.step("  clock +30s, no refresh: drift_withdraw (handler refreshes by CPI itself)", w.vm.exec(&ix), Some(true));
    w.vm.advance(30);
    w.refresh_oracles();
    let ix = vd::ix_deposit(&w, 0, &a0, vb, 1000);
    c.step("  clock +30s, no refresh: drift_deposit", w.vm.exec(&ix), Some(true));

    // --- interest knob
    let sh = shares_of(&w, &a0, vb);
    let before = tokens_of(&w, vb, sh);
    let added = vd::accrue(&mut w.vm, &v, 50_000 + h(seed, "acc") % 50_000);
    accrued += added as u128;
    let after = tokens_of(&w, vb, sh);
    c.check("accrue grows the worth of the same shares", after > before, format!("{before} -> {after}, vault +{added}"));
    let ix = w.ix_pulse_health(a0);
    c.step("pulse_health after accrue", w.vm.exec(&ix), Some(true));

    // --- receivership bracket
    let ix = w.ix_init_liq_record(a0, u1.auth);
    c.step("init liquidation record", w.vm.exec(&ix), Some(true));
    let all_risk = w.risk_metas(&a0, None, None);
    let bracket = |w: &World, seize: u64, repay: u64| -> Vec<solana_program::instruction::Instruction> {
        let mut ixs = vd::refresh_ixs(w, vb);
        ixs.push(w.ix_start_liquidation(a0, u1.auth));
        ixs.push(vd::ix_withdraw_with(w, &a0, vb, seize, false, u1.auth, u1.tokens[vb], all_risk.clone()));
        ixs.push(w.ix_repay(a0, u1.auth, 0, u1.tokens[0], repay, None));
        ixs.push(w.ix_end_liquidation(a0, u1.auth, all_risk.clone()));
        ixs
    };
    let debt = liability_native(&w, &a0, 0);
    let repay = (debt / 10.0) as u64;
    c.step("bracket on a HEALTHY account", tx(w.vm.exec_tx(&bracket(&w, unit, repay))), Some(false));
    // drop the venue asset's price so that maintenance assets = 0.9 * maintenance liabilities
    let coll_ui = tokens_of(&w, vb, shares_of(&w, &a0, vb)) as f64 / unit as f64;
    let debt_ui = debt / 1e6;
    let p_low = 0.9 * debt_ui * 1.25 / (coll_ui * 0.75);
    let mant = (p_low * 1e6) as i64;
    c.step(&format!("venue asset price 2.0 -> {p_low:.6}"), w.set_price(vb, mant, 1, mant, 1), Some(true));
    vd::refresh_direct(&mut w, vb);
    let ix = w.ix_borrow(a0, u0.auth, 0, u0.tokens[0], small);
    c.step("  unhealthy: borrow", w.vm.exec(&ix), Some(false));
    let ix = vd::ix_withdraw(&w, 0, &a0, vb, 1000, false, u0.auth, u0.tokens[vb]);
    c.step("  unhealthy: drift_withdraw by the owner", w.vm.exec(&ix), Some(false));
    let repay_ui = repay as f64 / 1e6;
    let seize_for = |premium: f64| -> u64 { (repay_ui * premium / p_low * unit as f64) as u64 };
    c.step("  bracket seizing 1.5x the repaid value", tx(w.vm.exec_tx(&bracket(&w, seize_for(1.5), repay))), Some(false));
    let mut ixs = bracket(&w, seize_for(1.02), repay);
    ixs.remove(0);
    w.vm.advance(1);
    w.refresh_oracles();
    c.step("  bracket without the venue refresh (spot market 1 s old)", tx(w.vm.exec_tx(&ixs)), Some(false));
    let (t_u1, t_v, sh_b) = (w.tok(&u1.tokens[vb]), w.tok(&v.vault), shares_of(&w, &a0, vb));
    let seize = seize_for(1.02);
    c.step(&format!("  bracket [refresh, start_liquidation, drift_withdraw {seize}, repay {repay}, end_liquidation]"), tx(w.vm.exec_tx(&bracket(&w, seize, repay))), Some(true));
    c.check("liquidator received the seized tokens from the venue vault", w.tok(&u1.tokens[vb]) - t_u1 == seize && t_v - w.tok(&v.vault) == seize, format!("shares {} -> {}", sh_b, shares_of(&w, &a0, vb)));
    let fl = w.macct(&a0).account_flags;
    c.check("account left receivership", fl & marginfi_type_crate::types::ACCOUNT_IN_RECEIVERSHIP == 0, format!("flags {fl:#b}"));
    // outside a bracket the liquidator has no rights
    let ix = vd::ix_withdraw(&w, 0, &a0, vb, 1000, false, u1.auth, u1.tokens[vb]);
    c.step("  liquidator drift_withdraw outside a bracket", w.vm.exec(&ix), Some(false));

    // --- unwind: restore price, repay everything, withdraw all
    c.step("venue asset price back to 2.0", w.set_price(vb, 2_000_000, 20, 2_000_000, 20), Some(true));
    let ix = w.ix_repay(a0, u0.auth, 0, u0.tokens[0], 0, Some(true));
    c.step("u0 repays all", w.vm.exec(&ix), Some(true));
    let sh = shares_of(&w, &a0, vb);
    let worth = tokens_of(&w, vb, sh);
    let (t_u0, t_v) = (w.tok(&u0.tokens[vb]), w.tok(&v.vault));
    let ix = vd::ix_withdraw(&w, 0, &a0, vb, 0, true, u0.auth, u0.tokens[vb]);
    c.step("u0 drift_withdraw withdraw_all", w.vm.exec(&ix), Some(true));
    let got = w.tok(&u0.tokens[vb]) - t_u0;
    c.check("withdraw_all closed the position", !has_balance(&w, &a0, vb), "no active balance".into());
    c.check("withdraw_all returned the underlying (worth or worth - 1, never more)", (got == worth || got + 1 == worth) && t_v - w.tok(&v.vault) == got, format!("{sh} shares worth {worth}, got {got}"));
    let (sh2, t2) = (shares_of(&w, &a2, vb), w.tok(&u2.tokens[vb]));
    let worth2 = tokens_of(&w, vb, sh2);
    let ix = vd::ix_withdraw(&w, 2, &a2, vb, 0, true, u2.auth, u2.tokens[vb]);
    c.step("u2 drift_withdraw withdraw_all", w.vm.exec(&ix), Some(true));
    let got2 = w.tok(&u2.tokens[vb]) - t2;
    c.check("u2 withdraw_all returned worth or worth - 1", (got2 == worth2 || got2 + 1 == worth2) && !has_balance(&w, &a2, vb), format!("{sh2} shares worth {worth2}, got {got2}"));
    let bk = w.bank(vb);
    let st = vd::venue_state(&w.vm, &v);
    c.line(&format!(
        "  bank total_asset_shares {} ; venue position left {} scaled (init deposit + dust) worth {} tokens, vault {}",
        I80F48::from(bk.total_asset_shares),
        st.position_scaled_balance,
        tokens_of(&w, vb, st.position_scaled_balance),
        st.vault_tokens
    ));
    c.check("bank has no shares left", I80F48::from(bk.total_asset_shares) == I80F48::ZERO, "total_asset_shares".into());
    c.check("venue vault covers the remaining position", st.vault_tokens >= tokens_of(&w, vb, st.position_scaled_balance), "solvent".into());
    c.check("token conservation (users + venue vault + liquidity vault constant up to accrued interest)", total(&w) == total0 + accrued, format!("{} = {} + {}", total(&w), total0, accrued));
    c.line(&format!("done: {} steps, {} surprises", c.steps, c.surprises));
    (c.surprises, c.steps)
}

fn observations() -> u32 {
    let mut c = Ctx { tag: "observations".into(), surprises: 0, steps: 0 };
    // Token-2022 with a transfer fee: marginfi moves `amount` into the liquidity vault (fee withheld) and then asks the
    // venue to take `amount` out of it
    let mut spec = WorldSpec::default();
    spec.banks = vec![BankSpec::default()];
    spec.n_users = 2;
    let mut w = World::build(&spec).unwrap();
    let mut b = venue_spec(2, 6, 1);
    b.fee_bps = 100;
    b.fee_max = 1_000_000;
    let r = vd::add_bank(&mut w, &b);
    c.line(&format!("Token-2022 transfer-fee mint (1%): add_bank -> {r:?} (report)"));
    // wrong callers of the fake itself (top-level, not through marginfi)
    let mut w = World::build(&spec).unwrap();
    let vb = vd::add_bank(&mut w, &venue_spec(0, 6, 1)).unwrap();
    let v = vd::venue(&w, vb);
    let u0 = w.users[0].clone();
    use anchor_lang::Discriminator;
    use solana_program::instruction::{AccountMeta, Instruction};
    let wd = |authority: Pubkey, signer: bool, dest: Pubkey, amount: u64, reduce_only: bool| -> Instruction {
        let mut data = drift_mocks::drift::client::args::Withdraw::DISCRIMINATOR.to_vec();
        data.extend_from_slice(&v.market_index.to_le_bytes());
        data.extend_from_slice(&amount.to_le_bytes());
        data.push(reduce_only as u8);
        Instruction {
            program_id: vd::program_id(),
            accounts: vec![
                AccountMeta::new_readonly(v.state, false),
                AccountMeta::new(v.user, false),
                AccountMeta::new(v.user_stats, false),
                AccountMeta { pubkey: authority, is_signer: signer, is_writable: false },
                AccountMeta::new(v.vault, false),
                AccountMeta::new_readonly(v.signer, false),
                AccountMeta::new(dest, false),
                AccountMeta::new_readonly(w.banks[vb].token_program, false),
                AccountMeta::new_readonly(v.oracle.unwrap(), false),
                AccountMeta::new(v.spot_market, false),
                AccountMeta::new_readonly(v.mint, false),
            ],
            data,
        }
    };
    let mut w2 = w.clone();
    c.step("fake: withdraw signed by a stranger (not the position's authority)", w2.vm.exec(&wd(u0.auth, true, u0.tokens[vb], 5, true)), Some(false));
    c.step("fake: withdraw naming the right authority without its signature", w2.vm.exec(&wd(w.banks[vb].lv_auth, false, u0.tokens[vb], 5, true)), Some(false));
    // an account not owned by the venue program in the user slot
    let mut ix = wd(u0.auth, true, u0.tokens[vb], 5, true);
    ix.accounts[1] = AccountMeta::new(u0.accts[0], false);
    c.step("fake: withdraw with a foreign account as the venue user", w2.vm.exec(&ix), Some(false));
    // unknown instruction data -> accepted, nothing happens
    let snap = w2.vm.accts.clone();
    let ix = Instruction { program_id: vd::program_id(), accounts: vec![AccountMeta::new(v.spot_market, false)], data: vec![1, 2, 3, 4, 5, 6, 7, 8, 9] };
    c.step("fake: unknown instruction data", w2.vm.exec(&ix), Some(true));
    c.check("unknown instruction changed nothing", snap == w2.vm.accts, "store equal".into());
    // refresh does nothing but stamp the timestamp
    w2.vm.advance(7);
    let before = w2.vm.data(&v.spot_market).to_vec();
    let ixs = vd::refresh_ixs(&w2, vb);
    c.step("fake: update_spot_market_cumulative_interest", w2.vm.exec(&ixs[0]), Some(true));
    let after = w2.vm.data(&v.spot_market).to_vec();
    let diff: Vec<usize> = (0..before.len()).filter(|&i| before[i] != after[i]).collect();
    c.check("refresh changed only last_interest_ts", !diff.is_empty() && diff.iter().all(|&i| (vd::SM_LAST_INTEREST_TS..vd::SM_LAST_INTEREST_TS + 8).contains(&i)), format!("bytes {diff:?}"));
    let mut w3 = w2.clone();
    vd::refresh_direct(&mut w3, vb);
    c.check("refresh_direct == refresh instruction", w3.vm.data(&v.spot_market) == w2.vm.data(&v.spot_market), "same bytes".into());
    // low-decimals bank with an unlimited deposit limit (report)
    let mut w4 = World::build(&spec).unwrap();
    let mut b = venue_spec(0, 4, 1);
    b.deposit_limit = 1 << 63;
    match vd::add_bank(&mut w4, &b) {
        Ok(vb4) => {
            let ix = vd::ix_deposit(&w4, 0, &w4.users[0].accts[0], vb4, 1_000_000);
            c.step("4-decimals DRIFT bank with deposit_limit = 2^63: drift_deposit", w4.vm.exec(&ix), None);
            let mut w5 = World::build(&spec).unwrap();
            b.deposit_limit = 1 << 50;
            let vb5 = vd::add_bank(&mut w5, &b).unwrap();
            let ix = vd::ix_deposit(&w5, 0, &w5.users[0].accts[0], vb5, 1_000_000);
            c.step("4-decimals DRIFT bank with deposit_limit = 2^50: drift_deposit", w5.vm.exec(&ix), None);
        }
        Err(e) => c.line(&format!("4-decimals DRIFT bank: add_bank -> {e} (report)")),
    }
    // the deposit cap of a DRIFT bank is compared with the scaled balance, not with tokens
    let mut w7 = World::build(&spec).unwrap();
    let mut b = venue_spec(0, 6, 1);
    b.deposit_limit = 1_000_000_000; // 1000 tokens
    let opts = vd::DriftOpts { cumulative_deposit_interest: 15_000_000_000, ..Default::default() };
    let vb7 = vd::add_bank_ext(&mut w7, &b, &opts).unwrap();
    let ix = vd::ix_deposit(&w7, 0, &w7.users[0].accts[0], vb7, 1_400_000_000);
    c.step("deposit_limit 1000 tokens, venue rate 1.5: drift_deposit of 1400 tokens", w7.vm.exec(&ix), None);
    let ix = vd::ix_deposit(&w7, 1, &w7.users[1].accts[0], vb7, 200_000_000);
    c.step("  then 200 more tokens (1600 total = 1066 scaled)", w7.vm.exec(&ix), None);
    // mints with more than 9 decimals: one scaled-balance unit is worth more than one token, a withdrawal below that burns nothing
    let mut w8 = World::build(&spec).unwrap();
    if let Ok(vb8) = vd::add_bank(&mut w8, &venue_spec(0, 12, 1)) {
        let ix = vd::ix_deposit(&w8, 0, &w8.users[0].accts[0], vb8, 5_000_000_000_500);
        c.step("12-decimals DRIFT bank whose drift_init_user deposited 100 units (< 1 scaled unit): drift_deposit", w8.vm.exec(&ix), None);
        c.line(&format!("  venue position after init: {:?}", vd::venue_state(&w8.vm, &vd::venue(&w8, vb8))));
    }
    let mut w8 = World::build(&spec).unwrap();
    match vd::add_bank_ext(&mut w8, &venue_spec(0, 12, 1), &vd::DriftOpts { init_amount: 1_000_000, ..Default::default() }) {
        Ok(vb8) => {
            let u = w8.users[0].clone();
            let ix = vd::ix_deposit(&w8, 0, &u.accts[0], vb8, 5_000_000_000_500);
            c.step("12-decimals DRIFT bank (init 10^6 units): drift_deposit 5000000000500", w8.vm.exec(&ix), None);
            let (sh, t) = (shares_of(&w8, &u.accts[0], vb8), w8.tok(&u.tokens[vb8]));
            let mut n_ok = 0;
            let mut last = 0u64;
            for _ in 0..5 {
                let ix = vd::ix_withdraw(&w8, 0, &u.accts[0], vb8, 100, false, u.auth, u.tokens[vb8]);
                match w8.vm.exec(&ix) {
                    Ok(()) => n_ok += 1,
                    Err(e) => last = err_code(&e),
                }
            }
            c.line(&format!("  5 x drift_withdraw 100 (1 scaled unit = 1000 tokens; the deposit left 500 tokens of rounding slack in the vault): {n_ok} succeeded (last error {last}), shares {sh} -> {}, user tokens +{} (report)", shares_of(&w8, &u.accts[0], vb8), w8.tok(&u.tokens[vb8]) - t));
        }
        Err(e) => c.line(&format!("12-decimals DRIFT bank: add_bank -> {e} (report)")),
    }
    // market index 0 (quote asset: spot position slot 0, no oracle passed to the venue)
    let mut w6 = World::build(&spec).unwrap();
    let opts = vd::DriftOpts { market_index: Some(0), pool_id: 3, ..Default::default() };
    match vd::add_bank_ext(&mut w6, &venue_spec(0, 6, 1), &opts) {
        Ok(vb6) => {
            let u = w6.users[0].clone();
            let ix = vd::ix_deposit(&w6, 0, &u.accts[0], vb6, 5_000_000);
            c.step("market 0 / pool 3: drift_deposit", w6.vm.exec(&ix), Some(true));
            let ix = vd::ix_withdraw(&w6, 0, &u.accts[0], vb6, 0, true, u.auth, u.tokens[vb6]);
            c.step("market 0 / pool 3: withdraw_all", w6.vm.exec(&ix), Some(true));
        }
        Err(e) => c.surprise(&format!("market 0 bank: {e}")),
    }
    c.surprises
}

fn timing() {
    let (mut w, vb) = build(0, 6, 1).unwrap();
    let u0 = w.users[0].clone();
    let a0 = u0.accts[0];
    let ix = vd::ix_deposit(&w, 0, &a0, vb, 1_000_000_000);
    w.vm.exec(&ix).unwrap();
    let n = 3000u32;
    let t = std::time::Instant::now();
    for i in 0..n {
        let ix = vd::ix_deposit(&w, 0, &a0, vb, 1_000 + i as u64);
        w.vm.exec(&ix).unwrap();
    }
    let d = t.elapsed();
    let t = std::time::Instant::now();
    for i in 0..n {
        let ix = vd::ix_withdraw(&w, 0, &a0, vb, 500 + i as u64, false, u0.auth, u0.tokens[vb]);
        w.vm.exec(&ix).unwrap();
    }
    let wd = t.elapsed();
    let ixs = vd::refresh_ixs(&w, vb);
    let t = std::time::Instant::now();
    for _ in 0..n {
        w.vm.exec(&ixs[0]).unwrap();
    }
    let rf = t.elapsed();
    let t = std::time::Instant::now();
    let m = 200u32;
    for s in 0..m {
        build(0, 6, s as u64).unwrap();
    }
    let bd = t.elapsed();
    out(&format!(
        "timing (incl. building the instruction): drift_deposit {:.1} us, drift_withdraw (risk check, 1 balance) {:.1} us, venue refresh {:.1} us, world build with 1 ordinary + 1 DRIFT bank {:.2} ms",
        d.as_secs_f64() * 1e6 / n as f64,
        wd.as_secs_f64() * 1e6 / n as f64,
        rf.as_secs_f64() * 1e6 / n as f64,
        bd.as_secs_f64() * 1e3 / m as f64
    ));
}

fn main() {
    silence_program_stdout();
    std::panic::set_hook(Box::new(|_| {}));
    if let Err(e) = vd::layout_selfcheck() {
        out(&format!("SURPRISE: {e}"));
        std::process::exit(1);
    }
    out("layout selfcheck: ok");
    let mut surprises = 0;
    let mut steps = 0;
    for token in [0u8, 1] {
        for decimals in [6u8, 9] {
            for seed in [1u64, 2, 3] {
                let (s, n) = run(token, decimals, seed);
                surprises += s;
                steps += n;
            }
        }
    }
    surprises += observations();
    timing();
    out(&format!("TOTAL: {steps} steps, {surprises} surprises"));
    if surprises > 0 {
        std::process::exit(1);
    }
}
