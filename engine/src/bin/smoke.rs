use mfv::world::*;
use mfv::common::*;
fn main() {
    silence_program_stdout();
    std::panic::set_hook(Box::new(|_| {}));
    let mut spec = WorldSpec::default();
    let mut b1 = BankSpec::default();
    b1.oracle = OracleSpec::fixed(2, 0);
    let mut b2 = BankSpec::default();
    b2.token = 2; b2.fee_bps = 250; b2.fee_max = 5000; b2.oracle = OracleSpec::pyth(1_000_000, -6, 1000); b2.decimals = 9;
    let mut b3 = BankSpec::default();
    b3.token = 1; b3.oracle = OracleSpec { kind: 2, mant: 3_000_000, expo: -6, conf: 100, ema_mant: 3_000_000, ema_conf: 100, max_age: 100, max_conf: 0 };
    spec.banks = vec![b1, b2, b3];
    spec.n_users = 3;
    let t = std::time::Instant::now();
    let mut w = match World::build(&spec) { Ok(w) => w, Err(e) => { out(&format!("build failed: {e} panic={:?}", mfv::svm::last_panic())); return; } };
    out(&format!("built in {:?}", t.elapsed()));
    let u0 = w.users[0].clone(); let u1 = w.users[1].clone();
    for bi in 0..3 {
        let ix = w.ix_deposit(u0.accts[0], u0.auth, bi, u0.tokens[bi], 1_000_000_000, None);
        out(&format!("u0 deposit bank{bi}: {:?}", w.vm.exec(&ix)));
    }
    let ix = w.ix_deposit(u1.accts[0], u1.auth, 0, u1.tokens[0], 500_000_000, None);
    out(&format!("u1 deposit bank0: {:?}", w.vm.exec(&ix)));
    for bi in 1..3 {
        let ix = w.ix_borrow(u1.accts[0], u1.auth, bi, u1.tokens[bi], 1_000_000);
        out(&format!("u1 borrow bank{bi}: {:?} panic={:?}", w.vm.exec(&ix), mfv::svm::last_panic()));
    }
    w.vm.advance(86400); w.refresh_oracles();
    let ix = w.ix_withdraw(u1.accts[0], u1.auth, 0, u1.tokens[0], 1000, None);
    out(&format!("u1 withdraw bank0: {:?}", w.vm.exec(&ix)));
    let ix = w.ix_repay(u1.accts[0], u1.auth, 1, u1.tokens[1], 0, Some(true));
    out(&format!("u1 repay all bank1: {:?}", w.vm.exec(&ix)));
    for bi in 0..3 { let ix = w.ix_collect_fees(bi); out(&format!("collect fees {bi}: {:?}", w.vm.exec(&ix))); }
    let b = w.bank(1);
    out(&format!("bank1 asv={} lsv={} vault={}", I80(b.asset_share_value), I80(b.liability_share_value), w.tok(&w.banks[1].lv)));
    let t = std::time::Instant::now();
    let n = 20000;
    for i in 0..n { let ix = w.ix_deposit(u0.accts[0], u0.auth, 0, u0.tokens[0], 1000 + i, None); w.vm.exec(&ix).unwrap(); }
    out(&format!("{n} deposits in {:?}", t.elapsed()));
}
#[allow(non_snake_case)]
fn I80(w: marginfi_type_crate::types::WrappedI80F48) -> f64 { fixed::types::I80F48::from(w).to_num::<f64>() }
