//! Smoke test of the fake KAMINO venue: every step runs through `marginfi::entry` (and the fake venue program for
//! the client-side refresh instructions); prints one line per step with OK / REFUSED(code) and exits non-zero on
//! any surprise.
use marginfi_type_crate::types::{BankConfigOpt, BankOperationalState};
use mfv::common::*;
use mfv::num::*;
use mfv::svm::{err_code, TxOutcome};
use mfv::venue_kamino as vk;
use mfv::world::*;
use num_bigint::BigInt;
use solana_program::instruction::Instruction;
use solana_program::pubkey::Pubkey;

#[derive(Clone, Copy, Debug)]
struct Cfg {
    token: u8,
    decimals: u8,
    seed: u64,
    oracle_kind: u8,
}

fn splitmix(x: u64) -> u64 {
    let mut z = x.wrapping_add(0x9E3779B97F4A7C15);
    z = (z ^ (z >> 30)).wrapping_mul(0xBF58476D1CE4E5B9);
    z = (z ^ (z >> 27)).wrapping_mul(0x94D049BB133111EB);
    z ^ (z >> 31)
}

struct T {
    tag: String,
    surprises: u32,
    steps: u32,
}
fn code_str(o: &TxOutcome) -> String {
    match &o.err {
        None => "OK".into(),
        Some((i, e)) => {
            let c = err_code(e);
            if c < 100_000 {
                format!("REFUSED(ix{} code {})", i, c)
            } else {
                format!("REFUSED(ix{} code 0x{:x})", i, c)
            }
        }
    }
}
impl T {
    fn step(&mut self, name: &str, o: &TxOutcome, expect_ok: bool) -> bool {
        self.steps += 1;
        let good = o.ok == expect_ok;
        if !good {
            self.surprises += 1;
        }
        out(&format!("[{}] {:<58} {:<34} {}", self.tag, name, code_str(o), if good { "as expected" } else { "SURPRISE" }));
        if !good {
            out(&format!("[{}]     last panic: {:?}", self.tag, mfv::svm::last_panic()));
        }
        good
    }
    fn check(&mut self, name: &str, cond: bool, detail: String) {
        self.steps += 1;
        if !cond {
            self.surprises += 1;
        }
        out(&format!("[{}]   check {:<52} {} {}", self.tag, name, if cond { "holds" } else { "VIOLATED (SURPRISE)" }, detail));
    }
    fn note(&self, s: String) {
        out(&format!("[{}]   note  {}", self.tag, s));
    }
}

fn one(ix: Instruction) -> Vec<Instruction> {
    vec![ix]
}
/// one transaction: the venue bank's refresh instructions, then the given instructions
macro_rules! run {
    ($w:ident, $ixs:expr) => {{
        let ixs: Vec<Instruction> = $ixs;
        vk::exec_refreshed(&mut $w, VEN, &ixs)
    }};
}

/// all tokens of the venue bank's mint that the scenario can move
fn token_total(w: &World, bank: usize, extra: &[Pubkey]) -> u128 {
    let v = vk::venue_bank(w, bank);
    let mut s: u128 = 0;
    for u in &w.users {
        s += w.tok(&u.tokens[bank]) as u128;
    }
    for k in [v.liquidity_supply, v.fee_vault, w.banks[bank].lv, w.banks[bank].iv, w.banks[bank].fv, w.banks[bank].fee_ata, kp("kamino_init_src", bank as u64)] {
        s += w.tok(&k) as u128;
    }
    for k in extra {
        s += w.tok(k) as u128;
    }
    s
}

fn position(w: &World, acct: &Pubkey, bank: usize) -> Option<Q> {
    let a = w.macct(acct);
    a.lending_account.balances.iter().find(|b| b.active != 0 && b.bank_pk == w.banks[bank].key).map(|b| q_w(b.asset_shares))
}
fn liability(w: &World, acct: &Pubkey, bank: usize) -> Q {
    let a = w.macct(acct);
    let b = w.bank(bank);
    a.lending_account.balances.iter().find(|x| x.active != 0 && x.bank_pk == w.banks[bank].key).map(|x| q_w(x.liability_shares) * q_w(b.liability_share_value)).unwrap_or(q_zero())
}
fn rate_q(w: &World, bank: usize) -> Q {
    let (n, d) = vk::exact_rate(&w.vm, &w.banks[bank]);
    Q::new(n, d)
}
fn set_state(w: &mut World, bank: usize, st: BankOperationalState) -> TxOutcome {
    let mut opt = BankConfigOpt::default();
    opt.operational_state = Some(st);
    let ix = w.ix_configure_bank(bank, opt, w.roles.admin);
    w.vm.exec_tx(&[ix])
}

const ORD: usize = 0; // ordinary, borrowable bank
const VEN: usize = 1; // the KAMINO bank

fn build(cfg: &Cfg, venue: &vk::VenueSpec) -> Result<World, String> {
    let mut spec = WorldSpec::default();
    let mut b0 = BankSpec::default();
    b0.oracle = OracleSpec::pyth(1_000_000, -6, 0); // $1, 6 decimals
    spec.banks = vec![b0];
    spec.n_users = 3;
    spec.user_tokens = 1 << 60;
    let mut w = World::build(&spec)?;
    let mut vb = BankSpec::default();
    vb.decimals = cfg.decimals;
    vb.token = cfg.token;
    vb.fee_bps = 100;
    vb.fee_max = 1_000_000;
    vb.aw_i = 500_000;
    vb.aw_m = 750_000;
    vb.oracle = OracleSpec { kind: cfg.oracle_kind, mant: 2_000_000, expo: -6, conf: 0, ema_mant: 2_000_000, ema_conf: 0, max_age: 100, max_conf: 0 }; // $2
    let i = vk::add_bank_with(&mut w, &vb, venue)?;
    assert_eq!(i, VEN);
    Ok(w)
}

fn scenario(cfg: Cfg) -> (u32, u32) {
    let tag = format!("tok{} dec{} seed{} {}", cfg.token, cfg.decimals, cfg.seed, if cfg.oracle_kind == 1 { "pyth" } else { "swb" });
    let mut t = T { tag, surprises: 0, steps: 0 };
    let mut w = match build(&cfg, &vk::VenueSpec::default()) {
        Ok(w) => w,
        Err(e) => {
            out(&format!("[{}] build failed: {e}  SURPRISE", t.tag));
            return (1, 1);
        }
    };
    let unit = 10u64.pow(cfg.decimals as u32);
    let r = splitmix(cfg.seed.wrapping_mul(7919) ^ (cfg.decimals as u64) << 8 ^ cfg.token as u64);
    // deposit between ~1 and ~1e6 whole tokens, with a ragged tail
    let deposit = unit * (1 + r % 1_000_000) + (r >> 24) % unit;
    let (u0, u1, u2) = (w.users[0].clone(), w.users[1].clone(), w.users[2].clone());
    let acct = u0.accts[0];
    let v = vk::venue_bank(&w, VEN);
    let total0 = token_total(&w, VEN, &[]);
    let init_coll = vk::obligation_collateral(&w, VEN);
    t.note(format!(
        "deposit amount {} native ({} tokens); venue rate {:.9} underlying/collateral; obligation holds {} collateral from init",
        deposit,
        deposit as f64 / unit as f64,
        q_f64(&rate_q(&w, VEN)),
        init_coll
    ));

    // liquidity for the ordinary bank
    let o = w.vm.exec_tx(&one(w.ix_deposit(u1.accts[0], u1.auth, ORD, u1.tokens[ORD], 1_000_000_000_000_000, None)));
    t.step("user1 funds the ordinary bank", &o, true);
    let o = run!(w, one(vk::ix_deposit(&w, 2, &u2.accts[0], VEN, 5 * unit + 17)));
    t.step("user2 kamino_deposit (a debt-free holder)", &o, true);

    // ---- 1. deposit
    let (tu, tv, oc) = (w.tok(&u0.tokens[VEN]), w.tok(&v.liquidity_supply), vk::obligation_collateral(&w, VEN));
    let rate = rate_q(&w, VEN);
    let o = run!(w,one(vk::ix_deposit(&w, 0, &acct, VEN, deposit)));
    if !t.step("user0 kamino_deposit", &o, true) {
        return (t.surprises, t.steps);
    }
    let coll = vk::obligation_collateral(&w, VEN) - oc;
    let pos = position(&w, &acct, VEN).unwrap_or(q_zero());
    t.check("user paid exactly the amount", tu - w.tok(&u0.tokens[VEN]) == deposit, format!("paid {}", tu - w.tok(&u0.tokens[VEN])));
    t.check("venue vault received exactly the amount", w.tok(&v.liquidity_supply) - tv == deposit, String::new());
    t.check("marginfi intermediary vault is empty", w.tok(&w.banks[VEN].lv) == 0, String::new());
    t.check("marginfi position == venue collateral credited", pos == q_int(coll), format!("position {} collateral {}", q_str(&pos), coll));
    let worth = q_int(coll) * rate.clone();
    t.check("deposit not rounded in the user's favour", worth <= q_int(deposit), format!("collateral worth {} of {} paid (loss {:.3e} units)", q_str(&worth), deposit, q_f64(&(q_int(deposit) - worth.clone()))));
    t.check("deposit rounding loss below 2 collateral units", q_int(deposit) - worth <= rate.clone() * q_int(2), String::new());

    // ---- 2./3. borrow against it
    // init health: coll * rate * $2 * 0.5 / 10^dec  vs  B * $1 * 1.5 / 10^6
    let coll_value = q_int(coll) * rate.clone() * q_int(2) / pow10(cfg.decimals as u32);
    let max_borrow = q_floor(&(coll_value.clone() * q_ratio(1, 2) / q_ratio(3, 2) * pow10(6)));
    let b_ok: u64 = (max_borrow.clone() / 2u32).try_into().unwrap();
    let b_bad: u64 = (max_borrow.clone() * 3u32 / 2u32).try_into().unwrap();
    let o = run!(w,one(w.ix_borrow(acct, u0.auth, ORD, u0.tokens[ORD], b_bad.max(1))));
    t.step("user0 borrows 150% of what the collateral supports", &o, false);
    let o = run!(w,one(w.ix_borrow(acct, u0.auth, ORD, u0.tokens[ORD], b_ok.max(1))));
    t.step("user0 borrows 50% of what the collateral supports", &o, true);
    // frontier of borrowing (bisection on clones): the largest extra borrow the program accepts
    {
        let (mut lo, mut hi) = (0u64, b_bad);
        while hi - lo > 1 {
            let mid = lo + (hi - lo) / 2;
            let mut c = w.clone();
            let ix = c.ix_borrow(acct, u0.auth, ORD, u0.tokens[ORD], mid);
            if run!(c,one(ix)).ok {
                lo = mid;
            } else {
                hi = mid;
            }
        }
        let total = q_int(b_ok.max(1)) + q_int(lo);
        let exact_max = coll_value.clone() * q_ratio(1, 2) / q_ratio(3, 2) * pow10(6);
        t.check(
            "borrow frontier does not exceed the exact collateral value",
            total <= exact_max.clone() + q_int(1),
            format!("frontier {} vs exact max {} (ratio {:.9})", q_str(&total), q_str(&exact_max), q_f64(&(total.clone() / exact_max.clone()))),
        );
        t.check("borrow frontier within 1e-5 of the exact value", total >= exact_max * q_ratio(99_999, 100_000), String::new());
    }

    // ---- 4./5. withdraw
    let w10 = coll / 10;
    let (tu, tv) = (w.tok(&u0.tokens[VEN]), w.tok(&v.liquidity_supply));
    let rate = rate_q(&w, VEN);
    let o = run!(w,one(vk::ix_withdraw(&w, 0, &acct, VEN, w10, false, u0.auth, u0.tokens[VEN])));
    t.step("user0 kamino_withdraw 10% of the collateral", &o, true);
    let got = w.tok(&u0.tokens[VEN]) - tu;
    t.check("vault paid what the user received", tv - w.tok(&v.liquidity_supply) == got, format!("received {}", got));
    t.check("withdrawal not rounded in the user's favour", q_int(got) <= q_int(w10) * rate.clone(), format!("exact worth {}", q_str(&(q_int(w10) * rate.clone()))));
    t.check("withdrawal rounding loss below 2 units", q_int(w10) * rate.clone() - q_int(got) < q_int(2), String::new());
    t.check("position reduced by the collateral amount", position(&w, &acct, VEN) == Some(q_int(coll - w10)), String::new());
    let o = run!(w,one(vk::ix_withdraw(&w, 0, &acct, VEN, coll / 10 * 6, false, u0.auth, u0.tokens[VEN])));
    t.step("user0 kamino_withdraw 60% (health would go negative)", &o, false);
    // frontier of withdrawing: the largest withdrawal accepted leaves the account initially healthy (exact arithmetic)
    {
        let held = coll - w10;
        let (mut lo, mut hi) = (0u64, coll / 10 * 6);
        while hi - lo > 1 {
            let mid = lo + (hi - lo) / 2;
            let mut c = w.clone();
            let ix = vk::ix_withdraw(&c, 0, &acct, VEN, mid, false, u0.auth, u0.tokens[VEN]);
            if run!(c,one(ix)).ok {
                lo = mid;
            } else {
                hi = mid;
            }
        }
        let mut c = w.clone();
        let ix = vk::ix_withdraw(&c, 0, &acct, VEN, lo, false, u0.auth, u0.tokens[VEN]);
        let ok = run!(c,one(ix)).ok;
        let left = q_int(held - lo);
        let assets = left * rate_q(&c, VEN) * q_int(2) / pow10(cfg.decimals as u32) * q_ratio(1, 2);
        let liabs = liability(&c, &acct, ORD) / pow10(6) * q_ratio(3, 2);
        t.check(
            "largest accepted withdrawal leaves initial health >= 0",
            ok && assets >= liabs,
            format!("frontier {} of {} held; weighted assets {} liabilities {}", lo, held, q_str(&assets), q_str(&liabs)),
        );
        t.check("withdraw frontier is tight (health/liabs < 1e-5)", (assets.clone() - liabs.clone()) / liabs.clone() < q_ratio(1, 100_000), format!("slack {:.3e}", q_f64(&((assets - liabs.clone()) / liabs))));
    }

    // ---- 6. strangers
    let sta = kp("stranger_ta", 0);
    let a = w.make_token_acct(&w.banks[VEN].clone(), w.roles.stranger, 0);
    w.vm.set(sta, a);
    let o = run!(w,one(vk::ix_withdraw(&w, 0, &acct, VEN, 1000, false, w.roles.stranger, sta)));
    t.step("stranger kamino_withdraw from user0's account", &o, false);
    let o = run!(w,one(vk::ix_withdraw(&w, 1, &acct, VEN, 1000, false, u1.auth, u1.tokens[VEN])));
    t.step("another user kamino_withdraw from user0's account", &o, false);
    let o = run!(w,one(vk::ix_deposit_with(&w, &acct, w.roles.stranger, sta, VEN, 1000)));
    t.step("stranger kamino_deposit into user0's account", &o, false);
    {
        // the venue itself refuses a direct call that is not signed by the obligation owner
        let ix = vk::ix_withdraw(&w, 0, &acct, VEN, 1000, false, u0.auth, u0.tokens[VEN]);
        // rebuild the venue-level instruction by hand: same accounts as marginfi passes, signer = stranger
        let pid = vk::program_id();
        use solana_program::instruction::AccountMeta as M;
        let accs = vec![
            M::new(w.roles.stranger, true),
            M::new(v.obligation, false),
            M::new_readonly(v.lending_market, false),
            M::new_readonly(v.lending_market_authority, false),
            M::new(v.reserve, false),
            M::new_readonly(v.liquidity_mint, false),
            M::new(v.collateral_supply, false),
            M::new(v.collateral_mint, false),
            M::new(v.liquidity_supply, false),
            M::new(sta, false),
            M::new_readonly(pid, false),
            M::new_readonly(spl_token::ID, false),
            M::new_readonly(v.liquidity_token_program, false),
            M::new_readonly(solana_program::sysvar::instructions::ID, false),
            M::new_readonly(pid, false),
            M::new_readonly(pid, false),
            M::new_readonly(vk::farms_program_id(), false),
        ];
        let mut data = [235u8, 52, 119, 152, 149, 197, 20, 7].to_vec();
        data.extend_from_slice(&1000u64.to_le_bytes());
        let direct = Instruction { program_id: pid, accounts: accs, data };
        let o = run!(w,one(direct));
        t.step("stranger calls the venue's withdraw directly", &o, false);
        let _ = ix;
        // a look-alike reserve that the venue program does not own
        let fake = kp("fake_reserve", 0);
        let mut a = w.vm.get(&v.reserve).unwrap().clone();
        a.owner = spl_token::ID;
        w.vm.set(fake, a);
        let ix = Instruction { program_id: pid, accounts: vec![M::new(fake, false), M::new_readonly(v.lending_market, false)], data: vec![2, 218, 138, 235, 79, 201, 25, 102] };
        let o = w.vm.exec_tx(&one(ix));
        t.step("venue refresh_reserve on a reserve it does not own", &o, false);
        let ix = Instruction { program_id: pid, accounts: vec![M::new(v.reserve, false), M::new_readonly(v.lending_market, false)], data: vec![9, 9, 9, 9, 9, 9, 9, 9, 1] };
        let o = w.vm.exec_tx(&one(ix));
        t.step("venue: unknown instruction data is accepted (no-op)", &o, true);
        let ix = Instruction { program_id: pid, accounts: vec![], data: vec![2, 218, 138, 235, 79, 201, 25, 102, 0, 0, 0, 0, 0, 0, 0, 0] };
        let o = w.vm.exec_tx(&one(ix));
        t.step("venue: refresh_reserve without any account is a no-op (bracket-shape checks)", &o, true);
    }

    // ---- caps (the deposit limit of a venue bank counts COLLATERAL units)
    {
        let b = w.bank(VEN);
        let total: u64 = q_floor(&(q_w(b.total_asset_shares) * q_w(b.asset_share_value))).try_into().unwrap();
        let o = w.vm.exec_tx(&one(w.ix_configure_limits_only(VEN, Some(total + 1000), None, None, w.roles.limit)));
        t.step("limit admin caps deposits at current total + 1000", &o, true);
        let o = run!(w, one(vk::ix_deposit(&w, 0, &acct, VEN, 2000)));
        t.step("  capped: deposit worth 1825 collateral units", &o, false);
        let o = run!(w, one(vk::ix_deposit(&w, 0, &acct, VEN, 1000)));
        t.step("  capped: deposit worth 912 collateral units", &o, true);
        let o = w.vm.exec_tx(&one(w.ix_configure_limits_only(VEN, Some(u64::MAX), None, None, w.roles.limit)));
        t.step("limit admin lifts the cap", &o, true);
    }

    // ---- venue-side shortfalls (doctored clones): the venue refuses, marginfi passes the refusal on
    {
        let mut c = w.clone();
        let off = 8 + std::mem::offset_of!(kamino_mocks::state::MinimalObligation, deposits) + 32; // deposits[0].deposited_amount
        c.vm.modify(&v.obligation, |a| a.data[off..off + 8].copy_from_slice(&5u64.to_le_bytes()));
        let o = run!(c, one(vk::ix_withdraw(&c, 0, &acct, VEN, 1000, false, u0.auth, u0.tokens[VEN])));
        t.step("venue obligation holds less collateral than marginfi books", &o, false);
        let mut c = w.clone();
        c.vm.modify(&v.reserve, |a| {
            // almost everything is lent out: available -> borrowed (same total, same exchange rate)
            let avail = u64::from_le_bytes(a.data[vk::R_AVAILABLE..vk::R_AVAILABLE + 8].try_into().unwrap());
            let b = u128::from_le_bytes(a.data[vk::R_BORROWED_SF..vk::R_BORROWED_SF + 16].try_into().unwrap());
            a.data[vk::R_AVAILABLE..vk::R_AVAILABLE + 8].copy_from_slice(&100u64.to_le_bytes());
            a.data[vk::R_BORROWED_SF..vk::R_BORROWED_SF + 16].copy_from_slice(&(b + (((avail - 100) as u128) << 60)).to_le_bytes());
        });
        let o = run!(c, one(vk::ix_withdraw(&c, 0, &acct, VEN, 1000, false, u0.auth, u0.tokens[VEN])));
        t.step("venue reserve has no free liquidity (all lent out)", &o, false);
        // killed bank (state doctored in the store: a venue bank cannot reach it through instructions)
        let mut c = w.clone();
        let mut b = c.bank(VEN);
        b.config.operational_state = BankOperationalState::KilledByBankruptcy;
        let key = c.banks[VEN].key;
        c.vm.modify(&key, |a| a.data[8..].copy_from_slice(bytemuck::bytes_of(&b)));
        let o = run!(c, one(vk::ix_deposit(&c, 0, &acct, VEN, 1000)));
        t.step("killed bank (doctored): kamino_deposit", &o, false);
        let o = run!(c, one(vk::ix_withdraw(&c, 2, &u2.accts[0], VEN, 1000, false, u2.auth, u2.tokens[VEN])));
        t.step("killed bank (doctored): kamino_withdraw (debt-free user2)", &o, false);
    }

    // ---- 7. paused bank
    let o = set_state(&mut w, VEN, BankOperationalState::Paused);
    t.step("admin pauses the venue bank", &o, true);
    let o = run!(w,one(vk::ix_deposit(&w, 0, &acct, VEN, 1000)));
    t.step("  paused: kamino_deposit", &o, false);
    let o = run!(w,one(vk::ix_withdraw(&w, 0, &acct, VEN, 1000, false, u0.auth, u0.tokens[VEN])));
    t.step("  paused: kamino_withdraw", &o, false);
    // ---- 8. reduce-only
    let o = set_state(&mut w, VEN, BankOperationalState::ReduceOnly);
    t.step("admin sets the venue bank reduce-only", &o, true);
    let o = run!(w,one(vk::ix_deposit(&w, 0, &acct, VEN, 1000)));
    t.step("  reduce-only: kamino_deposit", &o, false);
    let o = run!(w,one(vk::ix_withdraw(&w, 2, &u2.accts[0], VEN, 1000, false, u2.auth, u2.tokens[VEN])));
    t.step("  reduce-only: kamino_withdraw (user2, no debt)", &o, true);
    let o = run!(w,one(vk::ix_withdraw(&w, 0, &acct, VEN, 1000, false, u0.auth, u0.tokens[VEN])));
    t.step("  reduce-only: kamino_withdraw (user0 has debt; reduce-only collateral counts 0 at init, as for ordinary banks)", &o, false);
    let o = set_state(&mut w, VEN, BankOperationalState::Operational);
    t.step("admin sets the venue bank operational", &o, true);
    // ---- 9. protocol pause
    let o = w.vm.exec_tx(&[w.ix_panic_pause(w.roles.fee_admin), w.ix_propagate_fee_state()]);
    t.step("panic_pause + propagate_fee_state", &o, true);
    let o = run!(w,one(vk::ix_deposit(&w, 0, &acct, VEN, 1000)));
    t.step("  protocol paused: kamino_deposit", &o, false);
    let o = run!(w,one(vk::ix_withdraw(&w, 0, &acct, VEN, 1000, false, u0.auth, u0.tokens[VEN])));
    t.step("  protocol paused: kamino_withdraw", &o, false);
    let o = w.vm.exec_tx(&[w.ix_panic_unpause(w.roles.fee_admin), w.ix_propagate_fee_state()]);
    t.step("panic_unpause + propagate_fee_state", &o, true);
    let o = run!(w,one(vk::ix_deposit(&w, 0, &acct, VEN, 1000)));
    t.step("  unpaused: kamino_deposit", &o, true);

    // ---- 10. staleness
    w.vm.advance(5);
    w.refresh_oracles();
    let o = w.vm.exec_tx(&one(w.ix_borrow(acct, u0.auth, ORD, u0.tokens[ORD], 1)));
    t.step("stale reserve (clock +5 s, price feeds fresh): borrow 1 unit", &o, false);
    let o = w.vm.exec_tx(&one(vk::ix_withdraw(&w, 0, &acct, VEN, 1000, false, u0.auth, u0.tokens[VEN])));
    t.step("stale reserve: kamino_withdraw without refresh", &o, false);
    let o = w.vm.exec_tx(&one(vk::ix_deposit(&w, 0, &acct, VEN, 1000)));
    t.step("stale reserve: kamino_deposit without refresh", &o, false);
    {
        // lenient venue (does not insist on refresh itself): what does marginfi alone do with the stale reserve?
        let mut c = w.clone();
        c.vm.modify(&v.lending_market, |a| a.data[vk::MARKET_CFG_OFF] |= vk::CFG_LENIENT_REFRESH);
        let o = c.vm.exec_tx(&one(vk::ix_deposit(&c, 0, &acct, VEN, 1000)));
        t.note(format!("lenient venue, stale reserve: kamino_deposit -> {} (marginfi does not check freshness on deposit; the position delta is measured, not priced)", code_str(&o)));
        let o = c.vm.exec_tx(&one(vk::ix_withdraw(&c, 0, &acct, VEN, 1000, false, u0.auth, u0.tokens[VEN])));
        t.step("lenient venue, stale reserve: kamino_withdraw (risk check)", &o, false);
        let o = c.vm.exec_tx(&one(c.ix_pulse_health(acct)));
        t.note(format!("lenient venue, stale reserve: pulse_health -> {}", code_str(&o)));
    }
    {
        let mut c = w.clone();
        vk::refresh_direct(&mut c, VEN);
        let o = c.vm.exec_tx(&one(c.ix_borrow(acct, u0.auth, ORD, u0.tokens[ORD], 1)));
        t.step("refresh_direct, then borrow 1 unit", &o, true);
    }
    let o = run!(w,one(w.ix_borrow(acct, u0.auth, ORD, u0.tokens[ORD], 1)));
    t.step("refresh instructions on top, then borrow 1 unit", &o, true);

    // ---- 11. interest knob
    let r0 = rate_q(&w, VEN);
    vk::accrue(&mut w.vm, &v, 50_000);
    let r1 = rate_q(&w, VEN);
    t.check("accrue raises the exchange rate", r1 > r0, format!("{:.9} -> {:.9}", q_f64(&r0), q_f64(&r1)));
    let tu = w.tok(&u0.tokens[VEN]);
    let o = run!(w,one(vk::ix_withdraw(&w, 0, &acct, VEN, 100_000, false, u0.auth, u0.tokens[VEN])));
    t.step("kamino_withdraw 100000 collateral after accrual", &o, true);
    let got = w.tok(&u0.tokens[VEN]) - tu;
    t.check("paid at the new rate, not in the user's favour", q_int(got) <= q_int(100_000) * r1.clone() && q_int(got) > q_int(100_000) * r0.clone() - q_int(1), format!("received {} (old rate {:.2}, new rate {:.2})", got, q_f64(&(q_int(100_000) * r0)), q_f64(&(q_int(100_000) * r1.clone()))));

    // ---- 12. receivership bracket
    let risk = w.risk_metas(&acct, None, None);
    let liab = liability(&w, &acct, ORD);
    let ra: u64 = q_floor(&(liab.clone() / q_int(4))).try_into().unwrap();
    let bracket = |w: &World, wa: u64| -> Vec<Instruction> {
        vec![
            w.ix_start_liquidation(acct, u2.auth),
            vk::ix_withdraw_with(w, &acct, VEN, wa, false, u2.auth, u2.tokens[VEN], risk.clone()),
            w.ix_repay(acct, u2.auth, ORD, u2.tokens[ORD], ra, None),
            w.ix_end_liquidation(acct, u2.auth, risk.clone()),
        ]
    };
    let o = w.vm.exec_tx(&one(w.ix_init_liq_record(acct, u2.auth)));
    t.step("init liquidation record", &o, true);
    // seize collateral worth 102% of the repayment at the CRASHED price ($0.40)
    let price_new = q_ratio(4, 10);
    let wa_q = q_int(ra) / pow10(6) * q_ratio(102, 100) / (r1.clone() * price_new.clone()) * pow10(cfg.decimals as u32);
    let wa: u64 = q_floor(&wa_q).try_into().unwrap();
    let o = run!(w,bracket(&w, wa.max(1)));
    t.step("receivership bracket on the HEALTHY account", &o, false);
    let o = w.set_price(VEN, 400_000, 0, 400_000, 0);
    t.check("price of the venue asset crashes to $0.40", o.is_ok(), String::new());
    let (tu2v, tu2o, pos_before) = (w.tok(&u2.tokens[VEN]), w.tok(&u2.tokens[ORD]), position(&w, &acct, VEN).unwrap());
    let o = run!(w,bracket(&w, wa.saturating_mul(3)));
    t.step("receivership bracket seizing 3x the repayment", &o, false);
    {
        let mut c = w.clone();
        let mut ixs = bracket(&c, wa.max(1));
        // a third party (not the receiver) signs the withdraw inside the bracket
        ixs[1] = vk::ix_withdraw_with(&c, &acct, VEN, wa.max(1), false, u1.auth, u1.tokens[VEN], risk.clone());
        let o = run!(c,ixs);
        t.step("receivership bracket, withdraw signed by a third party (any signer passes in receivership, as in lending_account_withdraw)", &o, true);
    }
    let rate_b = rate_q(&w, VEN);
    let o = run!(w,bracket(&w, wa.max(1)));
    t.step("receivership bracket [start, kamino_withdraw, repay, end]", &o, true);
    if o.ok {
        let got = w.tok(&u2.tokens[VEN]) - tu2v;
        t.check("liquidator repaid the liability amount", tu2o - w.tok(&u2.tokens[ORD]) == ra, format!("repaid {}", ra));
        t.check("liquidator received the collateral's underlying, rounded down", q_int(got) <= q_int(wa) * rate_b.clone() && q_int(got) + q_int(2) > q_int(wa) * rate_b.clone(), format!("received {} for {} collateral (exact worth {})", got, wa, q_str(&(q_int(wa) * rate_b.clone()))));
        t.check("liquidatee's position reduced by the seized collateral", position(&w, &acct, VEN) == Some(pos_before - q_int(wa)), String::new());
        let a = w.macct(&acct);
        t.check("receivership flag cleared", a.account_flags & marginfi_type_crate::types::ACCOUNT_IN_RECEIVERSHIP == 0, String::new());
    }
    let o = w.set_price(VEN, 2_000_000, 0, 2_000_000, 0);
    t.check("price restored", o.is_ok(), String::new());

    // ---- 13. close out
    let o = run!(w,one(w.ix_repay(acct, u0.auth, ORD, u0.tokens[ORD], 0, Some(true))));
    t.step("user0 repays everything", &o, true);
    let held = position(&w, &acct, VEN).unwrap_or(q_zero());
    let tu = w.tok(&u0.tokens[VEN]);
    let rate = rate_q(&w, VEN);
    let o = run!(w,one(vk::ix_withdraw(&w, 0, &acct, VEN, 0, true, u0.auth, u0.tokens[VEN])));
    t.step("user0 kamino_withdraw withdraw_all", &o, true);
    let got = w.tok(&u0.tokens[VEN]) - tu;
    t.check("position closed", position(&w, &acct, VEN).is_none(), String::new());
    t.check("underlying returned, rounded down", q_int(got) <= held.clone() * rate.clone() && q_int(got) + q_int(2) > held.clone() * rate.clone(), format!("held {} collateral, received {}", q_str(&held), got));
    let others = w.users.iter().map(|u| position(&w, &u.accts[0], VEN).unwrap_or(q_zero())).fold(q_zero(), |a, b| a + b);
    t.check(
        "obligation collateral == init deposit + all marginfi positions",
        q_int(vk::obligation_collateral(&w, VEN)) == q_int(init_coll) + others.clone() && q_w(w.bank(VEN).total_asset_shares) == others,
        format!("{} = {} + {}", vk::obligation_collateral(&w, VEN), init_coll, q_str(&others)),
    );
    t.check("venue vault == reserve.available_amount", w.tok(&v.liquidity_supply) == vk::read_reserve(&w.vm, &v.reserve).unwrap().available_amount, String::new());
    let cm = spl_token::state::Mint::unpack_from_slice(w.vm.data(&v.collateral_mint)).unwrap();
    t.check("collateral mint supply == reserve.mint_total_supply == collateral vault", cm.supply == vk::read_reserve(&w.vm, &v.reserve).unwrap().mint_total_supply && w.tok(&v.collateral_supply) == cm.supply, String::new());
    t.check("token conservation (users + venue vault + marginfi vaults)", token_total(&w, VEN, &[sta]) == total0, format!("{} vs {}", token_total(&w, VEN, &[sta]), total0));
    (t.surprises, t.steps)
}

use solana_program::program_pack::Pack;

/// informational probes: exact-math venue vs marginfi's I80F48 expectation; transfer-fee mints
fn probes() -> u32 {
    let mut surprises = 0;
    for (decimals, exact) in [(6u8, false), (6, true), (9, false), (9, true)] {
        let cfg = Cfg { token: 0, decimals, seed: 0, oracle_kind: 1 };
        let mut venue = vk::VenueSpec::default();
        venue.exact_math = exact;
        venue.other_available = 5_123_456_789_123;
        venue.other_borrowed = 3_333_333_333_337;
        let mut w = match build(&cfg, &venue) {
            Ok(w) => w,
            Err(e) => {
                out(&format!("[probe dec{decimals}] build failed: {e} SURPRISE"));
                surprises += 1;
                continue;
            }
        };
        let vb = vk::venue_bank(&w, VEN);
        vk::accrue(&mut w.vm, &vb, 123_457); // ragged fractional bits in borrowed_amount_sf
        let w = w;
        let u0 = w.users[0].clone();
        let acct = u0.accts[0];
        if !exact {
            // pure comparison of marginfi's I80F48 expectation with the exact floor, log-uniform amounts
            let r = vk::read_reserve(&w.vm, &vb.reserve).unwrap();
            let rate = rate_q(&w, VEN);
            let (mut n, mut differ, mut maxd, mut fail) = (0u32, 0u32, BigInt::from(0), 0u32);
            let mut x = 0x1234_5678u64 + decimals as u64;
            for _ in 0..20_000 {
                x = splitmix(x);
                let bits = 1 + (x % 56) as u32;
                let amount = (splitmix(x ^ 0xabc) >> (64 - bits)).max(1);
                n += 1;
                for dir in 0..2 {
                    let (exact_v, mock_v) = if dir == 0 {
                        (q_floor(&(q_int(amount) / rate.clone())), r.liquidity_to_collateral(amount).ok())
                    } else {
                        (q_floor(&(q_int(amount) * rate.clone())), r.collateral_to_liquidity(amount).ok())
                    };
                    match mock_v {
                        None => fail += 1,
                        Some(m) => {
                            let d = (BigInt::from(m) - exact_v).magnitude().clone();
                            let d = BigInt::from(d);
                            if d != BigInt::from(0) {
                                differ += 1;
                            }
                            if d > maxd {
                                maxd = d;
                            }
                        }
                    }
                }
            }
            out(&format!(
                "[probe dec{decimals}] marginfi's I80F48 conversion vs exact floor over {} amounts x 2 directions (1 .. 2^56 units): {} differ, max |diff| {} units, {} conversions fail (MathError overflow)",
                n, differ, maxd, fail
            ));
        }
        let mut line = format!("[probe dec{decimals} venue math {}] kamino_deposit then kamino_withdraw of what was credited:", if exact { "EXACT floor" } else { "as mocks crate" });
        for amount in [1u64, 2, 7, 1_000, 1_000_001, 1_000_000_007, 1_000_000_000_011, 1_000_000_000_000_013, 100_000_000_000_000_017] {
            let mut c = w.clone();
            let r = vk::read_reserve(&c.vm, &vk::venue_bank(&c, VEN).reserve).unwrap();
            let rate = rate_q(&c, VEN);
            let exact_c = q_floor(&(q_int(amount) / rate.clone()));
            let mock_c = r.liquidity_to_collateral(amount).map(|x| BigInt::from(x)).unwrap_or(BigInt::from(-1));
            let o = run!(c,one(vk::ix_deposit(&c, 0, &acct, VEN, amount)));
            let mut s = format!(" {}: dep {} (exact {} mock {})", amount, code_str(&o), exact_c, mock_c);
            if o.ok {
                let held = vk::obligation_collateral(&c, VEN) - vk::obligation_collateral(&w, VEN);
                let o2 = run!(c,one(vk::ix_withdraw(&c, 0, &acct, VEN, held, false, u0.auth, u0.tokens[VEN])));
                s.push_str(&format!(" wd {}", code_str(&o2)));
            }
            line.push_str(&s);
            line.push(';');
        }
        out(&line);
    }
    // transfer-fee mint: marginfi moves `amount` to its intermediary vault (which receives amount - fee) and then asks
    // the venue to take `amount` from it
    let cfg = Cfg { token: 2, decimals: 6, seed: 0, oracle_kind: 1 };
    match build(&cfg, &vk::VenueSpec::default()) {
        Ok(_) => out("[tok2 transfer-fee] add_bank + kamino_init_obligation accepted a transfer-fee mint (note)"),
        Err(e) => out(&format!("[tok2 transfer-fee] world not buildable (expected: marginfi's intermediary vault receives amount - fee): {e}")),
    }
    surprises
}

fn timing() {
    let cfg = Cfg { token: 0, decimals: 6, seed: 1, oracle_kind: 1 };
    let mut w = build(&cfg, &vk::VenueSpec::default()).unwrap();
    let u0 = w.users[0].clone();
    let acct = u0.accts[0];
    let n = 2000u32;
    let t0 = std::time::Instant::now();
    let w0 = build(&cfg, &vk::VenueSpec::default()).unwrap();
    let tb = t0.elapsed();
    drop(w0);
    let t0 = std::time::Instant::now();
    for i in 0..n {
        let o = run!(w,one(vk::ix_deposit(&w, 0, &acct, VEN, 1_000_000 + i as u64)));
        assert!(o.ok);
    }
    let td = t0.elapsed();
    let t0 = std::time::Instant::now();
    for i in 0..n {
        let o = run!(w,one(vk::ix_withdraw(&w, 0, &acct, VEN, 500_000 + i as u64, false, u0.auth, u0.tokens[VEN])));
        assert!(o.ok);
    }
    let tw = t0.elapsed();
    let t0 = std::time::Instant::now();
    for _ in 0..n {
        let ixs = vk::refresh_ixs(&w, VEN);
        assert!(w.vm.exec_tx(&ixs).ok);
    }
    let tr = t0.elapsed();
    let per = |d: std::time::Duration, k: u32| d.as_secs_f64() * 1e6 / (n as f64 * k as f64);
    out(&format!(
        "[timing] world build incl. kamino bank {:.2} ms; tx [refresh_reserve, refresh_obligation, kamino_deposit] {:.1} us ({:.1} us/ix); tx [.., kamino_withdraw + risk check] {:.1} us ({:.1} us/ix); tx [refresh_reserve, refresh_obligation] {:.1} us ({:.1} us/ix); kamino_deposit alone ~{:.1} us, kamino_withdraw alone ~{:.1} us",
        tb.as_secs_f64() * 1e3,
        per(td, 1),
        per(td, 3),
        per(tw, 1),
        per(tw, 3),
        per(tr, 1),
        per(tr, 2),
        per(td, 1) - per(tr, 1),
        per(tw, 1) - per(tr, 1),
    ));
}

fn main() {
    silence_program_stdout();
    std::panic::set_hook(Box::new(|_| {}));
    vk::check_layout();
    let mut surprises = 0;
    let mut steps = 0;
    for token in [0u8, 1] {
        for decimals in [6u8, 9] {
            for seed in [1u64, 2, 3] {
                let cfg = Cfg { token, decimals, seed, oracle_kind: if seed == 2 { 2 } else { 1 } };
                let (s, n) = scenario(cfg);
                surprises += s;
                steps += n;
            }
        }
    }
    surprises += probes();
    timing();
    out(&format!("venue_kamino_smoke: {} steps/checks, {} surprises", steps, surprises));
    if surprises != 0 {
        std::process::exit(1);
    }
}
