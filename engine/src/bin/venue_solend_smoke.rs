//! Smoke test of the fake SOLEND venue: everything goes through `marginfi::entry`.
use fixed::types::I80F48;
use marginfi_type_crate::types::{BankConfigOpt, BankOperationalState};
use mfv::common::*;
use mfv::svm::{err_code, TxOutcome};
use mfv::venue_solend as vs;
use mfv::world::*;
use num_bigint::BigInt;
use num_traits::ToPrimitive;
use solana_program::{instruction::Instruction, program_error::ProgramError, pubkey::Pubkey};

#[derive(Clone, Copy, PartialEq, Debug)]
enum Expect {
    Ok,
    Refused,
    Any,
}

struct Run {
    tag: String,
    surprises: u32,
    rounding_notes: u32,
    steps: u32,
}

fn code_str(e: &ProgramError) -> String {
    let c = err_code(e);
    if vs::is_venue_error(c) {
        format!("venue:{}", c - vs::ERR_BASE as u64)
    } else if c == mfv::svm::PANIC_CODE as u64 {
        format!("PANIC {:?}", mfv::svm::last_panic())
    } else if (6000..7000).contains(&c) {
        // `MarginfiError::from(u32)` does not know every code (e.g. 6103 AccountFrozen): print the name only if it round-trips
        let m = marginfi::errors::MarginfiError::from(c as u32);
        if m as u32 as u64 + 6000 == c {
            format!("{c} {:?}", m)
        } else {
            format!("{c}")
        }
    } else {
        format!("{c}")
    }
}

impl Run {
    fn line(&mut self, name: &str, expect: Expect, r: &TxOutcome) -> bool {
        self.steps += 1;
        let got = match &r.err {
            None => "OK".to_string(),
            Some((i, e)) => format!("REFUSED({} @ix{})", code_str(e), i),
        };
        let fine = match expect {
            Expect::Ok => r.ok,
            Expect::Refused => !r.ok,
            Expect::Any => true,
        };
        let note = if expect == Expect::Any { " [info]" } else { "" };
        if fine {
            out(&format!("[{}] {:<58} {}{}", self.tag, name, got, note));
        } else {
            self.surprises += 1;
            out(&format!("[{}] {:<58} {}   <-- SURPRISE (expected {:?})", self.tag, name, got, expect));
        }
        r.ok
    }
    fn check(&mut self, name: &str, cond: bool, detail: String) {
        self.steps += 1;
        if cond {
            out(&format!("[{}]   check {:<50} ok   {}", self.tag, name, detail));
        } else {
            self.surprises += 1;
            out(&format!("[{}]   check {:<50} FAILED {}   <-- SURPRISE", self.tag, name, detail));
        }
    }
    /// a rounding statement: a surprise with the exact (Wad) venue arithmetic, a note with the mocks' conversion
    fn rounding(&mut self, name: &str, cond: bool, detail: String) {
        if cond || vs::math_mode() == vs::MathMode::Wad {
            self.check(name, cond, detail);
        } else {
            self.rounding_notes += 1;
            out(&format!("[{}]   note  {:<50} violated by the mocks-crate conversion the venue uses: {}", self.tag, name, detail));
        }
    }
}

fn tx(w: &mut World, ixs: Vec<Instruction>) -> TxOutcome {
    w.vm.exec_tx(&ixs)
}
fn one(w: &mut World, ix: Instruction) -> TxOutcome {
    w.vm.exec_tx(&[ix])
}
/// [venue refresh, ix]
fn fresh(w: &mut World, bank: usize, ix: Instruction) -> TxOutcome {
    let mut v = vs::refresh_ixs(w, bank);
    v.push(ix);
    w.vm.exec_tx(&v)
}

struct Rng(u64);
impl Rng {
    fn next(&mut self) -> u64 {
        self.0 = self.0.wrapping_add(0x9E37_79B9_7F4A_7C15);
        let mut z = self.0;
        z = (z ^ (z >> 30)).wrapping_mul(0xBF58_476D_1CE4_E5B9);
        z = (z ^ (z >> 27)).wrapping_mul(0x94D0_49BB_1331_11EB);
        z ^ (z >> 31)
    }
    fn range(&mut self, lo: u64, hi: u64) -> u64 {
        lo + self.next() % (hi - lo)
    }
}

fn shares(w: &World, acct: &Pubkey, bank: &Pubkey) -> Option<u64> {
    let a = w.macct(acct);
    a.lending_account.balances.iter().find(|b| b.active != 0 && b.bank_pk == *bank).map(|b| I80F48::from(b.asset_shares).to_num::<u64>())
}

fn total_wads(v: &vs::ReserveView) -> BigInt {
    BigInt::from(v.available) * BigInt::from(vs::WAD) + BigInt::from(v.borrowed_wads) - BigInt::from(v.fees_wads)
}

fn set_state(w: &mut World, bi: usize, st: BankOperationalState) -> TxOutcome {
    let mut opt = BankConfigOpt::default();
    opt.operational_state = Some(st);
    let ix = w.ix_configure_bank(bi, opt, w.roles.admin);
    one(w, ix)
}

fn run_case(token: u8, decimals: u8, seed: u64, oracle_kind: u8, mode: vs::MathMode, timing: bool) -> Run {
    vs::set_math_mode(mode);
    let mut r = Run {
        tag: format!("{}/d{}/s{}/{}/{}", ["spl", "t22", "t22fee"][token as usize], decimals, seed, if oracle_kind == 1 { "pyth" } else { "swb" }, if mode == vs::MathMode::Mocks { "mocks" } else { "wad" }),
        surprises: 0,
        rounding_notes: 0,
        steps: 0,
    };
    let mut rng = Rng(seed.wrapping_mul(0x1234_5678_9ABC_DEF1) ^ (decimals as u64) << 8 ^ token as u64);
    let one_tok = 10u64.pow(decimals as u32);

    // ---- world: bank 0 ordinary (fixed price 1, 6 decimals), bank 1 SOLEND (price 2)
    let mut spec = WorldSpec::default();
    let mut b0 = BankSpec::default();
    b0.oracle = OracleSpec::fixed(1, 0);
    spec.banks = vec![b0];
    spec.n_users = 3;
    spec.user_tokens = 1 << 50;
    let mut w = match World::build(&spec) {
        Ok(w) => w,
        Err(e) => {
            out(&format!("[{}] world build failed: {e}", r.tag));
            r.surprises += 1;
            return r;
        }
    };
    let mut sb = BankSpec::default();
    sb.decimals = decimals;
    sb.token = token;
    if token == 2 {
        sb.fee_bps = 100;
        sb.fee_max = 1_000_000;
    }
    sb.aw_i = 500_000;
    sb.aw_m = 750_000;
    sb.oracle = if oracle_kind == 1 { OracleSpec::pyth(2_000_000, -6, 2000) } else { OracleSpec { kind: 2, mant: 2_000_000, expo: -6, conf: 2000, ema_mant: 2_000_000, ema_conf: 2000, max_age: 100, max_conf: 0 } };
    // third-party state of the reserve: rate between 1.0 and 1.6
    let supply = rng.range(500, 5000) * one_tok + rng.range(0, one_tok);
    let avail = supply / 2 + rng.range(0, supply / 2);
    let total_target = supply + rng.range(0, supply * 6 / 10);
    let rs = vs::ReserveSeed {
        available: avail,
        borrowed_wads: (total_target - avail) as u128 * vs::WAD + rng.range(0, 1_000_000_000) as u128,
        fees_wads: rng.range(0, one_tok) as u128 * vs::WAD / 7,
        ctoken_supply: supply,
        init_amount: rng.range(10, 1000),
    };
    let si = match vs::add_bank_with(&mut w, &sb, &rs) {
        Ok(i) => i,
        Err(e) => {
            if token == 2 {
                out(&format!("[{}] transfer-fee mint: add_bank refused: {e} (the transit vault receives amount - fee, the venue leg then lacks funds) [info]", r.tag));
                return r;
            }
            out(&format!("[{}] add_bank failed: {e} panic={:?}", r.tag, mfv::svm::last_panic()));
            r.surprises += 1;
            return r;
        }
    };
    let vb = vs::venue(&w, si);
    let (u0, u1, u2) = (w.users[0].clone(), w.users[1].clone(), w.users[2].clone());
    let (a0, a2) = (u0.accts[0], u2.accts[0]);
    let seed_col = vs::obligation_deposit(&w.vm, &vb.obligation, &vb.reserve);
    let (rn, rd) = vs::exact_rate(&w.vm, &w.banks[si]);
    let rate0 = rn.to_f64().unwrap() / rd.to_f64().unwrap();
    out(&format!("[{}] bank created: seed deposit {} underlying -> {} cTokens in the obligation; exact rate {:.9}", r.tag, rs.init_amount, seed_col, rate0));
    r.check("obligation seeded through solend_init_obligation", seed_col > 0, format!("{seed_col}"));
    {
        // independent reading of the raw account agrees with the mocks struct
        let d = w.vm.data(&vb.reserve);
        let m: solend_mocks::state::SolendMinimalReserve = bytemuck::pod_read_unaligned(&d[1..]);
        let v = vs::reserve_view(&w.vm, &vb.reserve);
        let (a, s) = (m.liquidity_available_amount, m.collateral_mint_total_supply);
        r.check("raw offsets agree with the mocks struct", a == v.available && s == v.ctoken_supply && u128::from_le_bytes(m.liquidity_borrowed_amount_wads) == v.borrowed_wads && u128::from_le_bytes(m.liquidity_accumulated_protocol_fees_wads) == v.fees_wads, String::new());
    }
    let conserved = |w: &World| -> u128 { [u0.tokens[si], u1.tokens[si], u2.tokens[si], vb.liquidity_supply].iter().map(|k| w.tok(k) as u128).sum() };
    let s_start = conserved(&w);
    let conservation = |r: &mut Run, w: &World, at: &str| {
        let s = conserved(w);
        let lv = w.tok(&vb.lv);
        r.check(&format!("conservation after {at}"), s == s_start && lv == 0, format!("users+vault={s} (start {s_start}) transit vault={lv}"));
    };

    // ---- user 1 funds the ordinary bank, user 2 (liquidator) too
    let ix = w.ix_deposit(u1.accts[0], u1.auth, 0, u1.tokens[0], 1_000_000_000_000, None);
    let o = one(&mut w, ix);
    r.line("user1 deposits 1e6 tokens into the ordinary bank", Expect::Ok, &o);
    let ix = w.ix_deposit(a2, u2.auth, 0, u2.tokens[0], 100_000_000_000, None);
    let o = one(&mut w, ix);
    r.line("user2 (liquidator) deposits into the ordinary bank", Expect::Ok, &o);

    // ---- deposit into the venue bank
    let d_amt = rng.range(10, 10_000) * one_tok + rng.range(0, one_tok);
    let pre = vs::reserve_view(&w.vm, &vb.reserve);
    let ix = vs::ix_deposit(&w, 0, &a0, si, d_amt);
    let o = one(&mut w, ix);
    let dep_ok = r.line(&format!("user0 solend_deposit {d_amt}"), if token == 2 { Expect::Refused } else { Expect::Ok }, &o);
    if token == 2 {
        out(&format!("[{}] transfer-fee mint: the venue leg cannot work (vault receives less than `amount`; unchecked Transfer needs the mint) — rest of the scenario skipped", r.tag));
        return r;
    }
    if !dep_ok {
        return r;
    }
    let c0 = shares(&w, &a0, &vb.bank).unwrap_or(0);
    let ob = vs::obligation_deposit(&w.vm, &vb.obligation, &vb.reserve);
    r.check("shares credited == obligation collateral delta", c0 == ob - seed_col && c0 > 0, format!("shares {c0} obligation {ob} seed {seed_col}"));
    // never in the user's favour: C <= D * supply / total
    r.rounding(
        "deposit: cTokens credited <= exact",
        BigInt::from(c0) * total_wads(&pre) <= BigInt::from(d_amt) * BigInt::from(pre.ctoken_supply) * BigInt::from(vs::WAD),
        format!("credited {c0} for {d_amt} at supply {} / total_wads {}", pre.ctoken_supply, total_wads(&pre)),
    );
    conservation(&mut r, &w, "deposit");
    let post = vs::reserve_view(&w.vm, &vb.reserve);
    r.check("venue marks the reserve stale (flag) after a deposit", post.stale && post.slot == w.vm.clock.slot, String::new());

    // ---- timing (on a clone)
    if timing {
        let mut t = w.clone();
        let n = 2000u64;
        let t0 = std::time::Instant::now();
        for i in 0..n {
            let ix = vs::ix_deposit(&t, 0, &a0, si, 1000 + i);
            t.vm.exec(&ix).unwrap();
        }
        let d_us = t0.elapsed().as_micros() as f64 / n as f64;
        let t0 = std::time::Instant::now();
        for i in 0..n {
            let ix = vs::ix_withdraw(&t, 0, &a0, si, 10 + i % 7, false, u0.auth, u0.tokens[si]);
            let mut v = vs::refresh_ixs(&t, si);
            v.push(ix);
            assert!(t.vm.exec_tx(&v).ok);
        }
        let w_us = t0.elapsed().as_micros() as f64 / n as f64;
        let t0 = std::time::Instant::now();
        for _ in 0..n {
            let v = vs::refresh_ixs(&t, si);
            t.vm.exec(&v[0]).unwrap();
        }
        let f_us = t0.elapsed().as_micros() as f64 / n as f64;
        let t0 = std::time::Instant::now();
        for _ in 0..200 {
            let mut t2 = World::build(&spec).unwrap();
            vs::add_bank_with(&mut t2, &sb, &rs).unwrap();
        }
        let b_us = t0.elapsed().as_micros() as f64 / 200.0;
        out(&format!("[{}] TIMING solend_deposit {:.1} us/ix | tx[refresh, solend_withdraw] {:.1} us/tx | venue refresh {:.1} us/ix | World::build + add_bank {:.0} us", r.tag, d_us, w_us, f_us, b_us));
    }

    // ---- a stranger cannot withdraw
    let stranger_ta = kp("stranger_ta", 0);
    let a = w.make_token_acct(&w.banks[si], w.roles.stranger, 0);
    w.vm.set(stranger_ta, a);
    let ix = vs::ix_withdraw(&w, 0, &a0, si, c0 / 10, false, w.roles.stranger, stranger_ta);
    let o = fresh(&mut w, si, ix);
    r.line("stranger solend_withdraw from user0's account", Expect::Refused, &o);
    // user 1 (another user) signing for user 0's account
    let ix = vs::ix_withdraw(&w, 1, &a0, si, c0 / 10, false, u1.auth, u1.tokens[si]);
    let o = fresh(&mut w, si, ix);
    r.line("user1 solend_withdraw from user0's account", Expect::Refused, &o);

    // ---- bank paused
    let o = set_state(&mut w, si, BankOperationalState::Paused);
    r.line("admin: configure_bank Paused", Expect::Ok, &o);
    let ix = vs::ix_deposit(&w, 0, &a0, si, one_tok);
    let o = fresh(&mut w, si, ix);
    r.line("  paused: solend_deposit", Expect::Refused, &o);
    let ix = vs::ix_withdraw(&w, 0, &a0, si, c0 / 20, false, u0.auth, u0.tokens[si]);
    let o = fresh(&mut w, si, ix);
    r.line("  paused: solend_withdraw", Expect::Refused, &o);
    // ---- reduce-only
    let o = set_state(&mut w, si, BankOperationalState::ReduceOnly);
    r.line("admin: configure_bank ReduceOnly", Expect::Ok, &o);
    let ix = vs::ix_deposit(&w, 0, &a0, si, one_tok);
    let o = fresh(&mut w, si, ix);
    r.line("  reduce-only: solend_deposit", Expect::Refused, &o);
    let c_ro = (c0 / 20).max(1);
    let pre = vs::reserve_view(&w.vm, &vb.reserve);
    let bal0 = w.tok(&u0.tokens[si]);
    let ix = vs::ix_withdraw(&w, 0, &a0, si, c_ro, false, u0.auth, u0.tokens[si]);
    let o = fresh(&mut w, si, ix);
    if r.line(&format!("  reduce-only: solend_withdraw {c_ro} cTokens"), Expect::Ok, &o) {
        let got = w.tok(&u0.tokens[si]) - bal0;
        r.rounding("withdraw: underlying received <= exact", BigInt::from(got) * BigInt::from(pre.ctoken_supply) * BigInt::from(vs::WAD) <= BigInt::from(c_ro) * total_wads(&pre), format!("received {got} for {c_ro} cTokens"));
        r.check("withdraw: underlying received >= exact - 2", (BigInt::from(got) + 2) * BigInt::from(pre.ctoken_supply) * BigInt::from(vs::WAD) >= BigInt::from(c_ro) * total_wads(&pre), format!("received {got}"));
    }
    conservation(&mut r, &w, "reduce-only withdraw");
    let o = set_state(&mut w, si, BankOperationalState::Operational);
    r.line("admin: configure_bank Operational", Expect::Ok, &o);

    // ---- protocol pause
    let ix = w.ix_panic_pause(w.roles.fee_admin);
    let o = one(&mut w, ix);
    r.line("fee admin: panic_pause", Expect::Ok, &o);
    let ix = w.ix_propagate_fee_state();
    let o = one(&mut w, ix);
    r.line("propagate_fee_state", Expect::Ok, &o);
    let ix = vs::ix_deposit(&w, 0, &a0, si, one_tok);
    let o = fresh(&mut w, si, ix);
    r.line("  protocol paused: solend_deposit", Expect::Refused, &o);
    let ix = vs::ix_withdraw(&w, 0, &a0, si, c0 / 20, false, u0.auth, u0.tokens[si]);
    let o = fresh(&mut w, si, ix);
    r.line("  protocol paused: solend_withdraw", Expect::Refused, &o);
    let ix = w.ix_panic_unpause(w.roles.fee_admin);
    let o = one(&mut w, ix);
    r.line("fee admin: panic_unpause", Expect::Ok, &o);
    let ix = w.ix_propagate_fee_state();
    let o = one(&mut w, ix);
    r.line("propagate_fee_state", Expect::Ok, &o);

    // ---- deposit cap (in cTokens)
    let tot = I80F48::from(w.bank(si).total_asset_shares).to_num::<u64>();
    let ix = w.ix_configure_limits_only(si, Some(tot + 1000), None, None, w.roles.limit);
    let o = one(&mut w, ix);
    r.line(&format!("limit admin: deposit_limit = {} (1000 cTokens of room)", tot + 1000), Expect::Ok, &o);
    let ix = vs::ix_deposit(&w, 0, &a0, si, 5000);
    let o = fresh(&mut w, si, ix);
    r.line("  capped: solend_deposit 5000 underlying (> room)", Expect::Refused, &o);
    let ix = vs::ix_deposit(&w, 0, &a0, si, 900);
    let o = fresh(&mut w, si, ix);
    r.line("  capped: solend_deposit 900 underlying (< room)", Expect::Ok, &o);
    let ix = w.ix_configure_limits_only(si, Some(u64::MAX), None, None, w.roles.limit);
    let o = one(&mut w, ix);
    r.line("limit admin: deposit_limit = unlimited", Expect::Ok, &o);
    conservation(&mut r, &w, "capped deposit");

    // ---- frozen account: the group admin acts instead of the authority
    {
        let mut wf = w.clone();
        let ix = wf.ix_set_freeze(a0, wf.roles.admin, true);
        let o = one(&mut wf, ix);
        r.line("(copy) admin freezes user0's account", Expect::Ok, &o);
        let ix = vs::ix_withdraw(&wf, 0, &a0, si, 100, false, u0.auth, u0.tokens[si]);
        let o = fresh(&mut wf, si, ix);
        r.line("  frozen: solend_withdraw by the authority", Expect::Refused, &o);
        let admin_ta = kp("solend_admin_ta", si as u64);
        let ix = vs::ix_withdraw(&wf, 0, &a0, si, 100, false, wf.roles.admin, admin_ta);
        let o = fresh(&mut wf, si, ix);
        r.line("  frozen: solend_withdraw by the group admin to the admin's own token account", Expect::Any, &o);
    }

    // ---- borrow against the venue collateral
    let c1 = shares(&w, &a0, &vb.bank).unwrap_or(0);
    let (rn, rd) = vs::exact_rate(&w.vm, &w.banks[si]);
    let rate = rn.to_f64().unwrap() / rd.to_f64().unwrap();
    // initial-margin value: cTokens * rate * (price - 2.12 conf) * 0.5 ; liability weight 1.5, price 1, 6 decimals
    let v_init = c1 as f64 / one_tok as f64 * rate * (2.0 - 2.12 * 0.002) * 0.5;
    let b_max = v_init / 1.5 * 1e6;
    let b_ok = (b_max * 0.5) as u64;
    let ix = w.ix_borrow(a0, u0.auth, 0, u0.tokens[0], b_ok);
    let o = fresh(&mut w, si, ix);
    r.line(&format!("user0 borrows {b_ok} (50% of capacity {:.0}) against {c1} cTokens", b_max), Expect::Ok, &o);
    let ix = w.ix_borrow(a0, u0.auth, 0, u0.tokens[0], (b_max * 0.52) as u64);
    let o = fresh(&mut w, si, ix);
    r.line("user0 borrows another 52% of capacity (total 102%)", Expect::Refused, &o);
    let ix = w.ix_borrow(a0, u0.auth, 0, u0.tokens[0], (b_max * 0.48) as u64);
    let o = fresh(&mut w, si, ix);
    r.line("user0 borrows another 48% of capacity (total 98%)", Expect::Ok, &o);
    let ix = w.ix_repay(a0, u0.auth, 0, u0.tokens[0], (b_max * 0.48) as u64, None);
    let o = one(&mut w, ix);
    r.line("user0 repays the 48%", Expect::Ok, &o);

    // ---- withdraw part / too much
    let c_part = c1 / 10;
    let pre = vs::reserve_view(&w.vm, &vb.reserve);
    let bal0 = w.tok(&u0.tokens[si]);
    let ix = vs::ix_withdraw(&w, 0, &a0, si, c_part, false, u0.auth, u0.tokens[si]);
    let o = fresh(&mut w, si, ix);
    if r.line(&format!("user0 solend_withdraw {c_part} cTokens (10%)"), Expect::Ok, &o) {
        let got = w.tok(&u0.tokens[si]) - bal0;
        r.rounding("withdraw: underlying received <= exact", BigInt::from(got) * BigInt::from(pre.ctoken_supply) * BigInt::from(vs::WAD) <= BigInt::from(c_part) * total_wads(&pre), format!("received {got} for {c_part} cTokens"));
    }
    conservation(&mut r, &w, "partial withdraw");
    let c2 = shares(&w, &a0, &vb.bank).unwrap_or(0);
    r.check("shares reduced by the withdrawn cTokens", c2 == c1 - c_part, format!("{c1} -> {c2}"));
    // 50% of the old capacity is borrowed; capacity is now 90%: withdrawing 46% of the rest leaves 48.6% < 50%
    let ix = vs::ix_withdraw(&w, 0, &a0, si, (c2 as f64 * 0.46) as u64, false, u0.auth, u0.tokens[si]);
    let o = fresh(&mut w, si, ix);
    r.line("user0 solend_withdraw that would leave health negative", Expect::Refused, &o);
    let ix = vs::ix_withdraw(&w, 0, &a0, si, (c2 as f64 * 0.42) as u64, false, u0.auth, u0.tokens[si]);
    let o = fresh(&mut w.clone(), si, ix);
    r.line("  (on a copy) the same leaving health just positive", Expect::Ok, &o);
    let ix = vs::ix_withdraw(&w, 0, &a0, si, c2 + 1, false, u0.auth, u0.tokens[si]);
    let o = fresh(&mut w, si, ix);
    r.line("user0 solend_withdraw more cTokens than held", Expect::Refused, &o);

    // ---- venue flag: marginfi deposit leaves the flag set; the venue refuses a withdraw until refreshed
    let ix = vs::ix_deposit(&w, 0, &a0, si, one_tok);
    let o = fresh(&mut w, si, ix);
    r.line("user0 solend_deposit 1 token (tx with refresh)", Expect::Ok, &o);
    let ix = vs::ix_withdraw(&w, 0, &a0, si, 5, false, u0.auth, u0.tokens[si]);
    let o = one(&mut w, ix);
    r.line("  same slot, no refresh: solend_withdraw (venue stale flag set)", Expect::Refused, &o);
    let ix = w.ix_borrow(a0, u0.auth, 0, u0.tokens[0], 1000);
    let o = one(&mut w, ix);
    r.line("  same slot, no refresh: borrow (marginfi ignores the flag)", Expect::Any, &o);
    conservation(&mut r, &w, "second deposit");

    // ---- stale venue account
    w.vm.advance(10);
    w.refresh_oracles();
    let small = (b_max * 0.01) as u64 + 1;
    let ix = w.ix_borrow(a0, u0.auth, 0, u0.tokens[0], small);
    let o = one(&mut w, ix);
    r.line("clock +10 s, feeds refreshed, reserve NOT refreshed: borrow", Expect::Refused, &o);
    let ix = vs::ix_deposit(&w, 0, &a0, si, one_tok);
    let o = one(&mut w, ix);
    r.line("  stale reserve: solend_deposit", Expect::Refused, &o);
    let ix = vs::ix_withdraw(&w, 0, &a0, si, 5, false, u0.auth, u0.tokens[si]);
    let o = one(&mut w, ix);
    r.line("  stale reserve: solend_withdraw", Expect::Refused, &o);
    {
        // an account with NO liabilities and a stale reserve: withdraw from the ordinary bank by user 0? (has none) — use pulse
        let ix = w.ix_pulse_health(a0);
        let o = one(&mut w, ix);
        r.line("  stale reserve: pulse_health", Expect::Any, &o);
        let hc = w.macct(&a0).health_cache;
        out(&format!("[{}]     health cache: assets {:.4} liabs {:.4} internal_err {} err_index {}", r.tag, I80F48::from(hc.asset_value).to_num::<f64>(), I80F48::from(hc.liability_value).to_num::<f64>(), hc.internal_err, hc.err_index));
    }
    let ix = w.ix_borrow(a0, u0.auth, 0, u0.tokens[0], small);
    let o = fresh(&mut w, si, ix);
    r.line("  tx [venue refresh, borrow]", Expect::Ok, &o);
    vs::refresh_direct(&mut w, si);
    let v = vs::reserve_view(&w.vm, &vb.reserve);
    r.check("refresh_direct stamps slot + clears the flag", v.slot == w.vm.clock.slot && !v.stale, String::new());

    // ---- interest at the venue
    let (n0, d0) = vs::exact_rate(&w.vm, &w.banks[si]);
    let before = w.vm.clone();
    vs::accrue(&mut w.vm, &vb, 50_000);
    let (n1, d1) = vs::exact_rate(&w.vm, &w.banks[si]);
    let ratio = (n1.clone() * d0.clone()).to_f64().unwrap() / (n0.clone() * d1.clone()).to_f64().unwrap();
    r.check("accrue(+5%) raises the exact rate by 5%", (ratio - 1.05).abs() < 1e-9, format!("{:.9} -> {:.9}", n0.to_f64().unwrap() / d0.to_f64().unwrap(), n1.to_f64().unwrap() / d1.to_f64().unwrap()));
    let changed: Vec<Pubkey> = w.vm.accts.iter().filter(|(k, a)| before.accts.get(*k).map(|b| b.as_ref() != a.as_ref()).unwrap_or(true)).map(|(k, _)| *k).collect();
    r.check("accrue touches only the reserve", changed == vec![vb.reserve], format!("{} accounts changed", changed.len()));
    let pre = vs::reserve_view(&w.vm, &vb.reserve);
    let bal0 = w.tok(&u0.tokens[si]);
    let c_s = (c2 / 50).max(1);
    let ix = vs::ix_withdraw(&w, 0, &a0, si, c_s, false, u0.auth, u0.tokens[si]);
    let o = fresh(&mut w, si, ix);
    if r.line(&format!("user0 solend_withdraw {c_s} cTokens after interest"), Expect::Ok, &o) {
        let got = w.tok(&u0.tokens[si]) - bal0;
        r.rounding("withdraw: underlying received <= exact", BigInt::from(got) * BigInt::from(pre.ctoken_supply) * BigInt::from(vs::WAD) <= BigInt::from(c_s) * total_wads(&pre), format!("received {got} for {c_s} cTokens"));
        r.check("  worth 5% more than before", got as f64 >= c_s as f64 * rate * 1.0499 - 2.0, format!("received {got}, at the old rate {:.1}", c_s as f64 * rate));
    }
    conservation(&mut r, &w, "withdraw after interest");

    // ---- receivership bracket on the venue position
    let o = one(&mut w.clone(), w.ix_start_liquidation(a0, u2.auth));
    let _ = o;
    let ix = w.ix_init_liq_record(a0, u2.auth);
    let o = one(&mut w, ix);
    r.line("init liquidation record for user0's account", Expect::Ok, &o);
    let price_res = w.set_price(si, 200_000, 200, 200_000, 200);
    r.check("price of the venue asset drops to 10%", price_res.is_ok(), String::new());
    vs::refresh_direct(&mut w, si);
    let c3 = shares(&w, &a0, &vb.bank).unwrap_or(0);
    let seize = (c3 / 20).max(1);
    let repay_amt = 1000u64;
    let bracket = |w: &World, with_refresh_inside: bool| -> Vec<Instruction> {
        let mut v = vec![w.ix_start_liquidation(a0, u2.auth)];
        if with_refresh_inside {
            v.extend(vs::refresh_ixs(w, si));
        }
        v.push(vs::ix_withdraw_with(w, &a0, si, seize, false, u2.auth, u2.tokens[si], w.risk_metas(&a0, None, None)));
        v.push(w.ix_repay(a0, u2.auth, 0, u2.tokens[0], repay_amt, None));
        v.push(w.ix_end_liquidation(a0, u2.auth, w.risk_metas(&a0, None, None)));
        v
    };
    let v = bracket(&w, false);
    let o = tx(&mut w.clone(), v);
    r.line("bracket [start_liquidation, solend_withdraw, repay, end_liquidation]", Expect::Refused, &o);
    out(&format!("[{}]     (solend_withdraw is NOT on the allow-list of liquidate_start.rs::validate_instructions; 6000+ code above is the reason given)", r.tag));
    // same bracket without the venue withdraw: is the account seizable at all?
    let v = vec![w.ix_start_liquidation(a0, u2.auth), w.ix_repay(a0, u2.auth, 0, u2.tokens[0], repay_amt, None), w.ix_end_liquidation(a0, u2.auth, w.risk_metas(&a0, None, None))];
    let o = tx(&mut w.clone(), v);
    r.line("bracket [start, repay, end] (no seizure) on the same account", Expect::Any, &o);
    // a venue refresh as a top-level instruction of the bracket transaction
    let mut v = vs::refresh_ixs(&w, si);
    v.extend(vec![w.ix_start_liquidation(a0, u2.auth), w.ix_repay(a0, u2.auth, 0, u2.tokens[0], repay_amt, None), w.ix_end_liquidation(a0, u2.auth, w.risk_metas(&a0, None, None))]);
    let o = tx(&mut w.clone(), v);
    r.line("tx [venue refresh, start, repay, end]", Expect::Any, &o);
    {
        let mut ws = w.clone();
        ws.vm.advance(1);
        ws.refresh_oracles();
        let v = vec![ws.ix_start_liquidation(a0, u2.auth), ws.ix_repay(a0, u2.auth, 0, u2.tokens[0], repay_amt, None), ws.ix_end_liquidation(a0, u2.auth, ws.risk_metas(&a0, None, None))];
        let o = tx(&mut ws, v);
        r.line("next slot, reserve not refreshed: bracket [start, repay, end]", Expect::Any, &o);
        let mut v = vs::refresh_ixs(&ws, si);
        v.push(ws.ix_liquidate(a2, u2.auth, a0, si, 0, seize));
        let o = tx(&mut ws, v);
        r.line("next slot: tx [venue refresh, classic lending_account_liquidate]", Expect::Any, &o);
    }
    // classic liquidation of the venue collateral
    let ix = w.ix_liquidate(a2, u2.auth, a0, si, 0, seize);
    let mut wl = w.clone();
    let o = one(&mut wl, ix);
    r.line(&format!("classic lending_account_liquidate of {seize} cTokens (on a copy)"), Expect::Any, &o);
    if o.ok {
        out(&format!("[{}]     liquidator now holds {:?} cTokens of the venue bank, liquidatee {:?}", r.tag, shares(&wl, &a2, &vb.bank), shares(&wl, &a0, &vb.bank)));
    }
    let price_res = w.set_price(si, 2_000_000, 2000, 2_000_000, 2000);
    r.check("price restored", price_res.is_ok(), String::new());

    // ---- full withdraw
    let ix = w.ix_repay(a0, u0.auth, 0, u0.tokens[0], 0, Some(true));
    let o = one(&mut w, ix);
    r.line("user0 repays everything", Expect::Ok, &o);
    let c4 = shares(&w, &a0, &vb.bank).unwrap_or(0);
    let pre = vs::reserve_view(&w.vm, &vb.reserve);
    let bal0 = w.tok(&u0.tokens[si]);
    let ix = vs::ix_withdraw(&w, 0, &a0, si, 0, true, u0.auth, u0.tokens[si]);
    let o = fresh(&mut w, si, ix);
    if r.line(&format!("user0 solend_withdraw withdraw_all ({c4} cTokens)"), Expect::Ok, &o) {
        let got = w.tok(&u0.tokens[si]) - bal0;
        r.check("position closed", shares(&w, &a0, &vb.bank).is_none(), String::new());
        r.rounding("withdraw_all: underlying received <= exact", BigInt::from(got) * BigInt::from(pre.ctoken_supply) * BigInt::from(vs::WAD) <= BigInt::from(c4) * total_wads(&pre), format!("received {got} for {c4} cTokens"));
        r.check("withdraw_all: underlying received >= exact - 2", (BigInt::from(got) + 2) * BigInt::from(pre.ctoken_supply) * BigInt::from(vs::WAD) >= BigInt::from(c4) * total_wads(&pre), format!("received {got}"));
    }
    conservation(&mut r, &w, "withdraw_all");
    let ob = vs::obligation_deposit(&w.vm, &vb.obligation, &vb.reserve);
    let bank = w.bank(si);
    let tot_shares = I80F48::from(bank.total_asset_shares).to_num::<u64>();
    r.check("obligation collateral == seed + all marginfi shares", ob == seed_col + tot_shares && tot_shares == 0, format!("obligation {ob} seed {seed_col} shares {tot_shares}"));
    let cs = w.tok(&vb.collateral_supply);
    let v = vs::reserve_view(&w.vm, &vb.reserve);
    let cmint_supply = u64::from_le_bytes(w.vm.data(&vb.collateral_mint)[36..44].try_into().unwrap());
    r.check("venue books consistent (cToken mint supply, collateral supply, vault)", cs == ob && cmint_supply == v.ctoken_supply && w.tok(&vb.liquidity_supply) == v.available && w.tok(&vb.user_collateral) == 0, format!("col supply {cs} mint supply {cmint_supply} vault {}", v.available));
    let lost = (u0.tokens[si], w.tok(&u0.tokens[si]));
    out(&format!("[{}] user0 ends with {} of the venue mint (started with {}): net {:+}", r.tag, lost.1, 1u64 << 50, lost.1 as i128 - (1i128 << 50)));
    r
}

/// direct (top-level) calls into the fake venue: it must reject what the real program would reject
fn venue_selftest() -> Run {
    use solana_program::instruction::AccountMeta;
    vs::set_math_mode(vs::MathMode::Mocks);
    let mut r = Run { tag: "venue-selftest".into(), surprises: 0, rounding_notes: 0, steps: 0 };
    let mut spec = WorldSpec::default();
    spec.n_users = 2;
    spec.user_tokens = 1 << 40;
    let mut w = World::build(&spec).unwrap();
    let mut sb = BankSpec::default();
    sb.oracle = OracleSpec::pyth(2_000_000, -6, 2000);
    let si = vs::add_bank(&mut w, &sb).unwrap();
    let vb = vs::venue(&w, si);
    let u0 = w.users[0].clone();
    let ix = vs::ix_deposit(&w, 0, &u0.accts[0], si, 5_000_000);
    let o = one(&mut w, ix);
    r.line("user0 solend_deposit through marginfi", Expect::Ok, &o);
    vs::refresh_direct(&mut w, si);
    let stranger = w.roles.stranger;
    let sta = kp("stranger_ta", 1);
    let a = w.make_token_acct(&w.banks[si], stranger, 1_000);
    w.vm.set(sta, a);
    // the stranger's own cToken account
    let scol = kp("stranger_ctoken", 1);
    let cm = w.vm.data(&vb.collateral_mint).to_vec();
    w.vm.set(scol, spl_token_acct(vb.collateral_mint, stranger, 0));
    let _ = cm;
    let raw_withdraw = |owner: Pubkey, owner_signs: bool, auth: Pubkey, dst_col: Pubkey, dst_liq: Pubkey, reserve: Pubkey, amount: u64| -> Instruction {
        let mut d = vec![15u8];
        d.extend_from_slice(&amount.to_le_bytes());
        Instruction {
            program_id: vs::program_id(),
            accounts: vec![
                AccountMeta::new(vb.collateral_supply, false),
                AccountMeta::new(dst_col, false),
                AccountMeta::new(reserve, false),
                AccountMeta::new(vb.obligation, false),
                AccountMeta::new(vb.lending_market, false),
                AccountMeta::new_readonly(vb.lending_market_authority, false),
                AccountMeta::new(dst_liq, false),
                AccountMeta::new(vb.collateral_mint, false),
                AccountMeta::new(vb.liquidity_supply, false),
                AccountMeta::new_readonly(owner, owner_signs),
                AccountMeta::new_readonly(auth, true),
                AccountMeta::new_readonly(vb.token_program, false),
                AccountMeta::new(reserve, false),
            ],
            data: d,
        }
    };
    let raw_deposit = |src: Pubkey, owner: Pubkey, auth: Pubkey, amount: u64| -> Instruction {
        let mut d = vec![14u8];
        d.extend_from_slice(&amount.to_le_bytes());
        Instruction {
            program_id: vs::program_id(),
            accounts: vec![
                AccountMeta::new(src, false),
                AccountMeta::new(scol, false),
                AccountMeta::new(vb.reserve, false),
                AccountMeta::new(vb.liquidity_supply, false),
                AccountMeta::new(vb.collateral_mint, false),
                AccountMeta::new_readonly(vb.lending_market, false),
                AccountMeta::new_readonly(vb.lending_market_authority, false),
                AccountMeta::new(vb.collateral_supply, false),
                AccountMeta::new(vb.obligation, false),
                AccountMeta::new_readonly(owner, true),
                AccountMeta::new_readonly(vb.pyth_price, false),
                AccountMeta::new_readonly(vb.switchboard_feed, false),
                AccountMeta::new_readonly(auth, true),
                AccountMeta::new_readonly(vb.token_program, false),
            ],
            data: d,
        }
    };
    let o = one(&mut w, raw_withdraw(stranger, true, stranger, scol, sta, vb.reserve, 1000));
    r.line("direct venue withdraw, stranger poses as position owner", Expect::Refused, &o);
    let o = one(&mut w, raw_withdraw(vb.lv_auth, false, stranger, scol, sta, vb.reserve, 1000));
    r.line("direct venue withdraw, real owner named but not signing", Expect::Refused, &o);
    let o = one(&mut w, raw_deposit(sta, stranger, stranger, 500));
    r.line("direct venue deposit into marginfi's obligation by a stranger", Expect::Refused, &o);
    // a forged reserve (same bytes, not owned by the venue)
    let forged = kp("forged_reserve", 1);
    let mut fa = w.vm.get(&vb.reserve).unwrap().clone();
    fa.owner = solana_program::system_program::ID;
    w.vm.set(forged, fa);
    let o = one(&mut w, raw_withdraw(vb.lv_auth, false, stranger, scol, sta, forged, 1000));
    r.line("direct venue withdraw with a reserve not owned by the venue", Expect::Refused, &o);
    // unknown instruction data is accepted and changes nothing
    let before = w.vm.accts.clone();
    for data in [vec![], vec![0u8; 8], vec![2, 0, 0, 0, 0], vec![14], vec![15, 1, 2], vec![200; 9]] {
        let o = one(&mut w, Instruction { program_id: vs::program_id(), accounts: vec![AccountMeta::new(vb.reserve, false)], data: data.clone() });
        r.line(&format!("unrecognised data {:?}", data), Expect::Ok, &o);
    }
    r.check("  ... and changed nothing", before == w.vm.accts, String::new());
    // refresh: only slot + flag of the reserve change
    w.vm.advance(3);
    let pre = w.vm.get(&vb.reserve).unwrap().clone();
    let before = w.vm.accts.clone();
    let v = vs::refresh_ixs(&w, si);
    let o = tx(&mut w, v);
    r.line("venue RefreshReserve", Expect::Ok, &o);
    let post = w.vm.get(&vb.reserve).unwrap().clone();
    let others_same = w.vm.accts.iter().all(|(k, a)| *k == vb.reserve || before.get(k).map(|b| b.as_ref() == a.as_ref()).unwrap_or(false));
    r.check("  refresh changed only bytes 1..10 of the reserve", others_same && pre.data[10..] == post.data[10..] && pre.data[0] == post.data[0] && pre.lamports == post.lamports && vs::reserve_view(&w.vm, &vb.reserve).slot == w.vm.clock.slot, String::new());
    let ix = vs::ix_refresh_obligation(&w, si);
    let o = one(&mut w, ix);
    r.line("venue RefreshObligation", Expect::Ok, &o);
    // wrong oracle on refresh
    let o = one(&mut w, Instruction { program_id: vs::program_id(), accounts: vec![AccountMeta::new(vb.reserve, false), AccountMeta::new_readonly(kp("other_oracle", 0), false)], data: vec![3] });
    r.line("venue RefreshReserve with a foreign oracle account", Expect::Refused, &o);
    // venue liquidity exhausted: third parties borrowed everything that is available
    let mut wx = w.clone();
    wx.vm.modify(&vb.reserve, |a| {
        let avail = u64::from_le_bytes(a.data[171..179].try_into().unwrap());
        let b = u128::from_le_bytes(a.data[179..195].try_into().unwrap()) + avail as u128 * vs::WAD;
        a.data[171..179].copy_from_slice(&1000u64.to_le_bytes());
        a.data[179..195].copy_from_slice(&b.to_le_bytes());
    });
    let ix = vs::ix_withdraw(&wx, 0, &u0.accts[0], si, 1_000_000, false, u0.auth, u0.tokens[si]);
    let o = fresh(&mut wx, si, ix);
    r.line("solend_withdraw when the venue has no liquidity left (all lent out)", Expect::Refused, &o);
    r
}

fn main() {
    silence_program_stdout();
    std::panic::set_hook(Box::new(|_| {}));
    let t0 = std::time::Instant::now();
    let mut total_surprises = 0;
    let mut total_notes = 0;
    let mut total_steps = 0;
    let mut cases = 0;
    for mode in [vs::MathMode::Mocks, vs::MathMode::Wad] {
        for token in [0u8, 1u8] {
            for decimals in [6u8, 9u8] {
                for seed in [1u64, 2, 3] {
                    let kind = if seed == 3 { 2 } else { 1 };
                    let timing = seed == 1 && decimals == 6 && mode == vs::MathMode::Mocks;
                    let r = run_case(token, decimals, seed, kind, mode, timing);
                    out(&format!("[{}] ==> {} steps, {} surprises, {} rounding notes", r.tag, r.steps, r.surprises, r.rounding_notes));
                    total_surprises += r.surprises;
                    total_notes += r.rounding_notes;
                    total_steps += r.steps;
                    cases += 1;
                }
            }
        }
    }
    // Token-2022 with a transfer fee: informational
    let r = run_case(2, 6, 1, 1, vs::MathMode::Mocks, false);
    total_surprises += r.surprises;
    total_steps += r.steps;
    cases += 1;
    let r = venue_selftest();
    out(&format!("[{}] ==> {} steps, {} surprises", r.tag, r.steps, r.surprises));
    total_surprises += r.surprises;
    total_steps += r.steps;
    cases += 1;
    out(&format!("TOTAL: {cases} cases, {total_steps} steps, {total_surprises} surprises, {total_notes} rounding notes, {:?}", t0.elapsed()));
    if total_surprises != 0 {
        std::process::exit(1);
    }
}
