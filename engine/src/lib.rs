pub mod common;
pub mod num;
pub mod props;
