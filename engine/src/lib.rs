pub mod campaign;
pub mod common;
pub mod monitors;
pub mod num;
pub mod props;
pub mod snap;
pub mod svm;
pub mod world;
