pub mod common;
pub mod num;
pub mod props;
pub mod svm;
pub mod world;
