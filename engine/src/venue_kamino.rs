//! venue_kamino: a FAKE Kamino-Lend ("KLend") program plus the world helpers that make marginfi's `kamino_*`
//! instructions executable in the engine: `marginfi::entry` -> Anchor constraints -> handler -> CPI into `process`
//! below -> CPI into the real SPL-Token / Token-2022 processors.
//!
//! The fake keeps the account layouts of `kamino_mocks::state::{MinimalReserve, MinimalObligation}` (what marginfi
//! reads) and implements the simplest plausible, internally consistent behaviour of the instructions marginfi CPIs
//! into. See `process` for the list and the module-level constants for the venue-side PDAs.
//!
//! Units: `kamino_deposit(amount)` is in LIQUIDITY (underlying) native units, `kamino_withdraw(amount)` in
//! COLLATERAL (cToken) native units; a marginfi balance of a Kamino bank counts collateral units (share value 1).
use crate::svm::{self, Acct, TxOutcome, Vm};
use crate::world::{self, kp, BankInfo, BankSpec, World};
use anchor_lang::{Discriminator, InstructionData, ToAccountMetas};
use kamino_mocks::kamino_lending::client::args as kargs;
use kamino_mocks::state::{MinimalObligation, MinimalReserve, OBLIGATION_DISCRIMINATOR, RESERVE_DISCRIMINATOR};
use marginfi_type_crate::types::{BankConfigOpt, OracleSetup, RiskTier};
use num_bigint::{BigInt, BigUint};
use num_traits::{ToPrimitive, Zero};
use solana_program::{
    account_info::AccountInfo,
    clock::Clock,
    entrypoint::ProgramResult,
    instruction::{AccountMeta, Instruction},
    program::invoke_signed,
    program_error::ProgramError,
    program_option::COption,
    program_pack::Pack,
    pubkey::Pubkey,
    rent::Rent,
    system_instruction, system_program,
    sysvar::Sysvar,
};

// ------------------------------------------------------------------------------------------
// ids, seeds, sizes, error codes
// ------------------------------------------------------------------------------------------
pub fn program_id() -> Pubkey {
    kamino_mocks::kamino_lending::ID
}
pub fn farms_program_id() -> Pubkey {
    marginfi::constants::FARMS_PROGRAM_ID
}

pub const SEED_LMA: &[u8] = b"lma";
pub const SEED_LIQ_SUPPLY: &[u8] = b"reserve_liq_supply";
pub const SEED_FEE_RECEIVER: &[u8] = b"fee_receiver";
pub const SEED_COLL_MINT: &[u8] = b"reserve_coll_mint";
pub const SEED_COLL_SUPPLY: &[u8] = b"reserve_coll_supply";
pub const SEED_USER_META: &[u8] = b"user_meta";

pub const RESERVE_LEN: usize = 8 + std::mem::size_of::<MinimalReserve>(); // 8624, as the real Reserve
pub const OBLIGATION_LEN: usize = 8 + std::mem::size_of::<MinimalObligation>(); // 3344, as the real Obligation
pub const MARKET_LEN: usize = 4664; // as the real LendingMarket
pub const USER_META_LEN: usize = 1032; // as the real UserMetadata

/// sha256("account:LendingMarket")[..8] / sha256("account:UserMetadata")[..8]
pub fn market_discriminator() -> [u8; 8] {
    solana_program::hash::hash(b"account:LendingMarket").to_bytes()[..8].try_into().unwrap()
}
pub fn user_meta_discriminator() -> [u8; 8] {
    solana_program::hash::hash(b"account:UserMetadata").to_bytes()[..8].try_into().unwrap()
}

// LendingMarket layout of the fake: disc | version u64 | bump_seed u64 (of the lma PDA) | owner Pubkey | ... |
// one configuration byte of the FAKE at `MARKET_CFG_OFF` (zero in a real market's padding area)
pub const MARKET_BUMP_OFF: usize = 16;
pub const MARKET_OWNER_OFF: usize = 24;
pub const MARKET_CFG_OFF: usize = 4000;
/// cfg bit: do NOT require the reserve / obligation to be refreshed in the current slot for deposit / withdraw
pub const CFG_LENIENT_REFRESH: u8 = 1;
/// cfg bit: convert with exact floor(rational) arithmetic (what the real venue does, up to its 2^-60 fraction
/// precision) instead of the I80F48 conversion exposed by the mocks crate (the default)
pub const CFG_EXACT_MATH: u8 = 2;

// raw offsets inside the account data (discriminator included) of the fields the engine reads without the Pod type
pub const R_SLOT: usize = 8 + 8;
pub const R_STALE: usize = 8 + 16;
pub const R_AVAILABLE: usize = 8 + 216;
pub const R_BORROWED_SF: usize = 8 + 224;
pub const R_PROT_FEES_SF: usize = 8 + 336;
pub const R_REF_FEES_SF: usize = 8 + 352;
pub const R_PENDING_REF_FEES_SF: usize = 8 + 368;
pub const R_COLL_SUPPLY: usize = 8 + 2584;

/// Custom error codes of the fake venue (`ProgramError::Custom`), chosen outside marginfi's 6000.. range.
pub mod err {
    pub const BASE: u32 = 0x4b41_0000;
    /// account not owned by the venue program / wrong size / wrong discriminator
    pub const NOT_VENUE_ACCOUNT: u32 = BASE + 1;
    /// the signer is not the owner recorded in the obligation / user metadata
    pub const WRONG_AUTHORITY: u32 = BASE + 2;
    /// an account passed does not match what the market / reserve / obligation records
    pub const ACCOUNT_MISMATCH: u32 = BASE + 3;
    pub const RESERVE_STALE: u32 = BASE + 4;
    pub const OBLIGATION_STALE: u32 = BASE + 5;
    pub const ZERO_AMOUNT: u32 = BASE + 6;
    pub const INSUFFICIENT_COLLATERAL: u32 = BASE + 7;
    pub const INSUFFICIENT_LIQUIDITY: u32 = BASE + 8;
    pub const MATH: u32 = BASE + 9;
    pub const ALREADY_INITIALIZED: u32 = BASE + 10;
    pub const INVALID_PDA: u32 = BASE + 11;
    pub const OBLIGATION_FULL: u32 = BASE + 12;
    /// the liquidity vault did not receive exactly the amount sent (transfer-fee mints are not supported)
    pub const UNSUPPORTED_TOKEN: u32 = BASE + 13;
    /// the conversion of the amount rounds to zero
    pub const TOO_SMALL: u32 = BASE + 14;
    pub const NOT_WRITABLE: u32 = BASE + 15;
}
fn e(code: u32) -> ProgramError {
    ProgramError::Custom(code)
}

// ------------------------------------------------------------------------------------------
// PDAs
// ------------------------------------------------------------------------------------------
pub fn lma_pda(market: &Pubkey) -> (Pubkey, u8) {
    Pubkey::find_program_address(&[SEED_LMA, market.as_ref()], &program_id())
}
pub fn reserve_pda(seed: &[u8], reserve: &Pubkey) -> Pubkey {
    Pubkey::find_program_address(&[seed, reserve.as_ref()], &program_id()).0
}
pub fn user_meta_pda(owner: &Pubkey) -> (Pubkey, u8) {
    Pubkey::find_program_address(&[SEED_USER_META, owner.as_ref()], &program_id())
}
/// obligation PDA as marginfi derives it (tag 0, id 0, seed accounts = system program)
pub fn obligation_pda(tag: u8, id: u8, owner: &Pubkey, market: &Pubkey, seed1: &Pubkey, seed2: &Pubkey) -> (Pubkey, u8) {
    Pubkey::find_program_address(&[&[tag], &[id], owner.as_ref(), market.as_ref(), seed1.as_ref(), seed2.as_ref()], &program_id())
}

// ------------------------------------------------------------------------------------------
// the fake program
// ------------------------------------------------------------------------------------------
static REGISTER: std::sync::Once = std::sync::Once::new();
/// Register the fake under the KLend program id (idempotent). `add_bank` calls it.
pub fn register() {
    REGISTER.call_once(|| {
        check_layout();
        svm::register_program(program_id(), process);
    });
}

/// the hand-computed raw offsets agree with the Pod types of the mocks crate
pub fn check_layout() {
    use std::mem::offset_of;
    assert_eq!(R_SLOT, 8 + offset_of!(MinimalReserve, slot));
    assert_eq!(R_STALE, 8 + offset_of!(MinimalReserve, stale));
    assert_eq!(R_AVAILABLE, 8 + offset_of!(MinimalReserve, available_amount));
    assert_eq!(R_BORROWED_SF, 8 + offset_of!(MinimalReserve, borrowed_amount_sf));
    assert_eq!(R_PROT_FEES_SF, 8 + offset_of!(MinimalReserve, accumulated_protocol_fees_sf));
    assert_eq!(R_REF_FEES_SF, 8 + offset_of!(MinimalReserve, accumulated_referrer_fees_sf));
    assert_eq!(R_PENDING_REF_FEES_SF, 8 + offset_of!(MinimalReserve, pending_referrer_fees_sf));
    assert_eq!(R_COLL_SUPPLY, 8 + offset_of!(MinimalReserve, mint_total_supply));
    assert_eq!(RESERVE_LEN, 8624);
    assert_eq!(OBLIGATION_LEN, 3344);
}

/// Entry point of the fake KLend program.
///
/// Implemented (by Anchor discriminator of the real program's IDL): `refresh_reserve`, `refresh_obligation`,
/// `init_user_metadata`, `init_obligation`, `deposit_reserve_liquidity_and_obligation_collateral[_v2]`,
/// `withdraw_obligation_collateral_and_redeem_reserve_collateral[_v2]`. Everything else (including
/// `init_obligation_farms_for_reserve`) is accepted and does nothing.
pub fn process(pid: &Pubkey, ais: &[AccountInfo], data: &[u8]) -> ProgramResult {
    if data.len() < 8 {
        return Ok(());
    }
    let d = &data[..8];
    let arg_u64 = || -> Result<u64, ProgramError> {
        if data.len() < 16 {
            return Err(ProgramError::InvalidInstructionData);
        }
        Ok(u64::from_le_bytes(data[8..16].try_into().unwrap()))
    };
    if d == kargs::RefreshReserve::DISCRIMINATOR {
        // with NO accounts at all there is nothing to stamp: accepted as a no-op (the engine's bracket-shape checks
        // send such an instruction as "some venue refresh" and rely on the id accepting it)
        if ais.is_empty() {
            return Ok(());
        }
        refresh_reserve(pid, ais)
    } else if d == kargs::RefreshObligation::DISCRIMINATOR {
        if ais.is_empty() {
            return Ok(());
        }
        refresh_obligation(pid, ais)
    } else if d == kargs::InitUserMetadata::DISCRIMINATOR {
        if data.len() < 8 + 32 {
            return Err(ProgramError::InvalidInstructionData);
        }
        init_user_metadata(pid, ais, Pubkey::new_from_array(data[8..40].try_into().unwrap()))
    } else if d == kargs::InitObligation::DISCRIMINATOR {
        if data.len() < 10 {
            return Err(ProgramError::InvalidInstructionData);
        }
        init_obligation(pid, ais, data[8], data[9])
    } else if d == kargs::DepositReserveLiquidityAndObligationCollateralV2::DISCRIMINATOR || d == kargs::DepositReserveLiquidityAndObligationCollateral::DISCRIMINATOR {
        deposit(pid, ais, arg_u64()?)
    } else if d == kargs::WithdrawObligationCollateralAndRedeemReserveCollateralV2::DISCRIMINATOR
        || d == kargs::WithdrawObligationCollateralAndRedeemReserveCollateral::DISCRIMINATOR
    {
        withdraw(pid, ais, arg_u64()?)
    } else {
        Ok(())
    }
}

fn need(ais: &[AccountInfo], n: usize) -> ProgramResult {
    if ais.len() < n {
        Err(ProgramError::NotEnoughAccountKeys)
    } else {
        Ok(())
    }
}
fn load_reserve(pid: &Pubkey, ai: &AccountInfo) -> Result<MinimalReserve, ProgramError> {
    let d = ai.try_borrow_data()?;
    if ai.owner != pid || d.len() != RESERVE_LEN || d[..8] != RESERVE_DISCRIMINATOR {
        return Err(e(err::NOT_VENUE_ACCOUNT));
    }
    Ok(bytemuck::pod_read_unaligned::<MinimalReserve>(&d[8..]))
}
fn store_reserve(ai: &AccountInfo, r: &MinimalReserve) -> ProgramResult {
    if !ai.is_writable {
        return Err(e(err::NOT_WRITABLE));
    }
    ai.try_borrow_mut_data()?[8..].copy_from_slice(bytemuck::bytes_of(r));
    Ok(())
}
fn load_obligation(pid: &Pubkey, ai: &AccountInfo) -> Result<MinimalObligation, ProgramError> {
    let d = ai.try_borrow_data()?;
    if ai.owner != pid || d.len() != OBLIGATION_LEN || d[..8] != OBLIGATION_DISCRIMINATOR {
        return Err(e(err::NOT_VENUE_ACCOUNT));
    }
    Ok(bytemuck::pod_read_unaligned::<MinimalObligation>(&d[8..]))
}
fn store_obligation(ai: &AccountInfo, o: &MinimalObligation) -> ProgramResult {
    if !ai.is_writable {
        return Err(e(err::NOT_WRITABLE));
    }
    ai.try_borrow_mut_data()?[8..].copy_from_slice(bytemuck::bytes_of(o));
    Ok(())
}
/// returns (lma bump, cfg byte)
fn check_market(pid: &Pubkey, ai: &AccountInfo) -> Result<(u8, u8), ProgramError> {
    let d = ai.try_borrow_data()?;
    if ai.owner != pid || d.len() != MARKET_LEN || d[..8] != market_discriminator() {
        return Err(e(err::NOT_VENUE_ACCOUNT));
    }
    Ok((d[MARKET_BUMP_OFF], d[MARKET_CFG_OFF]))
}
fn reserve_fresh(r: &MinimalReserve, slot: u64) -> bool {
    r.stale == 0 && r.slot >= slot
}
fn obligation_fresh(o: &MinimalObligation, slot: u64) -> bool {
    o.last_update_stale == 0 && o.last_update_slot >= slot
}

/// total liquidity of the reserve as U68F60 bits (value * 2^60): available + borrowed - fees
fn total_liquidity_sf(r: &MinimalReserve) -> Option<BigUint> {
    let sf = |b: [u8; 16]| BigUint::from(u128::from_le_bytes(b));
    let plus = (BigUint::from(r.available_amount) << 60u32) + sf(r.borrowed_amount_sf);
    let minus = sf(r.accumulated_protocol_fees_sf) + sf(r.accumulated_referrer_fees_sf) + sf(r.pending_referrer_fees_sf);
    if minus > plus {
        None
    } else {
        Some(plus - minus)
    }
}
fn liq_to_col(r: &MinimalReserve, liquidity: u64, exact: bool) -> Result<u64, ProgramError> {
    if r.mint_total_supply == 0 {
        // initial exchange rate of an empty reserve: 1 collateral per liquidity unit
        return Ok(liquidity);
    }
    if exact {
        let tl = total_liquidity_sf(r).ok_or(e(err::MATH))?;
        if tl.is_zero() {
            return Ok(liquidity);
        }
        (((BigUint::from(liquidity) * BigUint::from(r.mint_total_supply)) << 60u32) / tl).to_u64().ok_or(e(err::MATH))
    } else {
        r.liquidity_to_collateral(liquidity).map_err(|_| e(err::MATH))
    }
}
fn col_to_liq(r: &MinimalReserve, collateral: u64, exact: bool) -> Result<u64, ProgramError> {
    if r.mint_total_supply == 0 {
        return Err(e(err::MATH));
    }
    if exact {
        let tl = total_liquidity_sf(r).ok_or(e(err::MATH))?;
        ((BigUint::from(collateral) * tl) / (BigUint::from(r.mint_total_supply) << 60u32)).to_u64().ok_or(e(err::MATH))
    } else {
        r.collateral_to_liquidity(collateral).map_err(|_| e(err::MATH))
    }
}

/// accounts: reserve (w), lending_market, [4 optional oracles]. Stamps `slot = clock.slot`, `stale = 0`,
/// `price_status = 63`; nothing else (no interest accrual, no price load).
fn refresh_reserve(pid: &Pubkey, ais: &[AccountInfo]) -> ProgramResult {
    need(ais, 2)?;
    let mut r = load_reserve(pid, &ais[0])?;
    check_market(pid, &ais[1])?;
    if r.lending_market != *ais[1].key {
        return Err(e(err::ACCOUNT_MISMATCH));
    }
    let clock = Clock::get()?;
    r.slot = clock.slot;
    r.stale = 0;
    r.price_status = 63;
    store_reserve(&ais[0], &r)
}

/// accounts: lending_market, obligation (w), then one reserve per active deposit (in deposit order), each of which
/// must be fresh. Stamps `last_update_slot`, `stale = 0`, `price_status = 63`; nothing else.
fn refresh_obligation(pid: &Pubkey, ais: &[AccountInfo]) -> ProgramResult {
    need(ais, 2)?;
    let (_, cfg) = check_market(pid, &ais[0])?;
    let mut o = load_obligation(pid, &ais[1])?;
    if o.lending_market != *ais[0].key {
        return Err(e(err::ACCOUNT_MISMATCH));
    }
    let clock = Clock::get()?;
    let mut k = 2;
    for dep in o.deposits.iter() {
        if dep.deposit_reserve == Pubkey::default() {
            continue;
        }
        let ai = ais.get(k).ok_or(ProgramError::NotEnoughAccountKeys)?;
        k += 1;
        if *ai.key != dep.deposit_reserve {
            return Err(e(err::ACCOUNT_MISMATCH));
        }
        let r = load_reserve(pid, ai)?;
        if cfg & CFG_LENIENT_REFRESH == 0 && !reserve_fresh(&r, clock.slot) {
            return Err(e(err::RESERVE_STALE));
        }
    }
    o.last_update_slot = clock.slot;
    o.last_update_stale = 0;
    o.last_update_price_status = 63;
    store_obligation(&ais[1], &o)
}

fn create_pda_account<'a>(payer: &AccountInfo<'a>, target: &AccountInfo<'a>, space: usize, pid: &Pubkey, seeds: &[&[u8]]) -> ProgramResult {
    if *target.owner != system_program::ID || target.data_len() != 0 || target.lamports() != 0 {
        return Err(e(err::ALREADY_INITIALIZED));
    }
    let lamports = Rent::default().minimum_balance(space);
    let ix = system_instruction::create_account(payer.key, target.key, lamports, space as u64, pid);
    invoke_signed(&ix, &[payer.clone(), target.clone()], &[seeds])
}

/// accounts: owner (s), fee_payer (w,s), user_metadata (w), referrer_user_metadata (opt), rent, system_program
fn init_user_metadata(pid: &Pubkey, ais: &[AccountInfo], lut: Pubkey) -> ProgramResult {
    need(ais, 6)?;
    let (owner, payer, meta) = (&ais[0], &ais[1], &ais[2]);
    if !owner.is_signer || !payer.is_signer {
        return Err(ProgramError::MissingRequiredSignature);
    }
    let (pda, bump) = Pubkey::find_program_address(&[SEED_USER_META, owner.key.as_ref()], pid);
    if pda != *meta.key {
        return Err(e(err::INVALID_PDA));
    }
    create_pda_account(payer, meta, USER_META_LEN, pid, &[SEED_USER_META, owner.key.as_ref(), &[bump]])?;
    let mut d = meta.try_borrow_mut_data()?;
    d[..8].copy_from_slice(&user_meta_discriminator());
    // referrer (32) = default | bump u64 | user_lookup_table | owner
    d[40..48].copy_from_slice(&(bump as u64).to_le_bytes());
    d[48..80].copy_from_slice(lut.as_ref());
    d[80..112].copy_from_slice(owner.key.as_ref());
    Ok(())
}

/// accounts: obligation_owner (s), fee_payer (w,s), obligation (w), lending_market, seed1, seed2,
/// owner_user_metadata, rent, system_program; args (tag, id)
fn init_obligation(pid: &Pubkey, ais: &[AccountInfo], tag: u8, id: u8) -> ProgramResult {
    need(ais, 9)?;
    let (owner, payer, obl, market, seed1, seed2, meta) = (&ais[0], &ais[1], &ais[2], &ais[3], &ais[4], &ais[5], &ais[6]);
    if !owner.is_signer || !payer.is_signer {
        return Err(ProgramError::MissingRequiredSignature);
    }
    check_market(pid, market)?;
    {
        let md = meta.try_borrow_data()?;
        if meta.owner != pid || md.len() != USER_META_LEN || md[..8] != user_meta_discriminator() {
            return Err(e(err::NOT_VENUE_ACCOUNT));
        }
        if md[80..112] != *owner.key.as_ref() {
            return Err(e(err::WRONG_AUTHORITY));
        }
    }
    let (t, n) = ([tag], [id]);
    let seeds: [&[u8]; 6] = [&t, &n, owner.key.as_ref(), market.key.as_ref(), seed1.key.as_ref(), seed2.key.as_ref()];
    let (pda, bump) = Pubkey::find_program_address(&seeds, pid);
    if pda != *obl.key {
        return Err(e(err::INVALID_PDA));
    }
    let b = [bump];
    create_pda_account(payer, obl, OBLIGATION_LEN, pid, &[&t, &n, owner.key.as_ref(), market.key.as_ref(), seed1.key.as_ref(), seed2.key.as_ref(), &b])?;
    let clock = Clock::get()?;
    let mut o: MinimalObligation = bytemuck::Zeroable::zeroed();
    o.tag = tag as u64;
    o.last_update_slot = clock.slot;
    o.last_update_stale = 1; // a new obligation must be refreshed before use
    o.lending_market = *market.key;
    o.owner = *owner.key;
    let mut d = obl.try_borrow_mut_data()?;
    d[..8].copy_from_slice(&OBLIGATION_DISCRIMINATOR);
    d[8..].copy_from_slice(bytemuck::bytes_of(&o));
    Ok(())
}

fn token_amount_of(ai: &AccountInfo) -> Result<u64, ProgramError> {
    let d = ai.try_borrow_data()?;
    if d.len() < 72 {
        return Err(ProgramError::InvalidAccountData);
    }
    Ok(u64::from_le_bytes(d[64..72].try_into().unwrap()))
}

fn transfer_checked_ix(token_program: &Pubkey, src: &Pubkey, mint: &Pubkey, dst: &Pubkey, auth: &Pubkey, amount: u64, decimals: u8) -> Result<Instruction, ProgramError> {
    if *token_program == spl_token::ID {
        spl_token::instruction::transfer_checked(token_program, src, mint, dst, auth, &[], amount, decimals)
    } else if *token_program == spl_token_2022::ID {
        spl_token_2022::instruction::transfer_checked(token_program, src, mint, dst, auth, &[], amount, decimals)
    } else {
        Err(ProgramError::IncorrectProgramId)
    }
}

struct Common<'a, 'b> {
    owner: &'b AccountInfo<'a>,
    obligation: &'b AccountInfo<'a>,
    market: &'b AccountInfo<'a>,
    lma: &'b AccountInfo<'a>,
    reserve: &'b AccountInfo<'a>,
    liq_mint: &'b AccountInfo<'a>,
    liq_supply: &'b AccountInfo<'a>,
    coll_mint: &'b AccountInfo<'a>,
    coll_vault: &'b AccountInfo<'a>,
    user_liq: &'b AccountInfo<'a>,
    liq_token_program: &'b AccountInfo<'a>,
}

/// the checks shared by deposit and withdraw; returns (reserve, obligation, lma bump, cfg, deposit index if any)
fn common_checks(pid: &Pubkey, c: &Common, slot: u64) -> Result<(MinimalReserve, MinimalObligation, u8, u8, Option<usize>), ProgramError> {
    if !c.owner.is_signer {
        return Err(ProgramError::MissingRequiredSignature);
    }
    let (bump, cfg) = check_market(pid, c.market)?;
    let r = load_reserve(pid, c.reserve)?;
    let o = load_obligation(pid, c.obligation)?;
    if o.owner != *c.owner.key {
        return Err(e(err::WRONG_AUTHORITY));
    }
    let lma = Pubkey::create_program_address(&[SEED_LMA, c.market.key.as_ref(), &[bump]], pid).map_err(|_| e(err::INVALID_PDA))?;
    if o.lending_market != *c.market.key
        || r.lending_market != *c.market.key
        || lma != *c.lma.key
        || r.mint_pubkey != *c.liq_mint.key
        || r.supply_vault != *c.liq_supply.key
        || r.collateral_mint_pubkey != *c.coll_mint.key
        || r.collateral_supply_vault != *c.coll_vault.key
        || r.token_program != *c.liq_token_program.key
        || *c.user_liq.key == *c.liq_supply.key
    {
        return Err(e(err::ACCOUNT_MISMATCH));
    }
    if cfg & CFG_LENIENT_REFRESH == 0 {
        if !reserve_fresh(&r, slot) {
            return Err(e(err::RESERVE_STALE));
        }
        if !obligation_fresh(&o, slot) {
            return Err(e(err::OBLIGATION_STALE));
        }
    }
    let idx = o.deposits.iter().position(|d| d.deposit_reserve == *c.reserve.key);
    Ok((r, o, bump, cfg, idx))
}

/// accounts (v1 = the first 14): owner (w,s), obligation (w), lending_market, lending_market_authority, reserve (w),
/// reserve_liquidity_mint, reserve_liquidity_supply (w), reserve_collateral_mint (w),
/// reserve_destination_deposit_collateral (w), user_source_liquidity (w), placeholder (opt), collateral_token_program,
/// liquidity_token_program, instruction_sysvar [, obligation_farm_user_state (opt), reserve_farm_state (opt), farms_program]
fn deposit(pid: &Pubkey, ais: &[AccountInfo], amount: u64) -> ProgramResult {
    need(ais, 14)?;
    if amount == 0 {
        return Err(e(err::ZERO_AMOUNT));
    }
    let c = Common {
        owner: &ais[0],
        obligation: &ais[1],
        market: &ais[2],
        lma: &ais[3],
        reserve: &ais[4],
        liq_mint: &ais[5],
        liq_supply: &ais[6],
        coll_mint: &ais[7],
        coll_vault: &ais[8],
        user_liq: &ais[9],
        liq_token_program: &ais[12],
    };
    if *ais[11].key != spl_token::ID {
        return Err(e(err::ACCOUNT_MISMATCH));
    }
    let clock = Clock::get()?;
    let (mut r, mut o, bump, cfg, idx) = common_checks(pid, &c, clock.slot)?;
    let idx = match idx {
        Some(i) => i,
        None => o.deposits.iter().position(|d| d.deposit_reserve == Pubkey::default()).ok_or(e(err::OBLIGATION_FULL))?,
    };
    let collateral = liq_to_col(&r, amount, cfg & CFG_EXACT_MATH != 0)?;
    if collateral == 0 {
        return Err(e(err::TOO_SMALL));
    }
    // liquidity: user source -> reserve supply vault, signed by the obligation owner
    let pre = token_amount_of(c.liq_supply)?;
    let ix = transfer_checked_ix(c.liq_token_program.key, c.user_liq.key, c.liq_mint.key, c.liq_supply.key, c.owner.key, amount, r.mint_decimals as u8)?;
    invoke_signed(&ix, &[c.user_liq.clone(), c.liq_mint.clone(), c.liq_supply.clone(), c.owner.clone()], &[])?;
    let post = token_amount_of(c.liq_supply)?;
    if post.checked_sub(pre) != Some(amount) {
        return Err(e(err::UNSUPPORTED_TOKEN));
    }
    // collateral: minted into the reserve's collateral vault by the market authority PDA
    let ix = spl_token::instruction::mint_to(&spl_token::ID, c.coll_mint.key, c.coll_vault.key, c.lma.key, &[], collateral)?;
    invoke_signed(&ix, &[c.coll_mint.clone(), c.coll_vault.clone(), c.lma.clone()], &[&[SEED_LMA, c.market.key.as_ref(), &[bump]]])?;
    r.available_amount = r.available_amount.checked_add(amount).ok_or(e(err::MATH))?;
    r.mint_total_supply = r.mint_total_supply.checked_add(collateral).ok_or(e(err::MATH))?;
    r.stale = 1;
    o.deposits[idx].deposit_reserve = *c.reserve.key;
    o.deposits[idx].deposited_amount = o.deposits[idx].deposited_amount.checked_add(collateral).ok_or(e(err::MATH))?;
    o.last_update_stale = 1;
    store_reserve(c.reserve, &r)?;
    store_obligation(c.obligation, &o)
}

/// accounts (v1 = the first 14): owner (w,s), obligation (w), lending_market, lending_market_authority,
/// withdraw_reserve (w), reserve_liquidity_mint, reserve_source_collateral (w), reserve_collateral_mint (w),
/// reserve_liquidity_supply (w), user_destination_liquidity (w), placeholder (opt), collateral_token_program,
/// liquidity_token_program, instruction_sysvar [, farms ...]
fn withdraw(pid: &Pubkey, ais: &[AccountInfo], collateral: u64) -> ProgramResult {
    need(ais, 14)?;
    if collateral == 0 {
        return Err(e(err::ZERO_AMOUNT));
    }
    let c = Common {
        owner: &ais[0],
        obligation: &ais[1],
        market: &ais[2],
        lma: &ais[3],
        reserve: &ais[4],
        liq_mint: &ais[5],
        coll_vault: &ais[6],
        coll_mint: &ais[7],
        liq_supply: &ais[8],
        user_liq: &ais[9],
        liq_token_program: &ais[12],
    };
    if *ais[11].key != spl_token::ID {
        return Err(e(err::ACCOUNT_MISMATCH));
    }
    let clock = Clock::get()?;
    let (mut r, mut o, bump, cfg, idx) = common_checks(pid, &c, clock.slot)?;
    let idx = idx.ok_or(e(err::INSUFFICIENT_COLLATERAL))?;
    if o.deposits[idx].deposited_amount < collateral {
        return Err(e(err::INSUFFICIENT_COLLATERAL));
    }
    let liquidity = col_to_liq(&r, collateral, cfg & CFG_EXACT_MATH != 0)?;
    if liquidity == 0 {
        return Err(e(err::TOO_SMALL));
    }
    if r.available_amount < liquidity {
        return Err(e(err::INSUFFICIENT_LIQUIDITY));
    }
    let seeds: &[&[u8]] = &[SEED_LMA, c.market.key.as_ref(), &[bump]];
    let ix = spl_token::instruction::burn(&spl_token::ID, c.coll_vault.key, c.coll_mint.key, c.lma.key, &[], collateral)?;
    invoke_signed(&ix, &[c.coll_vault.clone(), c.coll_mint.clone(), c.lma.clone()], &[seeds])?;
    let ix = transfer_checked_ix(c.liq_token_program.key, c.liq_supply.key, c.liq_mint.key, c.user_liq.key, c.lma.key, liquidity, r.mint_decimals as u8)?;
    invoke_signed(&ix, &[c.liq_supply.clone(), c.liq_mint.clone(), c.user_liq.clone(), c.lma.clone()], &[seeds])?;
    r.available_amount -= liquidity;
    r.mint_total_supply = r.mint_total_supply.checked_sub(collateral).ok_or(e(err::MATH))?;
    r.stale = 1;
    o.deposits[idx].deposited_amount -= collateral;
    if o.deposits[idx].deposited_amount == 0 {
        // the real venue drops an emptied deposit entry
        o.deposits[idx] = bytemuck::Zeroable::zeroed();
    }
    o.last_update_stale = 1;
    store_reserve(c.reserve, &r)?;
    store_obligation(c.obligation, &o)
}

// ------------------------------------------------------------------------------------------
// world helpers
// ------------------------------------------------------------------------------------------
/// Venue-side state of a fabricated reserve ("the other users of the venue") and knobs of the fake.
#[derive(Clone, Debug, PartialEq)]
pub struct VenueSpec {
    /// liquidity of other depositors sitting in the reserve's supply vault (native units)
    pub other_available: u64,
    /// liquidity lent out to the venue's borrowers (native units); `accrue` grows this
    pub other_borrowed: u64,
    /// collateral (cToken) supply held by other depositors (native units)
    pub other_collateral: u64,
    /// amount of `kamino_init_obligation` (>= 10), paid by the group admin from a fabricated token account
    pub init_amount: u64,
    pub lenient_refresh: bool,
    pub exact_math: bool,
}
impl Default for VenueSpec {
    fn default() -> Self {
        // exchange rate (5e12 + 3e12) / 7.3e12 ~ 1.0959 underlying per collateral unit
        VenueSpec { other_available: 5_000_000_000_000, other_borrowed: 3_000_000_000_000, other_collateral: 7_300_000_000_123, init_amount: 1_000, lenient_refresh: false, exact_math: false }
    }
}

/// All venue-side accounts of a Kamino bank (derived from the store).
#[derive(Clone, Debug)]
pub struct VenueBank {
    pub bank: Pubkey,
    pub reserve: Pubkey,
    pub lending_market: Pubkey,
    pub lending_market_authority: Pubkey,
    pub obligation: Pubkey,
    pub obligation_owner: Pubkey,
    pub user_metadata: Pubkey,
    pub liquidity_mint: Pubkey,
    pub liquidity_token_program: Pubkey,
    pub liquidity_supply: Pubkey,
    pub fee_vault: Pubkey,
    pub collateral_mint: Pubkey,
    pub collateral_supply: Pubkey,
}

pub fn read_reserve(vm: &Vm, k: &Pubkey) -> Option<MinimalReserve> {
    let a = vm.get(k)?;
    if a.owner != program_id() || a.data.len() != RESERVE_LEN || a.data[..8] != RESERVE_DISCRIMINATOR {
        return None;
    }
    Some(bytemuck::pod_read_unaligned::<MinimalReserve>(&a.data[8..]))
}
pub fn read_obligation(vm: &Vm, k: &Pubkey) -> Option<MinimalObligation> {
    let a = vm.get(k)?;
    if a.owner != program_id() || a.data.len() != OBLIGATION_LEN || a.data[..8] != OBLIGATION_DISCRIMINATOR {
        return None;
    }
    Some(bytemuck::pod_read_unaligned::<MinimalObligation>(&a.data[8..]))
}

/// venue accounts of bank `bank` (must be a Kamino bank created by `add_bank`)
pub fn venue_bank(w: &World, bank: usize) -> VenueBank {
    venue_of(&w.vm, &w.banks[bank])
}
pub fn venue_of(vm: &Vm, b: &BankInfo) -> VenueBank {
    let mb = world::read_bank(vm, &b.key);
    let reserve = mb.integration_acc_1;
    let r = read_reserve(vm, &reserve).expect("kamino reserve");
    VenueBank {
        bank: b.key,
        reserve,
        lending_market: r.lending_market,
        lending_market_authority: lma_pda(&r.lending_market).0,
        obligation: mb.integration_acc_2,
        obligation_owner: b.lv_auth,
        user_metadata: user_meta_pda(&b.lv_auth).0,
        liquidity_mint: r.mint_pubkey,
        liquidity_token_program: r.token_program,
        liquidity_supply: r.supply_vault,
        fee_vault: r.fee_vault,
        collateral_mint: r.collateral_mint_pubkey,
        collateral_supply: r.collateral_supply_vault,
    }
}
/// is bank `i` of the world a Kamino bank?
pub fn is_venue_bank(w: &World, i: usize) -> bool {
    w.banks[i].spec.asset_tag == marginfi_type_crate::constants::ASSET_TAG_KAMINO
}

fn mfi_ix(accounts: Vec<AccountMeta>, data: Vec<u8>) -> Instruction {
    Instruction { program_id: marginfi::ID, accounts, data }
}

fn coll_mint_acct(authority: Pubkey, supply: u64) -> Acct {
    let mut md = vec![0u8; spl_token::state::Mint::LEN];
    spl_token::state::Mint { mint_authority: COption::Some(authority), supply, decimals: 6, is_initialized: true, freeze_authority: COption::None }.pack_into_slice(&mut md);
    Acct { lamports: 1_000_000_000, data: md, owner: spl_token::ID, executable: false }
}

fn rent_sysvar_acct() -> Acct {
    // bincode(Rent): lamports_per_byte_year u64 | exemption_threshold f64 | burn_percent u8
    let r = Rent::default();
    let mut d = Vec::with_capacity(17);
    d.extend_from_slice(&r.lamports_per_byte_year.to_le_bytes());
    d.extend_from_slice(&r.exemption_threshold.to_le_bytes());
    d.push(r.burn_percent);
    Acct { lamports: 1_009_200, data: d, owner: solana_program::sysvar::ID, executable: false }
}

/// `add_bank` with the default `VenueSpec`.
pub fn add_bank(w: &mut World, spec: &BankSpec) -> Result<usize, String> {
    add_bank_with(w, spec, &VenueSpec::default())
}

/// Create a Kamino bank as bank index `w.banks.len()`: fabricates the mint (`kp("mint", i)`), the price feed
/// (`kp("oracle", i)`; `spec.oracle.kind` 1 = KaminoPythPush, 2 = KaminoSwitchboardPull), the venue's lending market
/// (`kp("kamino_market", i)`), reserve (`kp("kamino_reserve", i)`, fresh at the current slot) and the reserve's token
/// accounts (PDAs of the venue program owned by the market-authority PDA), then runs the real
/// `lending_pool_add_bank_kamino` (group admin; bank = PDA[group, mint, seed = i]) and `kamino_init_obligation`
/// (group admin pays `venue.init_amount` from `kp("kamino_init_src", i)`), then e-mode / operational state as the
/// spec asks. Fields of `BankSpec` without a meaning for a Kamino bank (liability weights, borrow limit, curve,
/// staked) are ignored; `asset_tag` is forced to KAMINO.
pub fn add_bank_with(w: &mut World, spec: &BankSpec, venue: &VenueSpec) -> Result<usize, String> {
    register();
    let i = w.banks.len();
    let n = i as u64;
    let setup = match spec.oracle.kind {
        1 => OracleSetup::KaminoPythPush,
        2 => OracleSetup::KaminoSwitchboardPull,
        k => return Err(format!("kamino bank needs a Pyth (1) or Switchboard (2) oracle, got kind {k}")),
    };
    if venue.init_amount < 10 {
        return Err("init_amount must be >= 10".into());
    }
    let pid = program_id();
    // the venue program account exists already (svm registers the id as executable); make sure anyway
    w.vm.set(pid, Acct { lamports: 1, executable: true, owner: solana_program::bpf_loader::ID, data: vec![] });
    if w.vm.get(&solana_program::sysvar::rent::ID).is_none() {
        w.vm.set(solana_program::sysvar::rent::ID, rent_sysvar_acct());
    }
    // mint
    let mint = kp("mint", n);
    let token_program = if spec.token == 0 { spl_token::ID } else { spl_token_2022::ID };
    match spec.token {
        0 => w.vm.set(mint, world::spl_mint_acct(spec.decimals)),
        1 => w.vm.set(mint, world::t22_mint_acct(spec.decimals, None)),
        _ => w.vm.set(mint, world::t22_mint_acct(spec.decimals, Some((spec.fee_bps, spec.fee_max)))),
    }
    let seed = n;
    let bank = Pubkey::find_program_address(&[w.group.as_ref(), mint.as_ref(), &seed.to_le_bytes()], &marginfi::ID).0;
    let mut bspec = spec.clone();
    bspec.asset_tag = marginfi_type_crate::constants::ASSET_TAG_KAMINO;
    bspec.borrow_limit = 0;
    bspec.staked = None;
    let oracle_key = kp("oracle", n);
    let reserve = kp("kamino_reserve", n);
    let info = BankInfo {
        key: bank,
        mint,
        token_program,
        decimals: spec.decimals,
        oracle_kind: spec.oracle.kind,
        oracle_key,
        oracle_extra: vec![reserve],
        lv: world::bank_pda("liquidity_vault", &bank),
        lv_auth: world::bank_pda("liquidity_vault_auth", &bank),
        iv: world::bank_pda("insurance_vault", &bank),
        iv_auth: world::bank_pda("insurance_vault_auth", &bank),
        fv: world::bank_pda("fee_vault", &bank),
        fv_auth: world::bank_pda("fee_vault_auth", &bank),
        fee_ata: world::ata(&w.fee_wallet, &mint, &token_program),
        spec: bspec,
    };
    let ata_acct = w.make_token_acct(&info, w.fee_wallet, 0);
    w.vm.set(info.fee_ata, ata_acct);
    // oracle
    let now = w.vm.now();
    w.vm.set(oracle_key, spec.oracle.account(now).ok_or("oracle account")?);
    // venue side: market, reserve, vaults
    let market = kp("kamino_market", n);
    let (lma, lma_bump) = lma_pda(&market);
    let mut md = vec![0u8; MARKET_LEN];
    md[..8].copy_from_slice(&market_discriminator());
    md[8..16].copy_from_slice(&1u64.to_le_bytes());
    md[MARKET_BUMP_OFF..MARKET_BUMP_OFF + 8].copy_from_slice(&(lma_bump as u64).to_le_bytes());
    md[MARKET_OWNER_OFF..MARKET_OWNER_OFF + 32].copy_from_slice(kp("kamino_market_owner", 0).as_ref());
    md[MARKET_CFG_OFF] = (if venue.lenient_refresh { CFG_LENIENT_REFRESH } else { 0 }) | (if venue.exact_math { CFG_EXACT_MATH } else { 0 });
    w.vm.set(market, Acct { lamports: 1_000_000_000, data: md, owner: pid, executable: false });
    let liq_supply = reserve_pda(SEED_LIQ_SUPPLY, &reserve);
    let fee_vault = reserve_pda(SEED_FEE_RECEIVER, &reserve);
    let coll_mint = reserve_pda(SEED_COLL_MINT, &reserve);
    let coll_supply = reserve_pda(SEED_COLL_SUPPLY, &reserve);
    let a = w.make_token_acct(&info, lma, venue.other_available);
    w.vm.set(liq_supply, a);
    let a = w.make_token_acct(&info, lma, 0);
    w.vm.set(fee_vault, a);
    w.vm.set(coll_mint, coll_mint_acct(lma, venue.other_collateral));
    w.vm.set(coll_supply, world::spl_token_acct(coll_mint, lma, venue.other_collateral));
    let mut r: MinimalReserve = bytemuck::Zeroable::zeroed();
    r.version = 1;
    r.slot = w.vm.clock.slot;
    r.stale = 0;
    r.price_status = 63;
    r.lending_market = market;
    r.mint_pubkey = mint;
    r.supply_vault = liq_supply;
    r.fee_vault = fee_vault;
    r.available_amount = venue.other_available;
    r.borrowed_amount_sf = ((venue.other_borrowed as u128) << 60).to_le_bytes();
    r.mint_decimals = spec.decimals as u64;
    r.token_program = token_program;
    r.collateral_mint_pubkey = coll_mint;
    r.mint_total_supply = venue.other_collateral;
    r.collateral_supply_vault = coll_supply;
    let mut rd = RESERVE_DISCRIMINATOR.to_vec();
    rd.extend_from_slice(bytemuck::bytes_of(&r));
    w.vm.set(reserve, Acct { lamports: 1_000_000_000, data: rd, owner: pid, executable: false });

    // the marginfi bank, through the real instruction
    let admin = w.roles.admin;
    let obligation = obligation_pda(0, 0, &info.lv_auth, &market, &system_program::ID, &system_program::ID).0;
    let cfg = marginfi::state::kamino::KaminoConfigCompact {
        oracle: oracle_key,
        asset_weight_init: world::w_mill(spec.aw_i),
        asset_weight_maint: world::w_mill(spec.aw_m),
        deposit_limit: spec.deposit_limit,
        oracle_setup: setup,
        operational_state: marginfi_type_crate::types::BankOperationalState::Operational,
        risk_tier: if spec.isolated { RiskTier::Isolated } else { RiskTier::Collateral },
        config_flags: marginfi_type_crate::constants::PYTH_PUSH_MIGRATED_DEPRECATED,
        total_asset_value_init_limit: spec.init_limit,
        oracle_max_age: spec.oracle.max_age,
        oracle_max_confidence: spec.oracle.max_conf,
    };
    let mut m = marginfi::accounts::LendingPoolAddBankKamino {
        group: w.group,
        admin,
        fee_payer: admin,
        bank_mint: mint,
        bank,
        integration_acc_1: reserve,
        integration_acc_2: obligation,
        liquidity_vault_authority: info.lv_auth,
        liquidity_vault: info.lv,
        insurance_vault_authority: info.iv_auth,
        insurance_vault: info.iv,
        fee_vault_authority: info.fv_auth,
        fee_vault: info.fv,
        token_program,
        system_program: system_program::ID,
    }
    .to_account_metas(Some(true));
    m.push(AccountMeta::new_readonly(oracle_key, false));
    m.push(AccountMeta::new_readonly(reserve, false));
    let ix = mfi_ix(m, marginfi::instruction::LendingPoolAddBankKamino { bank_config: cfg, bank_seed: seed }.data());
    w.vm.exec(&ix).map_err(|e| format!("lending_pool_add_bank_kamino {i}: {e:?} panic={:?}", svm::last_panic()))?;
    w.banks.push(info.clone());
    for u in 0..w.users.len() {
        let k = kp("uta", (u as u64) << 16 | n);
        let a = w.make_token_acct(&info, w.users[u].auth, w.spec.user_tokens);
        w.vm.set(k, a);
        // keep `tokens[bank index]` aligned even if earlier banks were added without token accounts
        while w.users[u].tokens.len() < i {
            w.users[u].tokens.push(Pubkey::default());
        }
        w.users[u].tokens.push(k);
    }

    // the obligation, through the real instruction
    let src = kp("kamino_init_src", n);
    let a = w.make_token_acct(&info, admin, venue.init_amount);
    w.vm.set(src, a);
    let ix = ix_init_obligation(w, i, admin, src, venue.init_amount);
    w.vm.exec(&ix).map_err(|e| format!("kamino_init_obligation {i}: {e:?} panic={:?}", svm::last_panic()))?;

    if spec.emode_tag != 0 || !spec.emode_entries.is_empty() {
        let ix = w.ix_config_emode(i, spec.emode_tag, &spec.emode_entries, w.roles.emode);
        w.vm.exec(&ix).map_err(|e| format!("emode kamino bank {i}: {e:?}"))?;
    }
    let mut opt = BankConfigOpt::default();
    let mut need_cfg = false;
    if spec.op_state != 1 {
        opt.operational_state = Some(world::op_state(spec.op_state));
        need_cfg = true;
    }
    if spec.permissionless_bad_debt {
        opt.permissionless_bad_debt_settlement = Some(true);
        need_cfg = true;
    }
    if need_cfg {
        let ix = w.ix_configure_bank(i, opt, admin);
        w.vm.exec(&ix).map_err(|e| format!("configure kamino bank {i}: {e:?}"))?;
    }
    Ok(i)
}

/// venue account keys of a bank that may not be initialised yet (only needs `BankInfo` + the reserve account).
/// `full` = also derive `user_metadata` (a `find_program_address`; only `kamino_init_obligation` needs it).
fn venue_keys_opt(w: &World, bank: usize, full: bool) -> VenueBank {
    let b = &w.banks[bank];
    let reserve = b.oracle_extra[0];
    let r = read_reserve(&w.vm, &reserve).expect("kamino reserve");
    // cheap derivations on the hot path: the market records the authority's bump, the marginfi bank the obligation
    let md = w.vm.data(&r.lending_market);
    let lma = if md.len() == MARKET_LEN {
        Pubkey::create_program_address(&[SEED_LMA, r.lending_market.as_ref(), &[md[MARKET_BUMP_OFF]]], &program_id()).unwrap_or_else(|_| lma_pda(&r.lending_market).0)
    } else {
        lma_pda(&r.lending_market).0
    };
    let obligation = match world::try_read_bank(&w.vm, &b.key) {
        Some(mb) if mb.integration_acc_2 != Pubkey::default() => mb.integration_acc_2,
        _ => obligation_pda(0, 0, &b.lv_auth, &r.lending_market, &system_program::ID, &system_program::ID).0,
    };
    VenueBank {
        bank: b.key,
        reserve,
        lending_market: r.lending_market,
        lending_market_authority: lma,
        obligation,
        obligation_owner: b.lv_auth,
        user_metadata: if full { user_meta_pda(&b.lv_auth).0 } else { Pubkey::default() },
        liquidity_mint: r.mint_pubkey,
        liquidity_token_program: r.token_program,
        liquidity_supply: r.supply_vault,
        fee_vault: r.fee_vault,
        collateral_mint: r.collateral_mint_pubkey,
        collateral_supply: r.collateral_supply_vault,
    }
}

fn venue_keys(w: &World, bank: usize) -> VenueBank {
    venue_keys_opt(w, bank, false)
}

/// `kamino_init_obligation` (permissionless): `payer` funds the accounts and `amount` tokens from `src`
pub fn ix_init_obligation(w: &World, bank: usize, payer: Pubkey, src: Pubkey, amount: u64) -> Instruction {
    let b = &w.banks[bank];
    let v = venue_keys_opt(w, bank, true);
    mfi_ix(
        marginfi::accounts::KaminoInitObligation {
            fee_payer: payer,
            bank: b.key,
            signer_token_account: src,
            liquidity_vault_authority: b.lv_auth,
            liquidity_vault: b.lv,
            integration_acc_2: v.obligation,
            user_metadata: v.user_metadata,
            lending_market: v.lending_market,
            lending_market_authority: v.lending_market_authority,
            integration_acc_1: v.reserve,
            mint: b.mint,
            reserve_liquidity_supply: v.liquidity_supply,
            reserve_collateral_mint: v.collateral_mint,
            reserve_destination_deposit_collateral: v.collateral_supply,
            pyth_oracle: None,
            switchboard_price_oracle: None,
            switchboard_twap_oracle: None,
            scope_prices: None,
            obligation_farm_user_state: None,
            reserve_farm_state: None,
            kamino_program: program_id(),
            farms_program: farms_program_id(),
            collateral_token_program: spl_token::ID,
            liquidity_token_program: b.token_program,
            instruction_sysvar_account: solana_program::sysvar::instructions::ID,
            rent: solana_program::sysvar::rent::ID,
            system_program: system_program::ID,
        }
        .to_account_metas(Some(true)),
        marginfi::instruction::KaminoInitObligation { amount }.data(),
    )
}

/// `kamino_deposit` of `amount` LIQUIDITY units by user `user` (its authority signs, its token account of the bank
/// is the source) into marginfi account `acct`
pub fn ix_deposit(w: &World, user: usize, acct: &Pubkey, bank: usize, amount: u64) -> Instruction {
    ix_deposit_with(w, acct, w.users[user].auth, w.users[user].tokens[bank], bank, amount)
}
pub fn ix_deposit_with(w: &World, acct: &Pubkey, signer: Pubkey, src: Pubkey, bank: usize, amount: u64) -> Instruction {
    let b = &w.banks[bank];
    let v = venue_keys(w, bank);
    mfi_ix(
        marginfi::accounts::KaminoDeposit {
            group: w.group,
            marginfi_account: *acct,
            authority: signer,
            bank: b.key,
            signer_token_account: src,
            liquidity_vault_authority: b.lv_auth,
            liquidity_vault: b.lv,
            integration_acc_2: v.obligation,
            lending_market: v.lending_market,
            lending_market_authority: v.lending_market_authority,
            integration_acc_1: v.reserve,
            mint: b.mint,
            reserve_liquidity_supply: v.liquidity_supply,
            reserve_collateral_mint: v.collateral_mint,
            reserve_destination_deposit_collateral: v.collateral_supply,
            obligation_farm_user_state: None,
            reserve_farm_state: None,
            kamino_program: program_id(),
            farms_program: farms_program_id(),
            collateral_token_program: spl_token::ID,
            liquidity_token_program: b.token_program,
            instruction_sysvar_account: solana_program::sysvar::instructions::ID,
        }
        .to_account_metas(Some(true)),
        marginfi::instruction::KaminoDeposit { amount }.data(),
    )
}

/// `kamino_withdraw` of `amount` COLLATERAL units (`all` = the whole position) from marginfi account `acct`, signed by
/// `signer`, underlying tokens to `dest`; the risk engine's accounts are appended as `World::ix_withdraw` does
/// (`all` = the bank's own observation accounts are left out). `user` is unused apart from documentation symmetry
/// with `ix_deposit` (kept for the signature the brief asks for).
pub fn ix_withdraw(w: &World, _user: usize, acct: &Pubkey, bank: usize, amount: u64, all: bool, signer: Pubkey, dest: Pubkey) -> Instruction {
    let risk = w.risk_metas(acct, None, if all { Some(w.banks[bank].key) } else { None });
    ix_withdraw_with(w, acct, bank, amount, all, signer, dest, risk)
}
pub fn ix_withdraw_with(w: &World, acct: &Pubkey, bank: usize, amount: u64, all: bool, signer: Pubkey, dest: Pubkey, risk: Vec<AccountMeta>) -> Instruction {
    let b = &w.banks[bank];
    let v = venue_keys(w, bank);
    let mut m = marginfi::accounts::KaminoWithdraw {
        group: w.group,
        marginfi_account: *acct,
        authority: signer,
        bank: b.key,
        destination_token_account: dest,
        liquidity_vault_authority: b.lv_auth,
        liquidity_vault: b.lv,
        integration_acc_2: v.obligation,
        lending_market: v.lending_market,
        lending_market_authority: v.lending_market_authority,
        integration_acc_1: v.reserve,
        reserve_liquidity_mint: b.mint,
        reserve_liquidity_supply: v.liquidity_supply,
        reserve_collateral_mint: v.collateral_mint,
        reserve_source_collateral: v.collateral_supply,
        obligation_farm_user_state: None,
        reserve_farm_state: None,
        kamino_program: program_id(),
        farms_program: farms_program_id(),
        collateral_token_program: spl_token::ID,
        liquidity_token_program: b.token_program,
        instruction_sysvar_account: solana_program::sysvar::instructions::ID,
    }
    .to_account_metas(Some(true));
    m.extend(risk);
    mfi_ix(m, marginfi::instruction::KaminoWithdraw { amount, withdraw_all: if all { Some(true) } else { None } }.data())
}

/// The venue's own refresh instructions a client puts at the top of a transaction: `refresh_reserve`, then
/// `refresh_obligation` (with the reserve as the obligation's only deposit reserve).
pub fn refresh_ixs(w: &World, bank: usize) -> Vec<Instruction> {
    let v = venue_keys(w, bank);
    let pid = program_id();
    let mut rr = vec![AccountMeta::new(v.reserve, false), AccountMeta::new_readonly(v.lending_market, false)];
    for _ in 0..4 {
        rr.push(AccountMeta::new_readonly(pid, false)); // optional oracle accounts: None
    }
    let mut ro = vec![AccountMeta::new_readonly(v.lending_market, false), AccountMeta::new(v.obligation, false)];
    let has_deposit = read_obligation(&w.vm, &v.obligation).map(|o| o.deposits.iter().any(|d| d.deposit_reserve == v.reserve)).unwrap_or(false);
    if has_deposit {
        ro.push(AccountMeta::new_readonly(v.reserve, false));
    }
    vec![
        Instruction { program_id: pid, accounts: rr, data: kargs::RefreshReserve {}.data() },
        Instruction { program_id: pid, accounts: ro, data: kargs::RefreshObligation {}.data() },
    ]
}

/// stamp reserve and obligation as refreshed at the current slot directly in the store
pub fn refresh_direct(w: &mut World, bank: usize) {
    let v = venue_keys(w, bank);
    let slot = w.vm.clock.slot;
    w.vm.modify(&v.reserve, |a| {
        a.data[R_SLOT..R_SLOT + 8].copy_from_slice(&slot.to_le_bytes());
        a.data[R_STALE] = 0;
        a.data[R_STALE + 1] = 63;
    });
    if w.vm.get(&v.obligation).is_some() {
        w.vm.modify(&v.obligation, |a| {
            a.data[16..24].copy_from_slice(&slot.to_le_bytes());
            a.data[24] = 0;
            a.data[25] = 63;
        });
    }
}

/// one transaction: the bank's refresh instructions followed by `ixs`
pub fn exec_refreshed(w: &mut World, bank: usize, ixs: &[Instruction]) -> TxOutcome {
    let mut v = refresh_ixs(w, bank);
    v.extend_from_slice(ixs);
    w.vm.exec_tx(&v)
}

/// Interest knob (the outside world acting): the venue's borrowers owe `factor_ppm` millionths more, i.e.
/// `borrowed_amount_sf *= 1 + factor_ppm / 1e6` (floor), so each collateral unit is worth more underlying.
/// Does not touch freshness. No effect if nothing is borrowed.
pub fn accrue(vm: &mut Vm, bank: &VenueBank, factor_ppm: u64) {
    vm.modify(&bank.reserve, |a| {
        let b = u128::from_le_bytes(a.data[R_BORROWED_SF..R_BORROWED_SF + 16].try_into().unwrap());
        let nb = (BigUint::from(b) * BigUint::from(1_000_000u64 + factor_ppm)) / BigUint::from(1_000_000u64);
        let nb = nb.to_u128().unwrap_or(u128::MAX);
        a.data[R_BORROWED_SF..R_BORROWED_SF + 16].copy_from_slice(&nb.to_le_bytes());
    });
}

/// Loss knob (the outside world acting): the venue writes off `factor_ppm` millionths of what its borrowers owe
/// (`borrowed_amount_sf *= 1 - factor_ppm / 1e6`, floor, never below the fee fields' sum), so each collateral unit is
/// worth LESS underlying; enough of it puts the reserve below par (liquidity < collateral supply). Freshness untouched.
pub fn loss(vm: &mut Vm, bank: &VenueBank, factor_ppm: u64) {
    let factor_ppm = factor_ppm.min(1_000_000);
    vm.modify(&bank.reserve, |a| {
        let rd = |o: usize| u128::from_le_bytes(a.data[o..o + 16].try_into().unwrap());
        let b = rd(R_BORROWED_SF);
        let fees = rd(R_PROT_FEES_SF).saturating_add(rd(R_REF_FEES_SF)).saturating_add(rd(R_PENDING_REF_FEES_SF));
        let nb = (BigUint::from(b) * BigUint::from(1_000_000u64 - factor_ppm)) / BigUint::from(1_000_000u64);
        let nb = nb.to_u128().unwrap_or(u128::MAX).max(fees.min(b));
        a.data[R_BORROWED_SF..R_BORROWED_SF + 16].copy_from_slice(&nb.to_le_bytes());
    });
}

/// Exact underlying-per-collateral-unit exchange rate (native liquidity units per native collateral unit) as
/// (numerator, denominator), from the raw reserve bytes:
/// `(available * 2^60 + borrowed_sf - protocol_fees_sf - referrer_fees_sf - pending_referrer_fees_sf) / (collateral_supply * 2^60)`.
/// An empty reserve (collateral supply 0) has rate 1/1 (marginfi applies no adjustment, the venue mints 1:1).
pub fn exact_rate(vm: &Vm, bank: &BankInfo) -> (BigInt, BigInt) {
    let d = vm.data(&bank.oracle_extra[0]);
    assert!(d.len() == RESERVE_LEN, "not a kamino reserve");
    let u64at = |o: usize| BigInt::from(u64::from_le_bytes(d[o..o + 8].try_into().unwrap()));
    let u128at = |o: usize| BigInt::from(u128::from_le_bytes(d[o..o + 16].try_into().unwrap()));
    let supply = u64at(R_COLL_SUPPLY);
    if supply.is_zero() {
        return (BigInt::from(1), BigInt::from(1));
    }
    let num = (u64at(R_AVAILABLE) << 60u32) + u128at(R_BORROWED_SF) - u128at(R_PROT_FEES_SF) - u128at(R_REF_FEES_SF) - u128at(R_PENDING_REF_FEES_SF);
    (num, supply << 60u32)
}

/// collateral units the bank's obligation holds in the venue
pub fn obligation_collateral(w: &World, bank: usize) -> u64 {
    let v = venue_keys(w, bank);
    read_obligation(&w.vm, &v.obligation).map(|o| o.deposits.iter().filter(|d| d.deposit_reserve == v.reserve).map(|d| d.deposited_amount).sum()).unwrap_or(0)
}
