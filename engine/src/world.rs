//! Scenario builder and instruction catalogue. All program-owned state is created through real
//! instructions; mints, token accounts, oracle accounts and funded wallets are fabricated.
use crate::svm::{Acct, Vm};
use anchor_lang::{AnchorSerialize, Discriminator, InstructionData, ToAccountMetas};
use fixed::types::I80F48;
use marginfi_type_crate::types::{
    Bank, BankConfigCompact, BankConfigOpt, BankOperationalState, EmodeEntry, InterestRateConfigCompact, InterestRateConfigOpt,
    MarginfiAccount, MarginfiGroup, RatePoint, RiskTier, WrappedI80F48, MAX_EMODE_ENTRIES,
};
use serde::{Deserialize, Serialize};
use solana_program::{
    entrypoint::ProgramResult,
    instruction::{AccountMeta, Instruction},
    program_pack::Pack,
    pubkey::Pubkey,
    system_program,
};

pub const START_TIME: i64 = 1_700_000_000;

pub fn kp(tag: &str, n: u64) -> Pubkey {
    let h = solana_program::hash::hashv(&[b"mfv", tag.as_bytes(), &n.to_le_bytes()]);
    Pubkey::new_from_array(h.to_bytes())
}

pub fn millionths(x: u32) -> I80F48 {
    I80F48::from_num(x) / I80F48::from_num(1_000_000)
}
pub fn w_mill(x: u32) -> WrappedI80F48 {
    millionths(x).into()
}

// ------------------------------------------------------------------------------------------
// Specs (serde: these are what replay files contain)
// ------------------------------------------------------------------------------------------
#[derive(Clone, Debug, Serialize, Deserialize, PartialEq)]
pub struct CurveSpec {
    pub zero: u32,
    pub hundred: u32,
    pub points: Vec<(u32, u32)>,
    /// millionths
    pub ins_fixed: u32,
    pub ins_ir: u32,
    pub prot_fixed: u32,
    pub prot_ir: u32,
    pub orig: u32,
}
impl Default for CurveSpec {
    fn default() -> Self {
        CurveSpec { zero: 0, hundred: 429_496_729, points: vec![], ins_fixed: 0, ins_ir: 0, prot_fixed: 0, prot_ir: 0, orig: 0 }
    }
}

#[derive(Clone, Debug, Serialize, Deserialize, PartialEq)]
pub struct OracleSpec {
    /// 0 = Fixed, 1 = Pyth push, 2 = Switchboard pull, 3 = staked (the group's SOL Pyth push feed scaled by the
    /// LST rate of the bank's single-validator pool, see `BankSpec::staked`)
    pub kind: u8,
    /// price = mant * 10^expo ; conf likewise
    pub mant: i64,
    pub expo: i32,
    pub conf: u64,
    pub ema_mant: i64,
    pub ema_conf: u64,
    pub max_age: u16,
    pub max_conf: u32,
}
impl OracleSpec {
    pub fn fixed(mant: i64, expo: i32) -> Self {
        OracleSpec { kind: 0, mant, expo, conf: 0, ema_mant: mant, ema_conf: 0, max_age: 100, max_conf: 0 }
    }
    pub fn pyth(mant: i64, expo: i32, conf: u64) -> Self {
        OracleSpec { kind: 1, mant, expo, conf, ema_mant: mant, ema_conf: conf, max_age: 100, max_conf: 0 }
    }
}

#[derive(Clone, Debug, Serialize, Deserialize, PartialEq)]
pub struct EmodeEntrySpec {
    pub tag: u16,
    pub flags: u8,
    /// millionths
    pub init: u32,
    pub maint: u32,
}

/// A staked-collateral bank (asset tag STAKED, created through `lending_pool_add_bank_permissionless`): the LST
/// mint's supply and the single-validator pool's delegated stake (lamports, includes the pool's own 1 SOL).
#[derive(Clone, Debug, Serialize, Deserialize, PartialEq)]
pub struct StakedSpec {
    pub supply: u64,
    pub stake: u64,
}

#[derive(Clone, Debug, Serialize, Deserialize, PartialEq)]
pub struct BankSpec {
    pub decimals: u8,
    /// 0 = SPL Token, 1 = Token-2022 plain, 2 = Token-2022 with transfer fee
    pub token: u8,
    pub fee_bps: u16,
    pub fee_max: u64,
    /// weights in millionths
    pub aw_i: u32,
    pub aw_m: u32,
    pub lw_i: u32,
    pub lw_m: u32,
    pub isolated: bool,
    pub deposit_limit: u64,
    pub borrow_limit: u64,
    pub init_limit: u64,
    pub curve: CurveSpec,
    pub oracle: OracleSpec,
    pub emode_tag: u16,
    pub emode_entries: Vec<EmodeEntrySpec>,
    /// 0 default, 1 SOL
    pub asset_tag: u8,
    /// 0 Paused, 1 Operational, 2 ReduceOnly
    pub op_state: u8,
    pub permissionless_bad_debt: bool,
    /// Some = staked-collateral bank: `oracle` must be kind 3 (it describes the group's SOL feed, shared by all
    /// staked banks of the group); weights / limits / max age of the FIRST staked bank become the group's staked
    /// settings; decimals are 9, the mint is the pool's SPL LST mint
    #[serde(default)]
    pub staked: Option<StakedSpec>,
}
impl Default for BankSpec {
    fn default() -> Self {
        BankSpec {
            decimals: 6,
            token: 0,
            fee_bps: 0,
            fee_max: 0,
            aw_i: 500_000,
            aw_m: 750_000,
            lw_i: 1_500_000,
            lw_m: 1_250_000,
            isolated: false,
            deposit_limit: u64::MAX,
            borrow_limit: u64::MAX,
            init_limit: 0,
            curve: CurveSpec::default(),
            oracle: OracleSpec::fixed(1, 0),
            emode_tag: 0,
            emode_entries: vec![],
            asset_tag: 0,
            op_state: 1,
            permissionless_bad_debt: false,
            staked: None,
        }
    }
}

#[derive(Clone, Debug, Serialize, Deserialize, PartialEq)]
pub struct WorldSpec {
    /// millionths
    pub program_fee_fixed: u32,
    pub program_fee_rate: u32,
    pub program_fees_enabled: bool,
    pub bank_init_flat_sol_fee: u32,
    pub liq_flat_sol_fee: u32,
    /// millionths
    pub liq_max_fee: u32,
    pub banks: Vec<BankSpec>,
    pub n_users: u8,
    /// initial token balance of every user in every mint
    pub user_tokens: u64,
    /// give each role its own key (true) or make the group admin hold every role (false)
    pub distinct_roles: bool,
}
impl Default for WorldSpec {
    fn default() -> Self {
        WorldSpec {
            program_fee_fixed: 0,
            program_fee_rate: 0,
            program_fees_enabled: false,
            bank_init_flat_sol_fee: 5000,
            liq_flat_sol_fee: 0,
            liq_max_fee: 50_000,
            banks: vec![BankSpec::default()],
            n_users: 2,
            user_tokens: 1 << 62,
            distinct_roles: true,
        }
    }
}

// ------------------------------------------------------------------------------------------
// World
// ------------------------------------------------------------------------------------------
#[derive(Clone, Debug)]
pub struct BankInfo {
    pub key: Pubkey,
    pub mint: Pubkey,
    pub token_program: Pubkey,
    pub decimals: u8,
    pub oracle_kind: u8,
    pub oracle_key: Pubkey,
    /// further oracle accounts after `oracle_key` (staked banks: LST mint, SOL pool)
    pub oracle_extra: Vec<Pubkey>,
    pub lv: Pubkey,
    pub lv_auth: Pubkey,
    pub iv: Pubkey,
    pub iv_auth: Pubkey,
    pub fv: Pubkey,
    pub fv_auth: Pubkey,
    pub fee_ata: Pubkey,
    pub spec: BankSpec,
}

#[derive(Clone, Debug)]
pub struct UserInfo {
    pub auth: Pubkey,
    pub accts: Vec<Pubkey>,
    /// token account per bank index
    pub tokens: Vec<Pubkey>,
}

#[derive(Clone, Debug)]
pub struct Roles {
    pub admin: Pubkey,
    pub emode: Pubkey,
    pub curve: Pubkey,
    pub limit: Pubkey,
    pub emissions: Pubkey,
    pub metadata: Pubkey,
    pub risk: Pubkey,
    pub fee_admin: Pubkey,
    pub stranger: Pubkey,
}

#[derive(Clone)]
pub struct World {
    pub vm: Vm,
    pub spec: WorldSpec,
    pub fee_state: Pubkey,
    pub fee_wallet: Pubkey,
    pub group: Pubkey,
    pub roles: Roles,
    pub banks: Vec<BankInfo>,
    pub users: Vec<UserInfo>,
    pub counter: u64,
}

pub fn fee_state_key() -> Pubkey {
    Pubkey::find_program_address(&[b"feestate"], &marginfi::ID).0
}

pub fn bank_pda(seed: &str, bank: &Pubkey) -> Pubkey {
    Pubkey::find_program_address(&[seed.as_bytes(), bank.as_ref()], &marginfi::ID).0
}

pub fn ata(wallet: &Pubkey, mint: &Pubkey, token_program: &Pubkey) -> Pubkey {
    Pubkey::find_program_address(&[wallet.as_ref(), token_program.as_ref(), mint.as_ref()], &spl_associated_token_account::ID).0
}

pub fn wallet_acct(lamports: u64) -> Acct {
    Acct { lamports, owner: system_program::ID, ..Default::default() }
}

pub fn spl_mint_acct(decimals: u8) -> Acct {
    let mut md = vec![0u8; spl_token::state::Mint::LEN];
    spl_token::state::Mint { is_initialized: true, decimals, supply: 0, ..Default::default() }.pack_into_slice(&mut md);
    Acct { lamports: 1_000_000_000, data: md, owner: spl_token::ID, executable: false }
}

/// SPL-Token mint of the LST of a single-validator pool (9 decimals) with the given supply
pub fn lst_mint_acct(supply: u64) -> Acct {
    let mut md = vec![0u8; spl_token::state::Mint::LEN];
    spl_token::state::Mint { is_initialized: true, decimals: 9, supply, ..Default::default() }.pack_into_slice(&mut md);
    Acct { lamports: 1_000_000_000, data: md, owner: spl_token::ID, executable: false }
}

/// Native stake account in state `StakeStateV2::Stake` with `delegation.stake = delegated` (bincode layout, 200 bytes)
pub fn stake_acct(delegated: u64) -> Acct {
    let mut d = Vec::with_capacity(200);
    d.extend_from_slice(&2u32.to_le_bytes()); // StakeStateV2::Stake
    d.extend_from_slice(&2_282_880u64.to_le_bytes()); // meta.rent_exempt_reserve
    d.extend_from_slice(&[7u8; 32]); // authorized.staker
    d.extend_from_slice(&[8u8; 32]); // authorized.withdrawer
    d.extend_from_slice(&0i64.to_le_bytes()); // lockup.unix_timestamp
    d.extend_from_slice(&0u64.to_le_bytes()); // lockup.epoch
    d.extend_from_slice(&[0u8; 32]); // lockup.custodian
    d.extend_from_slice(&[9u8; 32]); // delegation.voter_pubkey
    d.extend_from_slice(&delegated.to_le_bytes()); // delegation.stake
    d.extend_from_slice(&0u64.to_le_bytes()); // activation_epoch
    d.extend_from_slice(&u64::MAX.to_le_bytes()); // deactivation_epoch
    d.extend_from_slice(&0.25f64.to_le_bytes()); // warmup_cooldown_rate (deprecated)
    d.extend_from_slice(&0u64.to_le_bytes()); // credits_observed
    d.push(0); // stake flags
    d.resize(200, 0);
    Acct { lamports: delegated.saturating_add(2_282_880), data: d, owner: marginfi::constants::NATIVE_STAKE_ID, executable: false }
}

pub fn spl_token_acct(mint: Pubkey, owner: Pubkey, amount: u64) -> Acct {
    let mut td = vec![0u8; spl_token::state::Account::LEN];
    spl_token::state::Account { mint, owner, amount, state: spl_token::state::AccountState::Initialized, ..Default::default() }
        .pack_into_slice(&mut td);
    Acct { lamports: 1_000_000_000, data: td, owner: spl_token::ID, executable: false }
}

pub fn t22_mint_acct(decimals: u8, fee: Option<(u16, u64)>) -> Acct {
    use spl_token_2022::extension::{
        transfer_fee::{TransferFee, TransferFeeConfig},
        BaseStateWithExtensionsMut, ExtensionType, StateWithExtensionsMut,
    };
    let exts: Vec<ExtensionType> = if fee.is_some() { vec![ExtensionType::TransferFeeConfig] } else { vec![] };
    let len = ExtensionType::try_calculate_account_len::<spl_token_2022::state::Mint>(&exts).unwrap();
    let mut data = vec![0u8; len];
    {
        let mut st = StateWithExtensionsMut::<spl_token_2022::state::Mint>::unpack_uninitialized(&mut data).unwrap();
        if let Some((bps, max)) = fee {
            let c = st.init_extension::<TransferFeeConfig>(false).unwrap();
            // the fee in force (clock epoch is 0 throughout) ...
            let f = TransferFee { epoch: 0.into(), maximum_fee: max.into(), transfer_fee_basis_points: bps.into() };
            // ... and a DIFFERENT fee in the other slot, as after a `SetTransferFee` by the fee authority: either a change
            // scheduled for epoch 2 (newer slot, not yet in force: removal of the fee or a doubling), or the superseded
            // fee left behind in the older slot. Only `get_epoch_fee(epoch)` picks the right one.
            let other_bps: u16 = if bps % 4 < 2 { 0 } else { bps.saturating_mul(2).min(10_000) };
            let (older, newer) = if bps % 2 == 0 {
                (f, TransferFee { epoch: 2.into(), maximum_fee: max.into(), transfer_fee_basis_points: other_bps.into() })
            } else {
                (TransferFee { epoch: 0.into(), maximum_fee: max.into(), transfer_fee_basis_points: other_bps.into() }, f)
            };
            *c = TransferFeeConfig {
                transfer_fee_config_authority: Default::default(),
                withdraw_withheld_authority: Default::default(),
                withheld_amount: 0.into(),
                older_transfer_fee: older,
                newer_transfer_fee: newer,
            };
        }
        let mut m = spl_token_2022::state::Mint::default();
        m.decimals = decimals;
        m.is_initialized = true;
        st.base = m;
        st.pack_base();
        st.init_account_type().unwrap();
    }
    Acct { lamports: 1_000_000_000, data, owner: spl_token_2022::ID, executable: false }
}

pub fn t22_token_acct(mint_data: &[u8], mint: Pubkey, owner: Pubkey, amount: u64) -> Acct {
    use spl_token_2022::extension::{BaseStateWithExtensions, BaseStateWithExtensionsMut, ExtensionType, StateWithExtensions, StateWithExtensionsMut};
    let ms = StateWithExtensions::<spl_token_2022::state::Mint>::unpack(mint_data).unwrap();
    let req = ExtensionType::get_required_init_account_extensions(&ms.get_extension_types().unwrap());
    let space = ExtensionType::try_calculate_account_len::<spl_token_2022::state::Account>(&req).unwrap();
    let mut d = vec![0u8; space];
    {
        let mut st = StateWithExtensionsMut::<spl_token_2022::state::Account>::unpack_uninitialized(&mut d).unwrap();
        for e in &req {
            st.init_account_extension_from_type(*e).unwrap();
        }
        st.base = spl_token_2022::state::Account { mint, owner, amount, state: spl_token_2022::state::AccountState::Initialized, ..Default::default() };
        st.pack_base();
        st.init_account_type().unwrap();
    }
    Acct { lamports: 1_000_000_000, data: d, owner: spl_token_2022::ID, executable: false }
}

/// amount held by an SPL-Token or Token-2022 token account
pub fn token_amount(data: &[u8]) -> u64 {
    if data.len() < 72 {
        return 0;
    }
    u64::from_le_bytes(data[64..72].try_into().unwrap())
}
pub fn token_owner(data: &[u8]) -> Pubkey {
    if data.len() < 64 {
        return Pubkey::default();
    }
    Pubkey::new_from_array(data[32..64].try_into().unwrap())
}

pub fn pyth_acct(mant: i64, conf: u64, expo: i32, ema: i64, ema_conf: u64, t: i64) -> Acct {
    use pyth_solana_receiver_sdk::price_update::{PriceFeedMessage, PriceUpdateV2, VerificationLevel};
    let p = PriceUpdateV2 {
        write_authority: Pubkey::default(),
        verification_level: VerificationLevel::Full,
        price_message: PriceFeedMessage { feed_id: [9u8; 32], price: mant, conf, exponent: expo, publish_time: t, prev_publish_time: t, ema_price: ema, ema_conf },
        posted_slot: 1,
    };
    let mut d = PriceUpdateV2::DISCRIMINATOR.to_vec();
    p.serialize(&mut d).unwrap();
    Acct { lamports: 1_000_000_000, data: d, owner: pyth_solana_receiver_sdk::ID, executable: false }
}

pub fn swb_acct(value_e18: i128, std_dev_e18: i128, t: i64) -> Acct {
    use switchboard_on_demand::{Discriminator as SwbDisc, PullFeedAccountData};
    let mut feed: PullFeedAccountData = bytemuck::Zeroable::zeroed();
    feed.result.value = value_e18;
    feed.result.std_dev = std_dev_e18;
    feed.last_update_timestamp = t;
    let mut d = <PullFeedAccountData as SwbDisc>::DISCRIMINATOR.to_vec();
    d.extend_from_slice(bytemuck::bytes_of(&feed));
    Acct { lamports: 1_000_000_000, data: d, owner: marginfi::constants::SWITCHBOARD_PULL_ID, executable: false }
}

fn pow10_i128(e: u32) -> i128 {
    10i128.pow(e)
}

impl OracleSpec {
    /// account for kinds 1/2 at time t
    pub fn account(&self, t: i64) -> Option<Acct> {
        match self.kind {
            1 | 3 => Some(pyth_acct(self.mant, self.conf, self.expo, self.ema_mant, self.ema_conf, t)),
            2 => {
                // value = mant * 10^(expo+18)
                let sh = self.expo + 18;
                let scale = |m: i128| -> i128 {
                    if sh >= 0 {
                        m.saturating_mul(pow10_i128(sh as u32))
                    } else {
                        m / pow10_i128((-sh) as u32)
                    }
                };
                Some(swb_acct(scale(self.mant as i128), scale(self.conf as i128), t))
            }
            _ => None,
        }
    }
    pub fn fixed_price(&self) -> I80F48 {
        let m = I80F48::from_num(self.mant);
        if self.expo >= 0 {
            m * I80F48::from_num(10u64.pow(self.expo as u32))
        } else {
            m / I80F48::from_num(10u64.pow((-self.expo) as u32))
        }
    }
}

pub fn curve_compact(c: &CurveSpec) -> InterestRateConfigCompact {
    let mut pts = [RatePoint::default(); 5];
    for (i, (u, r)) in c.points.iter().take(5).enumerate() {
        pts[i] = RatePoint::new(*u, *r);
    }
    InterestRateConfigCompact {
        insurance_fee_fixed_apr: w_mill(c.ins_fixed),
        insurance_ir_fee: w_mill(c.ins_ir),
        protocol_fixed_fee_apr: w_mill(c.prot_fixed),
        protocol_ir_fee: w_mill(c.prot_ir),
        protocol_origination_fee: w_mill(c.orig),
        zero_util_rate: c.zero,
        hundred_util_rate: c.hundred,
        points: pts,
    }
}
pub fn curve_opt(c: &CurveSpec) -> InterestRateConfigOpt {
    let cc = curve_compact(c);
    InterestRateConfigOpt {
        insurance_fee_fixed_apr: Some(cc.insurance_fee_fixed_apr),
        insurance_ir_fee: Some(cc.insurance_ir_fee),
        protocol_fixed_fee_apr: Some(cc.protocol_fixed_fee_apr),
        protocol_ir_fee: Some(cc.protocol_ir_fee),
        protocol_origination_fee: Some(cc.protocol_origination_fee),
        zero_util_rate: Some(cc.zero_util_rate),
        hundred_util_rate: Some(cc.hundred_util_rate),
        points: Some(cc.points),
    }
}

pub fn op_state(x: u8) -> BankOperationalState {
    match x {
        0 => BankOperationalState::Paused,
        2 => BankOperationalState::ReduceOnly,
        3 => BankOperationalState::KilledByBankruptcy,
        _ => BankOperationalState::Operational,
    }
}

pub fn bank_config_compact(b: &BankSpec) -> BankConfigCompact {
    let mut c = BankConfigCompact::default();
    c.asset_weight_init = w_mill(b.aw_i);
    c.asset_weight_maint = w_mill(b.aw_m);
    c.liability_weight_init = w_mill(b.lw_i);
    c.liability_weight_maint = w_mill(b.lw_m);
    c.deposit_limit = b.deposit_limit;
    c.borrow_limit = b.borrow_limit;
    c.interest_rate_config = curve_compact(&b.curve);
    c.operational_state = op_state(b.op_state);
    c.risk_tier = if b.isolated { RiskTier::Isolated } else { RiskTier::Collateral };
    c.asset_tag = b.asset_tag;
    c.total_asset_value_init_limit = b.init_limit;
    c.oracle_max_age = b.oracle.max_age;
    c.oracle_max_confidence = b.oracle.max_conf;
    c
}

pub fn emode_entries(es: &[EmodeEntrySpec]) -> [EmodeEntry; MAX_EMODE_ENTRIES] {
    let zero = EmodeEntry { collateral_bank_emode_tag: 0, flags: 0, pad0: [0; 5], asset_weight_init: I80F48::ZERO.into(), asset_weight_maint: I80F48::ZERO.into() };
    let mut out = [zero; MAX_EMODE_ENTRIES];
    for (i, e) in es.iter().take(MAX_EMODE_ENTRIES).enumerate() {
        out[i] = EmodeEntry { collateral_bank_emode_tag: e.tag, flags: e.flags, pad0: [0; 5], asset_weight_init: w_mill(e.init), asset_weight_maint: w_mill(e.maint) };
    }
    out
}

pub fn mfi_ix(accounts: Vec<AccountMeta>, data: Vec<u8>) -> Instruction {
    Instruction { program_id: marginfi::ID, accounts, data }
}

impl World {
    pub fn fresh_key(&mut self, tag: &str) -> Pubkey {
        self.counter += 1;
        kp(tag, self.counter)
    }

    /// Build the world through real instructions. Err(step) means the spec was not accepted by
    /// the program (callers decide whether that is expected).
    pub fn build(spec: &WorldSpec) -> Result<World, String> {
        let mut vm = Vm::new(START_TIME);
        let admin = kp("admin", 0);
        let roles = if spec.distinct_roles {
            Roles {
                admin,
                emode: kp("emode_admin", 0),
                curve: kp("curve_admin", 0),
                limit: kp("limit_admin", 0),
                emissions: kp("emissions_admin", 0),
                metadata: kp("metadata_admin", 0),
                risk: kp("risk_admin", 0),
                fee_admin: kp("fee_admin", 0),
                stranger: kp("stranger", 0),
            }
        } else {
            Roles { admin, emode: admin, curve: admin, limit: admin, emissions: admin, metadata: admin, risk: admin, fee_admin: kp("fee_admin", 0), stranger: kp("stranger", 0) }
        };
        for k in [roles.admin, roles.emode, roles.curve, roles.limit, roles.emissions, roles.metadata, roles.risk, roles.fee_admin, roles.stranger] {
            vm.set(k, wallet_acct(1_000_000_000_000));
        }
        let fee_wallet = kp("fee_wallet", 0);
        vm.set(fee_wallet, wallet_acct(1_000_000_000));
        let fee_state = fee_state_key();
        let mut w = World { vm, spec: spec.clone(), fee_state, fee_wallet, group: kp("group", 0), roles, banks: vec![], users: vec![], counter: 0 };

        let ix = mfi_ix(
            marginfi::accounts::InitFeeState { payer: w.roles.fee_admin, fee_state, system_program: system_program::ID }.to_account_metas(Some(true)),
            marginfi::instruction::InitGlobalFeeState {
                admin: w.roles.fee_admin,
                fee_wallet,
                bank_init_flat_sol_fee: spec.bank_init_flat_sol_fee,
                liquidation_flat_sol_fee: spec.liq_flat_sol_fee,
                program_fee_fixed: w_mill(spec.program_fee_fixed),
                program_fee_rate: w_mill(spec.program_fee_rate),
                liquidation_max_fee: w_mill(spec.liq_max_fee),
            }
            .data(),
        );
        w.vm.exec(&ix).map_err(|e| format!("init_global_fee_state: {e:?}"))?;

        let group = w.group;
        let ix = mfi_ix(
            marginfi::accounts::MarginfiGroupInitialize { marginfi_group: group, admin, fee_state, system_program: system_program::ID }.to_account_metas(Some(true)),
            marginfi::instruction::MarginfiGroupInitialize {}.data(),
        );
        w.vm.exec(&ix).map_err(|e| format!("group init: {e:?}"))?;

        let ix = w.ix_group_configure(&w.roles.clone(), None, None);
        w.vm.exec(&ix).map_err(|e| format!("group configure: {e:?}"))?;

        if !spec.program_fees_enabled {
            let ix = mfi_ix(
                marginfi::accounts::ConfigGroupFee { marginfi_group: group, global_fee_admin: w.roles.fee_admin, fee_state }.to_account_metas(Some(true)),
                marginfi::instruction::ConfigGroupFee { enable_program_fee: false }.data(),
            );
            w.vm.exec(&ix).map_err(|e| format!("config_group_fee: {e:?}"))?;
        }

        for (i, b) in spec.banks.iter().enumerate() {
            w.add_bank(i, b)?;
        }
        // e-mode after all banks exist
        for i in 0..w.banks.len() {
            let b = w.banks[i].spec.clone();
            if b.emode_tag != 0 || !b.emode_entries.is_empty() {
                let ix = w.ix_config_emode(i, b.emode_tag, &b.emode_entries, w.roles.emode);
                w.vm.exec(&ix).map_err(|e| format!("emode bank {i}: {e:?}"))?;
            }
        }
        for u in 0..spec.n_users as usize {
            w.add_user(u)?;
        }
        Ok(w)
    }

    pub fn add_bank(&mut self, i: usize, b: &BankSpec) -> Result<(), String> {
        if b.staked.is_some() {
            return self.add_staked_bank(i, b);
        }
        let mint = kp("mint", i as u64);
        let token_program = if b.token == 0 { spl_token::ID } else { spl_token_2022::ID };
        match b.token {
            0 => self.vm.set(mint, spl_mint_acct(b.decimals)),
            1 => self.vm.set(mint, t22_mint_acct(b.decimals, None)),
            _ => self.vm.set(mint, t22_mint_acct(b.decimals, Some((b.fee_bps, b.fee_max)))),
        }
        let bank = kp("bank", i as u64);
        let info = BankInfo {
            key: bank,
            mint,
            token_program,
            decimals: b.decimals,
            oracle_kind: b.oracle.kind,
            oracle_key: kp("oracle", i as u64),
            oracle_extra: vec![],
            lv: bank_pda("liquidity_vault", &bank),
            lv_auth: bank_pda("liquidity_vault_auth", &bank),
            iv: bank_pda("insurance_vault", &bank),
            iv_auth: bank_pda("insurance_vault_auth", &bank),
            fv: bank_pda("fee_vault", &bank),
            fv_auth: bank_pda("fee_vault_auth", &bank),
            fee_ata: ata(&self.fee_wallet, &mint, &token_program),
            spec: b.clone(),
        };
        // the global fee wallet's canonical ATA for this mint (fabricated; the ATA program is external)
        let ata_acct = self.make_token_acct(&info, self.fee_wallet, 0);
        self.vm.set(info.fee_ata, ata_acct);
        let admin = self.roles.admin;
        // add with Operational state, then configure to the requested state at the end
        let mut cfg = bank_config_compact(b);
        cfg.operational_state = BankOperationalState::Operational;
        let ix = mfi_ix(
            marginfi::accounts::LendingPoolAddBank {
                marginfi_group: self.group,
                admin,
                fee_payer: admin,
                fee_state: self.fee_state,
                global_fee_wallet: self.fee_wallet,
                bank_mint: mint,
                bank,
                liquidity_vault_authority: info.lv_auth,
                liquidity_vault: info.lv,
                insurance_vault_authority: info.iv_auth,
                insurance_vault: info.iv,
                fee_vault_authority: info.fv_auth,
                fee_vault: info.fv,
                token_program,
                system_program: system_program::ID,
            }
            .to_account_metas(Some(true)),
            marginfi::instruction::LendingPoolAddBank { bank_config: cfg }.data(),
        );
        self.vm.exec(&ix).map_err(|e| format!("add_bank {i}: {e:?}"))?;
        self.banks.push(info);
        // oracle
        match b.oracle.kind {
            0 => {
                let ix = self.ix_set_fixed_price(i, b.oracle.fixed_price().into(), admin);
                self.vm.exec(&ix).map_err(|e| format!("fixed price {i}: {e:?}"))?;
            }
            k => {
                let now = self.vm.now();
                self.vm.set(self.banks[i].oracle_key, b.oracle.account(now).unwrap());
                let setup = if k == 1 { 3u8 } else { 4u8 };
                let ix = self.ix_config_oracle(i, setup, self.banks[i].oracle_key, admin);
                self.vm.exec(&ix).map_err(|e| format!("config oracle {i}: {e:?}"))?;
            }
        }
        let mut opt = BankConfigOpt::default();
        let mut need = false;
        if b.op_state != 1 {
            opt.operational_state = Some(op_state(b.op_state));
            need = true;
        }
        if b.permissionless_bad_debt {
            opt.permissionless_bad_debt_settlement = Some(true);
            need = true;
        }
        if need {
            let ix = self.ix_configure_bank(i, opt, admin);
            self.vm.exec(&ix).map_err(|e| format!("configure bank {i}: {e:?}"))?;
        }
        Ok(())
    }


    pub fn staked_settings_key(&self) -> Pubkey {
        Pubkey::find_program_address(&[b"staked_settings", self.group.as_ref()], &marginfi::ID).0
    }
    pub fn staked_feed_key(&self) -> Pubkey {
        kp("staked_sol_feed", 0)
    }

    /// A staked-collateral bank through the real instructions: `init_staked_settings` (first staked bank only)
    /// and `lending_pool_add_bank_permissionless`, with fabricated spl-single-pool accounts (stake pool owned by
    /// the single-pool program, LST mint and SOL pool at their PDAs, the SOL pool a native stake account in
    /// state Stake) and the group's SOL Pyth feed.
    pub fn add_staked_bank(&mut self, i: usize, b: &BankSpec) -> Result<(), String> {
        use marginfi::instructions::marginfi_group::StakedSettingsConfig;
        use marginfi_type_crate::types::RiskTier;
        let st = b.staked.clone().unwrap();
        let sp_id = marginfi::constants::SPL_SINGLE_POOL_ID;
        let admin = self.roles.admin;
        let feed = self.staked_feed_key();
        let now = self.vm.now();
        let mut o = b.oracle.clone();
        o.kind = 3;
        self.vm.set(feed, o.account(now).unwrap());
        let settings = self.staked_settings_key();
        if self.vm.get(&settings).is_none() {
            let ix = mfi_ix(
                marginfi::accounts::InitStakedSettings { marginfi_group: self.group, admin, fee_payer: admin, staked_settings: settings, system_program: system_program::ID }.to_account_metas(Some(true)),
                marginfi::instruction::InitStakedSettings {
                    settings: StakedSettingsConfig {
                        oracle: feed,
                        asset_weight_init: w_mill(b.aw_i),
                        asset_weight_maint: w_mill(b.aw_m),
                        deposit_limit: b.deposit_limit,
                        total_asset_value_init_limit: b.init_limit,
                        oracle_max_age: b.oracle.max_age,
                        risk_tier: if b.isolated { RiskTier::Isolated } else { RiskTier::Collateral },
                    },
                }
                .data(),
            );
            self.vm.exec(&ix).map_err(|e| format!("init_staked_settings: {e:?}"))?;
        }
        let stake_pool = kp("stake_pool", i as u64);
        self.vm.set(stake_pool, Acct { lamports: 1_000_000_000, data: vec![0u8; 64], owner: sp_id, executable: false });
        let mint = Pubkey::find_program_address(&[b"mint", stake_pool.as_ref()], &sp_id).0;
        let sol_pool = Pubkey::find_program_address(&[b"stake", stake_pool.as_ref()], &sp_id).0;
        self.vm.set(mint, lst_mint_acct(st.supply));
        self.vm.set(sol_pool, stake_acct(st.stake));
        let seed = i as u64;
        let bank = Pubkey::find_program_address(&[self.group.as_ref(), mint.as_ref(), &seed.to_le_bytes()], &marginfi::ID).0;
        let mut spec = b.clone();
        spec.oracle = o;
        spec.decimals = 9;
        spec.token = 0;
        spec.asset_tag = 2;
        let info = BankInfo {
            key: bank,
            mint,
            token_program: spl_token::ID,
            decimals: 9,
            oracle_kind: 3,
            oracle_key: feed,
            oracle_extra: vec![mint, sol_pool],
            lv: bank_pda("liquidity_vault", &bank),
            lv_auth: bank_pda("liquidity_vault_auth", &bank),
            iv: bank_pda("insurance_vault", &bank),
            iv_auth: bank_pda("insurance_vault_auth", &bank),
            fv: bank_pda("fee_vault", &bank),
            fv_auth: bank_pda("fee_vault_auth", &bank),
            fee_ata: ata(&self.fee_wallet, &mint, &spl_token::ID),
            spec,
        };
        let ata_acct = self.make_token_acct(&info, self.fee_wallet, 0);
        self.vm.set(info.fee_ata, ata_acct);
        let payer = self.roles.stranger;
        let mut m = marginfi::accounts::LendingPoolAddBankPermissionless {
            marginfi_group: self.group,
            staked_settings: settings,
            fee_payer: payer,
            bank_mint: mint,
            sol_pool,
            stake_pool,
            bank,
            liquidity_vault_authority: info.lv_auth,
            liquidity_vault: info.lv,
            insurance_vault_authority: info.iv_auth,
            insurance_vault: info.iv,
            fee_vault_authority: info.fv_auth,
            fee_vault: info.fv,
            token_program: spl_token::ID,
            system_program: system_program::ID,
        }
        .to_account_metas(Some(true));
        m.push(AccountMeta::new_readonly(feed, false));
        m.push(AccountMeta::new_readonly(mint, false));
        m.push(AccountMeta::new_readonly(sol_pool, false));
        let ix = mfi_ix(m, marginfi::instruction::LendingPoolAddBankPermissionless { bank_seed: seed }.data());
        self.vm.exec(&ix).map_err(|e| format!("add_bank_permissionless {i}: {e:?}"))?;
        self.banks.push(info);
        Ok(())
    }

    /// change the LST rate of staked bank i (supply of the LST mint, delegated stake of the SOL pool)
    pub fn set_staked_rate(&mut self, i: usize, supply: u64, stake: u64) {
        if self.banks[i].oracle_extra.len() == 2 {
            let (mint, pool) = (self.banks[i].oracle_extra[0], self.banks[i].oracle_extra[1]);
            self.vm.set(mint, lst_mint_acct(supply));
            self.vm.set(pool, stake_acct(stake));
            self.banks[i].spec.staked = Some(StakedSpec { supply, stake });
        }
    }

    pub fn make_token_acct(&self, b: &BankInfo, owner: Pubkey, amount: u64) -> Acct {
        if b.token_program == spl_token::ID {
            spl_token_acct(b.mint, owner, amount)
        } else {
            t22_token_acct(self.vm.data(&b.mint), b.mint, owner, amount)
        }
    }

    pub fn add_user(&mut self, u: usize) -> Result<(), String> {
        let auth = kp("user", u as u64);
        self.vm.set(auth, wallet_acct(1_000_000_000_000));
        let macct = kp("macct", u as u64);
        let ix = self.ix_account_init(macct, auth);
        self.vm.exec(&ix).map_err(|e| format!("account init {u}: {e:?}"))?;
        let mut tokens = vec![];
        for (i, b) in self.banks.clone().iter().enumerate() {
            let k = kp("uta", (u as u64) << 16 | i as u64);
            let a = self.make_token_acct(b, auth, self.spec.user_tokens);
            self.vm.set(k, a);
            tokens.push(k);
        }
        self.users.push(UserInfo { auth, accts: vec![macct], tokens });
        Ok(())
    }

    // ---------------- readers ----------------
    pub fn bank(&self, i: usize) -> Bank {
        read_bank(&self.vm, &self.banks[i].key)
    }
    pub fn group_state(&self) -> MarginfiGroup {
        bytemuck::pod_read_unaligned::<MarginfiGroup>(&self.vm.data(&self.group)[8..8 + std::mem::size_of::<MarginfiGroup>()])
    }
    pub fn macct(&self, k: &Pubkey) -> MarginfiAccount {
        read_macct(&self.vm, k).expect("marginfi account")
    }
    pub fn bank_index(&self, key: &Pubkey) -> Option<usize> {
        self.banks.iter().position(|b| b.key == *key)
    }
    pub fn tok(&self, k: &Pubkey) -> u64 {
        token_amount(self.vm.data(k))
    }

    /// Refresh every Pyth/Switchboard oracle account so that it is fresh at the current clock.
    pub fn refresh_oracles(&mut self) {
        let now = self.vm.now();
        for b in self.banks.clone() {
            if let Some(a) = b.spec.oracle.account(now) {
                self.vm.set(b.oracle_key, a);
            }
        }
    }
    /// Set a new price (mant*10^expo, conf) for bank i, via the oracle account or the fixed-price instruction.
    pub fn set_price(&mut self, i: usize, mant: i64, conf: u64, ema_mant: i64, ema_conf: u64) -> ProgramResult {
        let mut o = self.banks[i].spec.oracle.clone();
        o.mant = mant;
        o.conf = conf;
        o.ema_mant = ema_mant;
        o.ema_conf = ema_conf;
        self.banks[i].spec.oracle = o.clone();
        match o.kind {
            0 => {
                let ix = self.ix_set_fixed_price(i, o.fixed_price().into(), self.roles.admin);
                self.vm.exec(&ix)
            }
            _ => {
                let now = self.vm.now();
                self.vm.set(self.banks[i].oracle_key, o.account(now).unwrap());
                if o.kind == 3 {
                    // all staked banks of the group read the same SOL feed
                    for b in self.banks.iter_mut() {
                        if b.oracle_kind == 3 {
                            b.spec.oracle = o.clone();
                        }
                    }
                }
                Ok(())
            }
        }
    }

    // ---------------- remaining accounts for the risk engine ----------------
    fn bank_obs_metas(&self, bank_key: &Pubkey, out: &mut Vec<AccountMeta>) {
        out.push(AccountMeta::new_readonly(*bank_key, false));
        if let Some(i) = self.bank_index(bank_key) {
            if self.banks[i].oracle_kind != 0 {
                out.push(AccountMeta::new_readonly(self.banks[i].oracle_key, false));
                for k in &self.banks[i].oracle_extra {
                    out.push(AccountMeta::new_readonly(*k, false));
                }
            }
        } else {
            // unknown bank (e.g. created later): read its config
            let b = read_bank(&self.vm, bank_key);
            if b.config.oracle_setup != marginfi_type_crate::types::OracleSetup::Fixed {
                out.push(AccountMeta::new_readonly(b.config.oracle_keys[0], false));
            }
        }
    }
    pub fn risk_metas_for_bank(&self, bank_key: &Pubkey) -> Vec<AccountMeta> {
        let mut v = vec![];
        self.bank_obs_metas(bank_key, &mut v);
        v
    }
    /// Observation accounts for `acct` in the order the risk engine walks them: active balances
    /// sorted by bank key descending; `include` is added if not yet active; `exclude` removed.
    pub fn risk_metas(&self, acct: &Pubkey, include: Option<Pubkey>, exclude: Option<Pubkey>) -> Vec<AccountMeta> {
        let mut keys: Vec<Pubkey> = match read_macct(&self.vm, acct) {
            Some(a) => a.lending_account.balances.iter().filter(|b| b.active != 0).map(|b| b.bank_pk).collect(),
            None => vec![],
        };
        if let Some(k) = include {
            if !keys.contains(&k) {
                keys.push(k);
            }
        }
        if let Some(k) = exclude {
            keys.retain(|x| *x != k);
        }
        keys.sort_by(|a, b| b.cmp(a));
        let mut out = vec![];
        for k in keys {
            self.bank_obs_metas(&k, &mut out);
        }
        out
    }
    fn mint_meta(&self, bi: usize, v: &mut Vec<AccountMeta>) {
        if self.banks[bi].token_program == spl_token_2022::ID {
            v.push(AccountMeta::new_readonly(self.banks[bi].mint, false));
        }
    }

    // ---------------- instruction catalogue ----------------
    pub fn ix_group_configure(&self, r: &Roles, init_lev: Option<WrappedI80F48>, maint_lev: Option<WrappedI80F48>) -> Instruction {
        mfi_ix(
            marginfi::accounts::MarginfiGroupConfigure { marginfi_group: self.group, admin: self.roles.admin }.to_account_metas(Some(true)),
            marginfi::instruction::MarginfiGroupConfigure {
                new_admin: r.admin,
                new_emode_admin: r.emode,
                new_curve_admin: r.curve,
                new_limit_admin: r.limit,
                new_emissions_admin: r.emissions,
                new_metadata_admin: r.metadata,
                new_risk_admin: r.risk,
                emode_max_init_leverage: init_lev,
                emode_max_maint_leverage: maint_lev,
            }
            .data(),
        )
    }
    pub fn ix_account_init(&self, macct: Pubkey, auth: Pubkey) -> Instruction {
        mfi_ix(
            marginfi::accounts::MarginfiAccountInitialize { marginfi_group: self.group, marginfi_account: macct, authority: auth, fee_payer: auth, system_program: system_program::ID }
                .to_account_metas(Some(true)),
            marginfi::instruction::MarginfiAccountInitialize {}.data(),
        )
    }
    pub fn ix_set_fixed_price(&self, bi: usize, price: WrappedI80F48, signer: Pubkey) -> Instruction {
        mfi_ix(
            marginfi::accounts::LendingPoolSetFixedOraclePrice { group: self.group, admin: signer, bank: self.banks[bi].key }.to_account_metas(Some(true)),
            marginfi::instruction::LendingPoolSetFixedOraclePrice { price }.data(),
        )
    }
    pub fn ix_config_oracle(&self, bi: usize, setup: u8, oracle: Pubkey, signer: Pubkey) -> Instruction {
        let mut m = marginfi::accounts::LendingPoolConfigureBankOracle { group: self.group, admin: signer, bank: self.banks[bi].key }.to_account_metas(Some(true));
        m.push(AccountMeta::new_readonly(oracle, false));
        mfi_ix(m, marginfi::instruction::LendingPoolConfigureBankOracle { setup, oracle }.data())
    }
    pub fn ix_configure_bank(&self, bi: usize, opt: BankConfigOpt, signer: Pubkey) -> Instruction {
        mfi_ix(
            marginfi::accounts::LendingPoolConfigureBank { group: self.group, admin: signer, bank: self.banks[bi].key }.to_account_metas(Some(true)),
            marginfi::instruction::LendingPoolConfigureBank { bank_config_opt: opt }.data(),
        )
    }
    pub fn ix_configure_interest_only(&self, bi: usize, c: InterestRateConfigOpt, signer: Pubkey) -> Instruction {
        mfi_ix(
            marginfi::accounts::LendingPoolConfigureBankInterestOnly { group: self.group, delegate_curve_admin: signer, bank: self.banks[bi].key }.to_account_metas(Some(true)),
            marginfi::instruction::LendingPoolConfigureBankInterestOnly { interest_rate_config: c }.data(),
        )
    }
    pub fn ix_configure_limits_only(&self, bi: usize, dep: Option<u64>, bor: Option<u64>, init: Option<u64>, signer: Pubkey) -> Instruction {
        mfi_ix(
            marginfi::accounts::LendingPoolConfigureBankLimitsOnly { group: self.group, delegate_limit_admin: signer, bank: self.banks[bi].key }.to_account_metas(Some(true)),
            marginfi::instruction::LendingPoolConfigureBankLimitsOnly { deposit_limit: dep, borrow_limit: bor, total_asset_value_init_limit: init }.data(),
        )
    }
    pub fn ix_config_emode(&self, bi: usize, tag: u16, entries: &[EmodeEntrySpec], signer: Pubkey) -> Instruction {
        mfi_ix(
            marginfi::accounts::LendingPoolConfigureBankEmode { group: self.group, emode_admin: signer, bank: self.banks[bi].key }.to_account_metas(Some(true)),
            marginfi::instruction::LendingPoolConfigureBankEmode { emode_tag: tag, entries: emode_entries(entries) }.data(),
        )
    }
    pub fn ix_clone_emode(&self, from: usize, to: usize, signer: Pubkey) -> Instruction {
        mfi_ix(
            marginfi::accounts::LendingPoolCloneEmode { group: self.group, signer, copy_from_bank: self.banks[from].key, copy_to_bank: self.banks[to].key }.to_account_metas(Some(true)),
            marginfi::instruction::LendingPoolCloneEmode {}.data(),
        )
    }
    pub fn ix_deposit(&self, macct: Pubkey, signer: Pubkey, bi: usize, src: Pubkey, amount: u64, up_to_limit: Option<bool>) -> Instruction {
        let b = &self.banks[bi];
        let mut m = marginfi::accounts::LendingAccountDeposit {
            group: self.group,
            marginfi_account: macct,
            authority: signer,
            bank: b.key,
            signer_token_account: src,
            liquidity_vault: b.lv,
            token_program: b.token_program,
        }
        .to_account_metas(Some(true));
        self.mint_meta(bi, &mut m);
        mfi_ix(m, marginfi::instruction::LendingAccountDeposit { amount, deposit_up_to_limit: up_to_limit }.data())
    }
    pub fn ix_repay(&self, macct: Pubkey, signer: Pubkey, bi: usize, src: Pubkey, amount: u64, all: Option<bool>) -> Instruction {
        let b = &self.banks[bi];
        let mut m = marginfi::accounts::LendingAccountRepay {
            group: self.group,
            marginfi_account: macct,
            authority: signer,
            bank: b.key,
            signer_token_account: src,
            liquidity_vault: b.lv,
            token_program: b.token_program,
        }
        .to_account_metas(Some(true));
        self.mint_meta(bi, &mut m);
        mfi_ix(m, marginfi::instruction::LendingAccountRepay { amount, repay_all: all }.data())
    }
    pub fn ix_withdraw(&self, macct: Pubkey, signer: Pubkey, bi: usize, dst: Pubkey, amount: u64, all: Option<bool>) -> Instruction {
        let risk = self.risk_metas(&macct, None, if all == Some(true) { Some(self.banks[bi].key) } else { None });
        self.ix_withdraw_with(macct, signer, bi, dst, amount, all, risk)
    }
    pub fn ix_withdraw_with(&self, macct: Pubkey, signer: Pubkey, bi: usize, dst: Pubkey, amount: u64, all: Option<bool>, risk: Vec<AccountMeta>) -> Instruction {
        let b = &self.banks[bi];
        let mut m = marginfi::accounts::LendingAccountWithdraw {
            group: self.group,
            marginfi_account: macct,
            authority: signer,
            bank: b.key,
            destination_token_account: dst,
            bank_liquidity_vault_authority: b.lv_auth,
            liquidity_vault: b.lv,
            token_program: b.token_program,
        }
        .to_account_metas(Some(true));
        self.mint_meta(bi, &mut m);
        m.extend(risk);
        mfi_ix(m, marginfi::instruction::LendingAccountWithdraw { amount, withdraw_all: all }.data())
    }
    pub fn ix_borrow(&self, macct: Pubkey, signer: Pubkey, bi: usize, dst: Pubkey, amount: u64) -> Instruction {
        let risk = self.risk_metas(&macct, Some(self.banks[bi].key), None);
        self.ix_borrow_with(macct, signer, bi, dst, amount, risk)
    }
    pub fn ix_borrow_with(&self, macct: Pubkey, signer: Pubkey, bi: usize, dst: Pubkey, amount: u64, risk: Vec<AccountMeta>) -> Instruction {
        let b = &self.banks[bi];
        let mut m = marginfi::accounts::LendingAccountBorrow {
            group: self.group,
            marginfi_account: macct,
            authority: signer,
            bank: b.key,
            destination_token_account: dst,
            bank_liquidity_vault_authority: b.lv_auth,
            liquidity_vault: b.lv,
            token_program: b.token_program,
        }
        .to_account_metas(Some(true));
        self.mint_meta(bi, &mut m);
        m.extend(risk);
        mfi_ix(m, marginfi::instruction::LendingAccountBorrow { amount }.data())
    }
    pub fn ix_close_balance(&self, macct: Pubkey, signer: Pubkey, bi: usize) -> Instruction {
        mfi_ix(
            marginfi::accounts::LendingAccountCloseBalance { group: self.group, marginfi_account: macct, authority: signer, bank: self.banks[bi].key }.to_account_metas(Some(true)),
            marginfi::instruction::LendingAccountCloseBalance {}.data(),
        )
    }
    pub fn ix_accrue(&self, bi: usize) -> Instruction {
        mfi_ix(
            marginfi::accounts::LendingPoolAccrueBankInterest { group: self.group, bank: self.banks[bi].key }.to_account_metas(Some(true)),
            marginfi::instruction::LendingPoolAccrueBankInterest {}.data(),
        )
    }
    pub fn ix_collect_fees(&self, bi: usize) -> Instruction {
        let b = &self.banks[bi];
        let mut m = marginfi::accounts::LendingPoolCollectBankFees {
            group: self.group,
            bank: b.key,
            liquidity_vault_authority: b.lv_auth,
            liquidity_vault: b.lv,
            insurance_vault: b.iv,
            fee_vault: b.fv,
            fee_state: self.fee_state,
            fee_ata: b.fee_ata,
            token_program: b.token_program,
        }
        .to_account_metas(Some(true));
        self.mint_meta(bi, &mut m);
        mfi_ix(m, marginfi::instruction::LendingPoolCollectBankFees {}.data())
    }
    pub fn ix_withdraw_fees(&self, bi: usize, signer: Pubkey, dst: Pubkey, amount: u64) -> Instruction {
        let b = &self.banks[bi];
        let mut m = marginfi::accounts::LendingPoolWithdrawFees {
            group: self.group,
            bank: b.key,
            admin: signer,
            fee_vault: b.fv,
            fee_vault_authority: b.fv_auth,
            dst_token_account: dst,
            token_program: b.token_program,
        }
        .to_account_metas(Some(true));
        self.mint_meta(bi, &mut m);
        mfi_ix(m, marginfi::instruction::LendingPoolWithdrawFees { amount }.data())
    }
    pub fn ix_withdraw_insurance(&self, bi: usize, signer: Pubkey, dst: Pubkey, amount: u64) -> Instruction {
        let b = &self.banks[bi];
        let mut m = marginfi::accounts::LendingPoolWithdrawInsurance {
            group: self.group,
            bank: b.key,
            admin: signer,
            insurance_vault: b.iv,
            insurance_vault_authority: b.iv_auth,
            dst_token_account: dst,
            token_program: b.token_program,
        }
        .to_account_metas(Some(true));
        self.mint_meta(bi, &mut m);
        mfi_ix(m, marginfi::instruction::LendingPoolWithdrawInsurance { amount }.data())
    }
    pub fn ix_bankruptcy(&self, bi: usize, macct: Pubkey, signer: Pubkey) -> Instruction {
        let b = &self.banks[bi];
        let mut m = marginfi::accounts::LendingPoolHandleBankruptcy {
            group: self.group,
            signer,
            bank: b.key,
            marginfi_account: macct,
            liquidity_vault: b.lv,
            insurance_vault: b.iv,
            insurance_vault_authority: b.iv_auth,
            token_program: b.token_program,
        }
        .to_account_metas(Some(true));
        self.mint_meta(bi, &mut m);
        m.extend(self.risk_metas(&macct, None, None));
        mfi_ix(m, marginfi::instruction::LendingPoolHandleBankruptcy {}.data())
    }
    /// classic liquidation; `asset` / `liab` are bank indices
    pub fn ix_liquidate(&self, liquidator: Pubkey, signer: Pubkey, liquidatee: Pubkey, asset: usize, liab: usize, amount: u64) -> Instruction {
        let ab = &self.banks[asset];
        let lb = &self.banks[liab];
        let mut m = marginfi::accounts::LendingAccountLiquidate {
            group: self.group,
            asset_bank: ab.key,
            liab_bank: lb.key,
            liquidator_marginfi_account: liquidator,
            authority: signer,
            liquidatee_marginfi_account: liquidatee,
            bank_liquidity_vault_authority: lb.lv_auth,
            bank_liquidity_vault: lb.lv,
            bank_insurance_vault: lb.iv,
            token_program: lb.token_program,
        }
        .to_account_metas(Some(true));
        self.mint_meta(liab, &mut m);
        for x in [ab, lb] {
            if x.oracle_kind != 0 {
                m.push(AccountMeta::new_readonly(x.oracle_key, false));
                for k in &x.oracle_extra {
                    m.push(AccountMeta::new_readonly(*k, false));
                }
            }
        }
        // liquidator ends up with positions in both banks
        let mut lr = {
            let mut keys: Vec<Pubkey> = match read_macct(&self.vm, &liquidator) {
                Some(a) => a.lending_account.balances.iter().filter(|b| b.active != 0).map(|b| b.bank_pk).collect(),
                None => vec![],
            };
            for k in [ab.key, lb.key] {
                if !keys.contains(&k) {
                    keys.push(k);
                }
            }
            keys.sort_by(|a, b| b.cmp(a));
            let mut out = vec![];
            for k in keys {
                self.bank_obs_metas(&k, &mut out);
            }
            out
        };
        let le = self.risk_metas(&liquidatee, None, None);
        let (n_lr, n_le) = (lr.len() as u8, le.len() as u8);
        m.append(&mut lr);
        m.extend(le);
        mfi_ix(m, marginfi::instruction::LendingAccountLiquidate { asset_amount: amount, liquidatee_accounts: n_le, liquidator_accounts: n_lr }.data())
    }
    pub fn liq_record_key(macct: &Pubkey) -> Pubkey {
        Pubkey::find_program_address(&[b"liq_record", macct.as_ref()], &marginfi::ID).0
    }
    pub fn ix_init_liq_record(&self, macct: Pubkey, payer: Pubkey) -> Instruction {
        mfi_ix(
            marginfi::accounts::InitLiquidationRecord { marginfi_account: macct, fee_payer: payer, liquidation_record: Self::liq_record_key(&macct), system_program: system_program::ID }
                .to_account_metas(Some(true)),
            marginfi::instruction::MarginfiAccountInitLiqRecord {}.data(),
        )
    }
    pub fn ix_start_liquidation(&self, macct: Pubkey, receiver: Pubkey) -> Instruction {
        let mut m = marginfi::accounts::StartLiquidation {
            marginfi_account: macct,
            liquidation_record: Self::liq_record_key(&macct),
            liquidation_receiver: receiver,
            instruction_sysvar: solana_program::sysvar::instructions::ID,
        }
        .to_account_metas(Some(true));
        m.extend(self.risk_metas(&macct, None, None));
        mfi_ix(m, marginfi::instruction::StartLiquidation {}.data())
    }
    pub fn ix_end_liquidation(&self, macct: Pubkey, receiver: Pubkey, risk: Vec<AccountMeta>) -> Instruction {
        let mut m = marginfi::accounts::EndLiquidation {
            marginfi_account: macct,
            liquidation_record: Self::liq_record_key(&macct),
            liquidation_receiver: receiver,
            fee_state: self.fee_state,
            global_fee_wallet: self.fee_wallet,
            system_program: system_program::ID,
        }
        .to_account_metas(Some(true));
        m.extend(risk);
        mfi_ix(m, marginfi::instruction::EndLiquidation {}.data())
    }
    pub fn ix_start_deleverage(&self, macct: Pubkey, risk_admin: Pubkey) -> Instruction {
        let mut m = marginfi::accounts::StartDeleverage {
            marginfi_account: macct,
            liquidation_record: Self::liq_record_key(&macct),
            group: self.group,
            risk_admin,
            instruction_sysvar: solana_program::sysvar::instructions::ID,
        }
        .to_account_metas(Some(true));
        m.extend(self.risk_metas(&macct, None, None));
        mfi_ix(m, marginfi::instruction::StartDeleverage {}.data())
    }
    pub fn ix_end_deleverage(&self, macct: Pubkey, risk_admin: Pubkey, risk: Vec<AccountMeta>) -> Instruction {
        let mut m = marginfi::accounts::EndDeleverage { marginfi_account: macct, liquidation_record: Self::liq_record_key(&macct), group: self.group, risk_admin }.to_account_metas(Some(true));
        m.extend(risk);
        mfi_ix(m, marginfi::instruction::EndDeleverage {}.data())
    }
    pub fn ix_start_flashloan(&self, macct: Pubkey, signer: Pubkey, end_index: u64) -> Instruction {
        mfi_ix(
            marginfi::accounts::LendingAccountStartFlashloan { marginfi_account: macct, authority: signer, ixs_sysvar: solana_program::sysvar::instructions::ID }.to_account_metas(Some(true)),
            marginfi::instruction::LendingAccountStartFlashloan { end_index }.data(),
        )
    }
    pub fn ix_end_flashloan(&self, macct: Pubkey, signer: Pubkey, risk: Vec<AccountMeta>) -> Instruction {
        let mut m = marginfi::accounts::LendingAccountEndFlashloan { marginfi_account: macct, authority: signer }.to_account_metas(Some(true));
        m.extend(risk);
        mfi_ix(m, marginfi::instruction::LendingAccountEndFlashloan {}.data())
    }
    pub fn ix_set_freeze(&self, macct: Pubkey, signer: Pubkey, frozen: bool) -> Instruction {
        mfi_ix(
            marginfi::accounts::SetAccountFreeze { group: self.group, marginfi_account: macct, admin: signer }.to_account_metas(Some(true)),
            marginfi::instruction::MarginfiAccountSetFreeze { frozen }.data(),
        )
    }
    pub fn ix_close_account(&self, macct: Pubkey, signer: Pubkey) -> Instruction {
        self.ix_close_account_paid_by(macct, signer, signer)
    }
    /// close with a fee payer (rent receiver) that may differ from the authority (a relayer / sponsor wallet)
    pub fn ix_close_account_paid_by(&self, macct: Pubkey, signer: Pubkey, fee_payer: Pubkey) -> Instruction {
        mfi_ix(
            marginfi::accounts::MarginfiAccountClose { marginfi_account: macct, authority: signer, fee_payer }.to_account_metas(Some(true)),
            marginfi::instruction::MarginfiAccountClose {}.data(),
        )
    }
    pub fn ix_transfer_account(&self, old: Pubkey, new: Pubkey, signer: Pubkey, new_authority: Pubkey) -> Instruction {
        mfi_ix(
            marginfi::accounts::TransferToNewAccount {
                group: self.group,
                old_marginfi_account: old,
                new_marginfi_account: new,
                authority: signer,
                fee_payer: signer,
                new_authority,
                global_fee_wallet: self.fee_wallet,
                system_program: system_program::ID,
            }
            .to_account_metas(Some(true)),
            marginfi::instruction::TransferToNewAccount {}.data(),
        )
    }
    /// PDA of a marginfi account created by `transfer_to_new_account_pda` / `marginfi_account_initialize_pda`
    pub fn macct_pda(&self, authority: &Pubkey, index: u16) -> Pubkey {
        Pubkey::find_program_address(&[b"marginfi_account", self.group.as_ref(), authority.as_ref(), &index.to_le_bytes(), &0u16.to_le_bytes()], &marginfi::ID).0
    }
    pub fn ix_transfer_account_pda(&self, old: Pubkey, signer: Pubkey, new_authority: Pubkey, index: u16) -> Instruction {
        mfi_ix(
            marginfi::accounts::TransferToNewAccountPda {
                group: self.group,
                old_marginfi_account: old,
                new_marginfi_account: self.macct_pda(&new_authority, index),
                authority: signer,
                fee_payer: signer,
                new_authority,
                global_fee_wallet: self.fee_wallet,
                instructions_sysvar: solana_program::sysvar::instructions::ID,
                system_program: system_program::ID,
            }
            .to_account_metas(Some(true)),
            marginfi::instruction::TransferToNewAccountPda { account_index: index, third_party_id: None }.data(),
        )
    }
    pub fn ix_close_bank(&self, bi: usize, signer: Pubkey) -> Instruction {
        mfi_ix(
            marginfi::accounts::LendingPoolCloseBank { group: self.group, bank: self.banks[bi].key, admin: signer }.to_account_metas(Some(true)),
            marginfi::instruction::LendingPoolCloseBank {}.data(),
        )
    }
    pub fn ix_force_tokenless_complete(&self, bi: usize, signer: Pubkey) -> Instruction {
        mfi_ix(
            marginfi::accounts::LendingPoolForceTokenlessRepayComplete { group: self.group, risk_admin: signer, bank: self.banks[bi].key }.to_account_metas(Some(true)),
            marginfi::instruction::LendingPoolForceTokenlessRepayComplete {}.data(),
        )
    }
    pub fn ix_purge(&self, macct: Pubkey, bi: usize, signer: Pubkey) -> Instruction {
        mfi_ix(
            marginfi::accounts::LendingAccountPurgeDelevBalance { group: self.group, marginfi_account: macct, risk_admin: signer, bank: self.banks[bi].key }.to_account_metas(Some(true)),
            marginfi::instruction::PurgeDeleverageBalance {}.data(),
        )
    }
    pub fn ix_pulse_health(&self, macct: Pubkey) -> Instruction {
        let mut m = marginfi::accounts::PulseHealth { marginfi_account: macct }.to_account_metas(Some(true));
        m.extend(self.risk_metas(&macct, None, None));
        mfi_ix(m, marginfi::instruction::LendingAccountPulseHealth {}.data())
    }
    pub fn ix_panic_pause(&self, signer: Pubkey) -> Instruction {
        mfi_ix(marginfi::accounts::PanicPause { global_fee_admin: signer, fee_state: self.fee_state }.to_account_metas(Some(true)), marginfi::instruction::PanicPause {}.data())
    }
    pub fn ix_panic_unpause(&self, signer: Pubkey) -> Instruction {
        mfi_ix(marginfi::accounts::PanicUnpause { global_fee_admin: signer, fee_state: self.fee_state }.to_account_metas(Some(true)), marginfi::instruction::PanicUnpause {}.data())
    }
    pub fn ix_panic_unpause_permissionless(&self) -> Instruction {
        mfi_ix(marginfi::accounts::PanicUnpausePermissionless { fee_state: self.fee_state }.to_account_metas(Some(true)), marginfi::instruction::PanicUnpausePermissionless {}.data())
    }
    pub fn ix_propagate_fee_state(&self) -> Instruction {
        mfi_ix(marginfi::accounts::PropagateFee { fee_state: self.fee_state, marginfi_group: self.group }.to_account_metas(Some(true)), marginfi::instruction::PropagateFeeState {}.data())
    }
}

pub fn read_bank(vm: &Vm, k: &Pubkey) -> Bank {
    let d = vm.data(k);
    bytemuck::pod_read_unaligned::<Bank>(&d[8..8 + std::mem::size_of::<Bank>()])
}
pub fn try_read_bank(vm: &Vm, k: &Pubkey) -> Option<Bank> {
    let a = vm.get(k)?;
    if a.owner != marginfi::ID || a.data.len() != 8 + std::mem::size_of::<Bank>() || a.data[..8] != Bank::DISCRIMINATOR {
        return None;
    }
    Some(bytemuck::pod_read_unaligned::<Bank>(&a.data[8..]))
}
pub fn read_macct(vm: &Vm, k: &Pubkey) -> Option<MarginfiAccount> {
    let a = vm.get(k)?;
    if a.owner != marginfi::ID || a.data.len() != 8 + std::mem::size_of::<MarginfiAccount>() || a.data[..8] != MarginfiAccount::DISCRIMINATOR {
        return None;
    }
    Some(bytemuck::pod_read_unaligned::<MarginfiAccount>(&a.data[8..]))
}
/// every MarginfiAccount in the store
pub fn all_maccts(vm: &Vm) -> Vec<(Pubkey, MarginfiAccount)> {
    let mut v = vec![];
    for (k, a) in vm.accts.iter() {
        if a.owner == marginfi::ID && a.data.len() == 8 + std::mem::size_of::<MarginfiAccount>() && a.data[..8] == MarginfiAccount::DISCRIMINATOR {
            v.push((*k, bytemuck::pod_read_unaligned::<MarginfiAccount>(&a.data[8..])));
        }
    }
    v
}
pub fn all_banks(vm: &Vm) -> Vec<(Pubkey, Bank)> {
    let mut v = vec![];
    for (k, a) in vm.accts.iter() {
        if a.owner == marginfi::ID && a.data.len() == 8 + std::mem::size_of::<Bank>() && a.data[..8] == Bank::DISCRIMINATOR {
            v.push((*k, bytemuck::pod_read_unaligned::<Bank>(&a.data[8..])));
        }
    }
    v
}

// ------------------------------------------------------------------------------------------
// emissions (campaign): one classic-SPL emissions mint shared by all banks of the world
// ------------------------------------------------------------------------------------------
pub fn em_auth(bank: &Pubkey, mint: &Pubkey) -> Pubkey {
    Pubkey::find_program_address(&[b"emissions_auth_seed", bank.as_ref(), mint.as_ref()], &marginfi::ID).0
}
pub fn em_vault(bank: &Pubkey, mint: &Pubkey) -> Pubkey {
    Pubkey::find_program_address(&[b"emissions_token_account_seed", bank.as_ref(), mint.as_ref()], &marginfi::ID).0
}

impl World {
    pub fn emissions_mint(&self) -> Pubkey {
        kp("campaign_emissions_mint", 0)
    }
    /// fabricate the emissions mint and the admin's funding account on first use
    pub fn ensure_emissions_fixtures(&mut self) -> (Pubkey, Pubkey) {
        let mint = self.emissions_mint();
        if self.vm.get(&mint).is_none() {
            self.vm.set(mint, spl_mint_acct(6));
        }
        let funding = kp("campaign_emissions_funding", 0);
        if self.vm.get(&funding).is_none() {
            self.vm.set(funding, spl_token_acct(mint, self.roles.emissions, 1 << 60));
        }
        (mint, funding)
    }
    pub fn emissions_destination(&mut self, owner: Pubkey, n: u64) -> Pubkey {
        let mint = self.emissions_mint();
        let k = kp("campaign_emissions_dest", n);
        if self.vm.get(&k).is_none() {
            self.vm.set(k, spl_token_acct(mint, owner, 0));
        }
        k
    }
    pub fn ix_setup_emissions(&self, bi: usize, funding: Pubkey, flags: u64, rate: u64, total: u64) -> Instruction {
        let b = self.banks[bi].key;
        let mint = self.emissions_mint();
        mfi_ix(
            marginfi::accounts::LendingPoolSetupEmissions {
                group: self.group,
                delegate_emissions_admin: self.roles.emissions,
                bank: b,
                emissions_mint: mint,
                emissions_auth: em_auth(&b, &mint),
                emissions_token_account: em_vault(&b, &mint),
                emissions_funding_account: funding,
                token_program: spl_token::ID,
                system_program: system_program::ID,
            }
            .to_account_metas(Some(true)),
            marginfi::instruction::LendingPoolSetupEmissions { flags, rate, total_emissions: total }.data(),
        )
    }
    pub fn ix_withdraw_emissions(&self, macct: Pubkey, signer: Pubkey, bi: usize, dst: Pubkey) -> Instruction {
        let b = self.banks[bi].key;
        let mint = self.emissions_mint();
        mfi_ix(
            marginfi::accounts::LendingAccountWithdrawEmissions {
                group: self.group,
                marginfi_account: macct,
                authority: signer,
                bank: b,
                emissions_mint: mint,
                emissions_auth: em_auth(&b, &mint),
                emissions_vault: em_vault(&b, &mint),
                destination_account: dst,
                token_program: spl_token::ID,
            }
            .to_account_metas(Some(true)),
            marginfi::instruction::LendingAccountWithdrawEmissions {}.data(),
        )
    }
    pub fn ix_settle_emissions(&self, macct: Pubkey, bi: usize) -> Instruction {
        mfi_ix(
            marginfi::accounts::LendingAccountSettleEmissions { marginfi_account: macct, bank: self.banks[bi].key }.to_account_metas(Some(true)),
            marginfi::instruction::LendingAccountSettleEmissions {}.data(),
        )
    }
}
