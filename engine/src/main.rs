// SPIKE ONLY (feasibility probe for DESIGN.md) -- not framework code.
use anchor_lang::{InstructionData, ToAccountMetas};
use solana_program::{
    account_info::AccountInfo,
    entrypoint::ProgramResult,
    instruction::{AccountMeta, Instruction},
    program_error::ProgramError,
    program_pack::Pack,
    program_stubs,
    pubkey::Pubkey,
    system_instruction::SystemInstruction,
    system_program,
};
use std::cell::RefCell;
use std::collections::BTreeMap;

#[derive(Clone, Debug, Default, PartialEq)]
struct Acct {
    lamports: u64,
    data: Vec<u8>,
    owner: Pubkey,
    executable: bool,
}

thread_local! {
    static CLOCK: RefCell<solana_program::clock::Clock> = RefCell::new(Default::default());
    static STACK: RefCell<Vec<Pubkey>> = RefCell::new(vec![]);
    static LOGS: RefCell<Vec<String>> = RefCell::new(vec![]);
}

struct Stubs;
impl program_stubs::SyscallStubs for Stubs {
    fn sol_log(&self, m: &str) {
        LOGS.with(|l| l.borrow_mut().push(m.to_string()));
    }
    fn sol_log_data(&self, _f: &[&[u8]]) {}
    fn sol_get_clock_sysvar(&self, var_addr: *mut u8) -> u64 {
        CLOCK.with(|c| unsafe { *(var_addr as *mut solana_program::clock::Clock) = c.borrow().clone() });
        0
    }
    fn sol_get_rent_sysvar(&self, var_addr: *mut u8) -> u64 {
        unsafe { *(var_addr as *mut solana_program::rent::Rent) = solana_program::rent::Rent::default() };
        0
    }
    fn sol_get_stack_height(&self) -> u64 {
        STACK.with(|s| s.borrow().len() as u64)
    }
    fn sol_invoke_signed(&self, ix: &Instruction, ais: &[AccountInfo], seeds: &[&[&[u8]]]) -> ProgramResult {
        let caller = STACK.with(|s| *s.borrow().last().unwrap());
        let pda_signers: Vec<Pubkey> = seeds
            .iter()
            .map(|s| Pubkey::create_program_address(s, &caller).map_err(|_| ProgramError::InvalidSeeds))
            .collect::<Result<_, _>>()?;
        let mut callee_ais = vec![];
        for m in &ix.accounts {
            let ai = ais.iter().find(|a| *a.key == m.pubkey).ok_or(ProgramError::NotEnoughAccountKeys)?;
            let mut n = ai.clone();
            if m.is_signer && !(ai.is_signer || pda_signers.contains(ai.key)) {
                return Err(ProgramError::MissingRequiredSignature);
            }
            if m.is_writable && !ai.is_writable {
                return Err(ProgramError::Custom(0xdead_0001)); // privilege escalation
            }
            n.is_signer = m.is_signer;
            n.is_writable = m.is_writable;
            callee_ais.push(n);
        }
        STACK.with(|s| s.borrow_mut().push(ix.program_id));
        let r = dispatch(&ix.program_id, &callee_ais, &ix.data);
        STACK.with(|s| s.borrow_mut().pop());
        r
    }
}

fn dispatch(pid: &Pubkey, ais: &[AccountInfo], data: &[u8]) -> ProgramResult {
    if *pid == marginfi::ID {
        let ais: &[AccountInfo] = unsafe { std::mem::transmute(ais) };
        marginfi::entry(pid, ais, data)
    } else if *pid == spl_token::ID {
        spl_token::processor::Processor::process(pid, ais, data)
    } else if *pid == spl_token_2022::ID {
        spl_token_2022::processor::Processor::process(pid, ais, data)
    } else if *pid == system_program::ID {
        system(ais, data)
    } else if *pid == proxy_id() {
        // data = inner program id (32) + inner data; accounts = inner accounts (same flags)
        let inner_pid = Pubkey::new_from_array(data[..32].try_into().unwrap());
        let metas: Vec<AccountMeta> = ais.iter().map(|a| AccountMeta { pubkey: *a.key, is_signer: a.is_signer, is_writable: a.is_writable }).collect();
        let ix = Instruction { program_id: inner_pid, accounts: metas, data: data[32..].to_vec() };
        solana_program::program::invoke(&ix, ais)
    } else {
        Err(ProgramError::IncorrectProgramId)
    }
}

fn proxy_id() -> Pubkey { Pubkey::new_from_array([7u8; 32]) }

fn system(ais: &[AccountInfo], data: &[u8]) -> ProgramResult {
    let ix: SystemInstruction = bincode_de(data)?;
    match ix {
        SystemInstruction::CreateAccount { lamports, space, owner } => {
            let (from, to) = (&ais[0], &ais[1]);
            if !from.is_signer || !to.is_signer {
                return Err(ProgramError::MissingRequiredSignature);
            }
            if **to.lamports.borrow() != 0 || to.data_len() != 0 || *to.owner != system_program::ID {
                return Err(ProgramError::AccountAlreadyInitialized);
            }
            if **from.lamports.borrow() < lamports {
                return Err(ProgramError::InsufficientFunds);
            }
            **from.lamports.borrow_mut() -= lamports;
            **to.lamports.borrow_mut() += lamports;
            to.realloc(space as usize, true)?;
            to.assign(&owner);
            Ok(())
        }
        SystemInstruction::Transfer { lamports } => {
            let (from, to) = (&ais[0], &ais[1]);
            if !from.is_signer {
                return Err(ProgramError::MissingRequiredSignature);
            }
            if **from.lamports.borrow() < lamports {
                return Err(ProgramError::InsufficientFunds);
            }
            **from.lamports.borrow_mut() -= lamports;
            **to.lamports.borrow_mut() += lamports;
            Ok(())
        }
        SystemInstruction::Allocate { space } => ais[0].realloc(space as usize, true),
        SystemInstruction::Assign { owner } => {
            ais[0].assign(&owner);
            Ok(())
        }
        _ => Err(ProgramError::InvalidInstructionData),
    }
}

fn bincode_de(data: &[u8]) -> Result<SystemInstruction, ProgramError> {
    solana_program::program_utils::limited_deserialize(data, 1232).map_err(|_| ProgramError::InvalidInstructionData)
}

struct Vm {
    accts: BTreeMap<Pubkey, Acct>,
}

impl Vm {
    fn exec(&mut self, ix: &Instruction) -> ProgramResult {
        // serialize in entrypoint layout
        let mut uniq: Vec<(Pubkey, bool, bool)> = vec![];
        let mut order: Vec<usize> = vec![];
        for m in &ix.accounts {
            if let Some(i) = uniq.iter().position(|u| u.0 == m.pubkey) {
                uniq[i].1 |= m.is_signer;
                uniq[i].2 |= m.is_writable;
                order.push(i);
            } else {
                uniq.push((m.pubkey, m.is_signer, m.is_writable));
                order.push(uniq.len() - 1);
            }
        }
        let mut buf: Vec<u64> = vec![];
        let mut bytes: Vec<u8> = vec![];
        bytes.extend_from_slice(&(ix.accounts.len() as u64).to_le_bytes());
        let mut first_pos: Vec<Option<usize>> = vec![None; uniq.len()];
        for (pos, &ui) in order.iter().enumerate() {
            if let Some(fp) = first_pos[ui] {
                bytes.push(fp as u8);
                bytes.extend_from_slice(&[0u8; 7]);
                continue;
            }
            first_pos[ui] = Some(pos);
            let (k, s, w) = uniq[ui];
            let a = self.accts.get(&k).cloned().unwrap_or(Acct { owner: system_program::ID, ..Default::default() });
            bytes.push(u8::MAX);
            bytes.push(s as u8);
            bytes.push(w as u8);
            bytes.push(a.executable as u8);
            bytes.extend_from_slice(&[0u8; 4]);
            bytes.extend_from_slice(k.as_ref());
            bytes.extend_from_slice(a.owner.as_ref());
            bytes.extend_from_slice(&a.lamports.to_le_bytes());
            bytes.extend_from_slice(&(a.data.len() as u64).to_le_bytes());
            bytes.extend_from_slice(&a.data);
            bytes.extend(std::iter::repeat(0u8).take(10240));
            while bytes.len() % 8 != 0 {
                bytes.push(0);
            }
            bytes.extend_from_slice(&0u64.to_le_bytes());
        }
        bytes.extend_from_slice(&(ix.data.len() as u64).to_le_bytes());
        bytes.extend_from_slice(&ix.data);
        bytes.extend_from_slice(ix.program_id.as_ref());
        buf.resize((bytes.len() + 7) / 8, 0);
        let p = buf.as_mut_ptr() as *mut u8;
        unsafe { std::ptr::copy_nonoverlapping(bytes.as_ptr(), p, bytes.len()) };
        let (pid, ais, data) = unsafe { solana_program::entrypoint::deserialize(p) };
        STACK.with(|s| {
            s.borrow_mut().clear();
            s.borrow_mut().push(*pid)
        });
        let r = std::panic::catch_unwind(std::panic::AssertUnwindSafe(|| dispatch(pid, &ais, data)))
            .unwrap_or(Err(ProgramError::Custom(0xdead_beef)));
        if r.is_ok() {
            for (pos, &ui) in order.iter().enumerate() {
                if first_pos[ui] != Some(pos) {
                    continue;
                }
                let ai = &ais[pos];
                let new = Acct {
                    lamports: **ai.lamports.borrow(),
                    data: ai.data.borrow().to_vec(),
                    owner: *ai.owner,
                    executable: ai.executable,
                };
                self.accts.insert(*ai.key, new);
            }
        }
        r
    }
}

impl Vm {
    fn exec_tx(&mut self, ixs: &[Instruction]) -> Result<(), (usize, ProgramError)> {
        use solana_program::sysvar::instructions::{construct_instructions_data, BorrowedAccountMeta, BorrowedInstruction, store_current_index};
        let snap = self.accts.clone();
        let b: Vec<BorrowedInstruction> = ixs.iter().map(|ix| BorrowedInstruction {
            program_id: &ix.program_id,
            accounts: ix.accounts.iter().map(|m| BorrowedAccountMeta { pubkey: &m.pubkey, is_signer: m.is_signer, is_writable: m.is_writable }).collect(),
            data: &ix.data,
        }).collect();
        let mut data = construct_instructions_data(&b);
        for (i, ix) in ixs.iter().enumerate() {
            store_current_index(&mut data, i as u16);
            self.accts.insert(solana_program::sysvar::instructions::ID, Acct { lamports: 1, data: data.clone(), owner: solana_program::sysvar::ID, executable: false });
            if let Err(e) = self.exec(ix) {
                self.accts = snap;
                return Err((i, e));
            }
        }
        self.accts.remove(&solana_program::sysvar::instructions::ID);
        Ok(())
    }
}

fn pyth_account(price: i64, conf: u64, expo: i32, t: i64) -> Acct {
    use anchor_lang::{AnchorSerialize, Discriminator};
    use pyth_solana_receiver_sdk::price_update::{PriceFeedMessage, PriceUpdateV2, VerificationLevel};
    let p = PriceUpdateV2 { write_authority: Pubkey::default(), verification_level: VerificationLevel::Full,
        price_message: PriceFeedMessage { feed_id: [9u8; 32], price, conf, exponent: expo, publish_time: t, prev_publish_time: t, ema_price: price, ema_conf: conf }, posted_slot: 1 };
    let mut d = PriceUpdateV2::DISCRIMINATOR.to_vec();
    p.serialize(&mut d).unwrap();
    Acct { lamports: 1_000_000_000, data: d, owner: pyth_solana_receiver_sdk::ID, executable: false }
}

fn i80(x: f64) -> marginfi_type_crate::types::WrappedI80F48 { fixed::types::I80F48::from_num(x).into() }

fn std_cfg(lwi: f64, lwm: f64) -> marginfi_type_crate::types::BankConfigCompact {
    let mut c = marginfi_type_crate::types::BankConfigCompact::default();
    c.asset_weight_init = i80(0.5); c.asset_weight_maint = i80(0.75);
    c.liability_weight_init = i80(lwi); c.liability_weight_maint = i80(lwm);
    c.deposit_limit = u64::MAX; c.borrow_limit = u64::MAX; c.oracle_max_age = 100;
    c.risk_tier = marginfi_type_crate::types::RiskTier::Collateral;
    c.operational_state = marginfi_type_crate::types::BankOperationalState::Operational;
    c.interest_rate_config.hundred_util_rate = 1_000_000;
    c
}

#[allow(clippy::too_many_arguments)]
fn add_bank(vm: &mut Vm, group: Pubkey, admin: Pubkey, fee_state: Pubkey, wallet: Pubkey, mint: Pubkey, token_program: Pubkey, cfg: marginfi_type_crate::types::BankConfigCompact) -> (Pubkey, ProgramResult) {
    let bank = Pubkey::new_unique();
    let p = |s: &str| Pubkey::find_program_address(&[s.as_bytes(), bank.as_ref()], &marginfi::ID).0;
    let ix = Instruction { program_id: marginfi::ID, accounts: marginfi::accounts::LendingPoolAddBank {
        marginfi_group: group, admin, fee_payer: admin, fee_state, global_fee_wallet: wallet, bank_mint: mint, bank,
        liquidity_vault_authority: p("liquidity_vault_auth"), liquidity_vault: p("liquidity_vault"),
        insurance_vault_authority: p("insurance_vault_auth"), insurance_vault: p("insurance_vault"),
        fee_vault_authority: p("fee_vault_auth"), fee_vault: p("fee_vault"), token_program, system_program: system_program::ID }.to_account_metas(Some(true)),
        data: marginfi::instruction::LendingPoolAddBank { bank_config: cfg }.data() };
    let r = vm.exec(&ix);
    (bank, r)
}

fn bank_ref(vm: &Vm, bank: &Pubkey) -> marginfi_type_crate::types::Bank {
    *bytemuck::from_bytes::<marginfi_type_crate::types::Bank>(&vm.accts[bank].data[8..])
}
fn fx(w: marginfi_type_crate::types::WrappedI80F48) -> f64 { fixed::types::I80F48::from(w).to_num::<f64>() }
fn last_logs(n: usize) { LOGS.with(|l| for m in l.borrow().iter().rev().take(n).rev() { println!("  log: {m}") }); }

fn main() {
    program_stubs::set_syscall_stubs(Box::new(Stubs));
    std::panic::set_hook(Box::new(|_| {}));
    CLOCK.with(|c| c.borrow_mut().unix_timestamp = 1_700_000_000);
    let mut vm = Vm { accts: BTreeMap::new() };
    let admin = Pubkey::new_unique();
    let wallet = Pubkey::new_unique();
    vm.accts.insert(admin, Acct { lamports: 1_000_000_000_000, owner: system_program::ID, ..Default::default() });
    for p in [system_program::ID, spl_token::ID, marginfi::ID] {
        vm.accts.insert(p, Acct { lamports: 1, executable: true, owner: solana_program::bpf_loader::ID, ..Default::default() });
    }
    let (fee_state, _) = Pubkey::find_program_address(&[b"feestate"], &marginfi::ID);
    let ix = Instruction {
        program_id: marginfi::ID,
        accounts: marginfi::accounts::InitFeeState { payer: admin, fee_state, system_program: system_program::ID }
            .to_account_metas(Some(true)),
        data: marginfi::instruction::InitGlobalFeeState {
            admin,
            fee_wallet: wallet,
            bank_init_flat_sol_fee: 5000,
            liquidation_flat_sol_fee: 0,
            program_fee_fixed: fixed::types::I80F48::ZERO.into(),
            program_fee_rate: fixed::types::I80F48::ZERO.into(),
            liquidation_max_fee: fixed::types::I80F48::from_num(0.05).into(),
        }
        .data(),
    };
    println!("init fee state: {:?}", vm.exec(&ix));
    let group = Pubkey::new_unique();
    let ix = Instruction {
        program_id: marginfi::ID,
        accounts: marginfi::accounts::MarginfiGroupInitialize { marginfi_group: group, admin, fee_state, system_program: system_program::ID }
            .to_account_metas(Some(true)),
        data: marginfi::instruction::MarginfiGroupInitialize {}.data(),
    };
    println!("group init: {:?}", vm.exec(&ix));
    // mint
    let mint = Pubkey::new_unique();
    let mut md = vec![0u8; spl_token::state::Mint::LEN];
    spl_token::state::Mint { is_initialized: true, decimals: 6, supply: 0, ..Default::default() }.pack_into_slice(&mut md);
    vm.accts.insert(mint, Acct { lamports: 1_000_000_000, data: md, owner: spl_token::ID, executable: false });
    let bank = Pubkey::new_unique();
    let pda = |s: &str| Pubkey::find_program_address(&[s.as_bytes(), bank.as_ref()], &marginfi::ID).0;
    let mut cfg = marginfi_type_crate::types::BankConfigCompact::default();
    cfg.asset_weight_init = fixed::types::I80F48::from_num(0.5).into();
    cfg.asset_weight_maint = fixed::types::I80F48::from_num(0.75).into();
    cfg.liability_weight_init = fixed::types::I80F48::from_num(1.5).into();
    cfg.liability_weight_maint = fixed::types::I80F48::from_num(1.25).into();
    cfg.deposit_limit = u64::MAX;
    cfg.borrow_limit = u64::MAX;
    cfg.oracle_max_age = 100; cfg.risk_tier = marginfi_type_crate::types::RiskTier::Collateral;
    cfg.operational_state = marginfi_type_crate::types::BankOperationalState::Operational;
    cfg.interest_rate_config.hundred_util_rate = 1_000_000;
    let ix = Instruction {
        program_id: marginfi::ID,
        accounts: marginfi::accounts::LendingPoolAddBank {
            marginfi_group: group,
            admin,
            fee_payer: admin,
            fee_state,
            global_fee_wallet: wallet,
            bank_mint: mint,
            bank,
            liquidity_vault_authority: pda("liquidity_vault_auth"),
            liquidity_vault: pda("liquidity_vault"),
            insurance_vault_authority: pda("insurance_vault_auth"),
            insurance_vault: pda("insurance_vault"),
            fee_vault_authority: pda("fee_vault_auth"),
            fee_vault: pda("fee_vault"),
            token_program: spl_token::ID,
            system_program: system_program::ID,
        }
        .to_account_metas(Some(true)),
        data: marginfi::instruction::LendingPoolAddBank { bank_config: cfg }.data(),
    };
    let r = vm.exec(&ix);
    println!("add bank: {:?}", r);
    if r.is_err() {
        LOGS.with(|l| for m in l.borrow().iter().rev().take(12).rev() { println!("  log: {m}") });
    }
    println!("wallet lamports {}", vm.accts.get(&wallet).map(|a| a.lamports).unwrap_or(0));
    println!("bank acct len {:?} owner {:?}", vm.accts.get(&bank).map(|a| a.data.len()), vm.accts.get(&bank).map(|a| a.owner));
    // fixed oracle price
    let ix = Instruction {
        program_id: marginfi::ID,
        accounts: marginfi::accounts::LendingPoolSetFixedOraclePrice { group, admin, bank }.to_account_metas(Some(true)),
        data: marginfi::instruction::LendingPoolSetFixedOraclePrice { price: fixed::types::I80F48::from_num(2).into() }.data(),
    };
    println!("fixed price: {:?}", vm.exec(&ix));
    // user account
    let user = Pubkey::new_unique();
    vm.accts.insert(user, Acct { lamports: 10_000_000_000, owner: system_program::ID, ..Default::default() });
    let macct = Pubkey::new_unique();
    let ix = Instruction {
        program_id: marginfi::ID,
        accounts: marginfi::accounts::MarginfiAccountInitialize { marginfi_group: group, marginfi_account: macct, authority: user, fee_payer: user, system_program: system_program::ID }
            .to_account_metas(Some(true)),
        data: marginfi::instruction::MarginfiAccountInitialize {}.data(),
    };
    println!("acct init: {:?}", vm.exec(&ix));
    let uta = Pubkey::new_unique();
    let mut td = vec![0u8; spl_token::state::Account::LEN];
    spl_token::state::Account { mint, owner: user, amount: 1_000_000_000, state: spl_token::state::AccountState::Initialized, ..Default::default() }
        .pack_into_slice(&mut td);
    vm.accts.insert(uta, Acct { lamports: 1_000_000_000, data: td, owner: spl_token::ID, executable: false });
    let dep = |auth: Pubkey, amt: u64| Instruction {
        program_id: marginfi::ID,
        accounts: marginfi::accounts::LendingAccountDeposit {
            group,
            marginfi_account: macct,
            authority: auth,
            bank,
            signer_token_account: uta,
            liquidity_vault: pda("liquidity_vault"),
            token_program: spl_token::ID,
        }
        .to_account_metas(Some(true)),
        data: marginfi::instruction::LendingAccountDeposit { amount: amt, deposit_up_to_limit: None }.data(),
    };
    println!("deposit by stranger: {:?}", vm.exec(&dep(admin, 5)));
    let t = std::time::Instant::now();
    let mut ok = 0;
    for i in 0..2000 {
        CLOCK.with(|c| c.borrow_mut().unix_timestamp += 1);
        if vm.exec(&dep(user, 1000 + i)).is_ok() {
            ok += 1
        }
    }
    println!("2000 deposits ok={} in {:?}", ok, t.elapsed());
    let mut wa = marginfi::accounts::LendingAccountWithdraw {
        group,
        marginfi_account: macct,
        authority: user,
        bank,
        destination_token_account: uta,
        bank_liquidity_vault_authority: pda("liquidity_vault_auth"),
        liquidity_vault: pda("liquidity_vault"),
        token_program: spl_token::ID,
    }
    .to_account_metas(Some(true));
    wa.push(AccountMeta::new_readonly(bank, false));
    let ix = Instruction { program_id: marginfi::ID, accounts: wa, data: marginfi::instruction::LendingAccountWithdraw { amount: 77, withdraw_all: None }.data() };
    let r = vm.exec(&ix);
    println!("withdraw: {:?}", r);
    if r.is_err() {
        LOGS.with(|l| for m in l.borrow().iter().rev().take(12).rev() { println!("  log: {m}") });
    }
    let va = spl_token::state::Account::unpack(&vm.accts[&pda("liquidity_vault")].data).unwrap();
    println!("vault amount {}", va.amount);

    // ---------------- scenario 2: pyth bank, borrow, receivership bracket ----------------
    let now = CLOCK.with(|c| c.borrow().unix_timestamp);
    let mint2 = Pubkey::new_unique();
    let mut md = vec![0u8; spl_token::state::Mint::LEN];
    spl_token::state::Mint { is_initialized: true, decimals: 6, supply: 0, ..Default::default() }.pack_into_slice(&mut md);
    vm.accts.insert(mint2, Acct { lamports: 1_000_000_000, data: md, owner: spl_token::ID, executable: false });
    let bank2 = Pubkey::new_unique();
    let pda2 = |s: &str| Pubkey::find_program_address(&[s.as_bytes(), bank2.as_ref()], &marginfi::ID).0;
    let mut cfg2 = marginfi_type_crate::types::BankConfigCompact::default();
    cfg2.asset_weight_init = fixed::types::I80F48::from_num(0.5).into();
    cfg2.asset_weight_maint = fixed::types::I80F48::from_num(0.75).into();
    cfg2.liability_weight_init = fixed::types::I80F48::from_num(1.5).into();
    cfg2.liability_weight_maint = fixed::types::I80F48::from_num(1.25).into();
    cfg2.deposit_limit = u64::MAX; cfg2.borrow_limit = u64::MAX; cfg2.oracle_max_age = 100;
    cfg2.risk_tier = marginfi_type_crate::types::RiskTier::Collateral;
    cfg2.operational_state = marginfi_type_crate::types::BankOperationalState::Operational;
    cfg2.interest_rate_config.hundred_util_rate = 1_000_000;
    let ix = Instruction { program_id: marginfi::ID, accounts: marginfi::accounts::LendingPoolAddBank {
        marginfi_group: group, admin, fee_payer: admin, fee_state, global_fee_wallet: wallet, bank_mint: mint2, bank: bank2,
        liquidity_vault_authority: pda2("liquidity_vault_auth"), liquidity_vault: pda2("liquidity_vault"),
        insurance_vault_authority: pda2("insurance_vault_auth"), insurance_vault: pda2("insurance_vault"),
        fee_vault_authority: pda2("fee_vault_auth"), fee_vault: pda2("fee_vault"), token_program: spl_token::ID, system_program: system_program::ID }.to_account_metas(Some(true)),
        data: marginfi::instruction::LendingPoolAddBank { bank_config: cfg2 }.data() };
    println!("add bank2: {:?}", vm.exec(&ix));
    let oracle2 = Pubkey::new_unique();
    vm.accts.insert(oracle2, pyth_account(1_000_000, 0, -6, now));
    let mut m = marginfi::accounts::LendingPoolConfigureBankOracle { group, admin, bank: bank2 }.to_account_metas(Some(true));
    m.push(AccountMeta::new_readonly(oracle2, false));
    let ix = Instruction { program_id: marginfi::ID, accounts: m, data: marginfi::instruction::LendingPoolConfigureBankOracle { setup: 3, oracle: oracle2 }.data() };
    println!("config oracle2: {:?}", vm.exec(&ix));
    let mk_ta = |vm: &mut Vm, mint: Pubkey, owner: Pubkey, amount: u64| { let k = Pubkey::new_unique(); let mut td = vec![0u8; spl_token::state::Account::LEN];
        spl_token::state::Account { mint, owner, amount, state: spl_token::state::AccountState::Initialized, ..Default::default() }.pack_into_slice(&mut td);
        vm.accts.insert(k, Acct { lamports: 1_000_000_000, data: td, owner: spl_token::ID, executable: false }); k };
    let user2 = Pubkey::new_unique();
    vm.accts.insert(user2, Acct { lamports: 10_000_000_000, owner: system_program::ID, ..Default::default() });
    let macct2 = Pubkey::new_unique();
    let ix = Instruction { program_id: marginfi::ID, accounts: marginfi::accounts::MarginfiAccountInitialize { marginfi_group: group, marginfi_account: macct2, authority: user2, fee_payer: user2, system_program: system_program::ID }.to_account_metas(Some(true)), data: marginfi::instruction::MarginfiAccountInitialize {}.data() };
    println!("acct2 init: {:?}", vm.exec(&ix));
    let u2ta = mk_ta(&mut vm, mint2, user2, 1_000_000_000);
    let ix = Instruction { program_id: marginfi::ID, accounts: marginfi::accounts::LendingAccountDeposit { group, marginfi_account: macct2, authority: user2, bank: bank2, signer_token_account: u2ta, liquidity_vault: pda2("liquidity_vault"), token_program: spl_token::ID }.to_account_metas(Some(true)), data: marginfi::instruction::LendingAccountDeposit { amount: 100_000_000, deposit_up_to_limit: None }.data() };
    println!("user2 deposit bank2: {:?}", vm.exec(&ix));
    // user1 borrows from bank2
    let uta2 = mk_ta(&mut vm, mint2, user, 0);
    let risk = |banks: &[(Pubkey, Option<Pubkey>)]| { let mut v: Vec<_> = banks.to_vec(); v.sort_by(|a, b| b.0.cmp(&a.0)); let mut out = vec![]; for (b, o) in v { out.push(AccountMeta::new_readonly(b, false)); if let Some(o) = o { out.push(AccountMeta::new_readonly(o, false)); } } out };
    let mut m = marginfi::accounts::LendingAccountBorrow { group, marginfi_account: macct, authority: user, bank: bank2, destination_token_account: uta2, bank_liquidity_vault_authority: pda2("liquidity_vault_auth"), liquidity_vault: pda2("liquidity_vault"), token_program: spl_token::ID }.to_account_metas(Some(true));
    m.extend(risk(&[(bank, None), (bank2, Some(oracle2))]));
    let ix = Instruction { program_id: marginfi::ID, accounts: m.clone(), data: marginfi::instruction::LendingAccountBorrow { amount: 2_000_000 }.data() };
    println!("borrow 2.0 B: {:?}", vm.exec(&ix));
    let ix_big = Instruction { program_id: marginfi::ID, accounts: m, data: marginfi::instruction::LendingAccountBorrow { amount: 1_000_000 }.data() };
    println!("borrow 1.0 more B (should fail health): {:?}", vm.exec(&ix_big));
    // price of B -> $3
    vm.accts.insert(oracle2, pyth_account(3_000_000, 0, -6, now));
    let liq = Pubkey::new_unique();
    vm.accts.insert(liq, Acct { lamports: 10_000_000_000, owner: system_program::ID, ..Default::default() });
    let (record, _) = Pubkey::find_program_address(&[b"liq_record", macct.as_ref()], &marginfi::ID);
    let ix_init = Instruction { program_id: marginfi::ID, accounts: marginfi::accounts::InitLiquidationRecord { marginfi_account: macct, fee_payer: liq, liquidation_record: record, system_program: system_program::ID }.to_account_metas(Some(true)), data: marginfi::instruction::MarginfiAccountInitLiqRecord {}.data() };
    println!("init liq record: {:?}", vm.exec(&ix_init));
    let lta_a = mk_ta(&mut vm, mint, liq, 0);
    let lta_b = mk_ta(&mut vm, mint2, liq, 5_000_000);
    let rk = risk(&[(bank, None), (bank2, Some(oracle2))]);
    let mut ms = marginfi::accounts::StartLiquidation { marginfi_account: macct, liquidation_record: record, liquidation_receiver: liq, instruction_sysvar: solana_program::sysvar::instructions::ID }.to_account_metas(Some(true));
    ms.extend(rk.clone());
    let ix_start = Instruction { program_id: marginfi::ID, accounts: ms, data: marginfi::instruction::StartLiquidation {}.data() };
    let mut mw = marginfi::accounts::LendingAccountWithdraw { group, marginfi_account: macct, authority: liq, bank, destination_token_account: lta_a, bank_liquidity_vault_authority: pda("liquidity_vault_auth"), liquidity_vault: pda("liquidity_vault"), token_program: spl_token::ID }.to_account_metas(Some(true));
    mw.extend(rk.clone());
    let ix_w = |a: u64| Instruction { program_id: marginfi::ID, accounts: mw.clone(), data: marginfi::instruction::LendingAccountWithdraw { amount: a, withdraw_all: None }.data() };
    let mr = marginfi::accounts::LendingAccountRepay { group, marginfi_account: macct, authority: liq, bank: bank2, signer_token_account: lta_b, liquidity_vault: pda2("liquidity_vault"), token_program: spl_token::ID }.to_account_metas(Some(true));
    let ix_r = |a: u64| Instruction { program_id: marginfi::ID, accounts: mr.clone(), data: marginfi::instruction::LendingAccountRepay { amount: a, repay_all: None }.data() };
    let mut me = marginfi::accounts::EndLiquidation { marginfi_account: macct, liquidation_record: record, liquidation_receiver: liq, fee_state, global_fee_wallet: wallet, system_program: system_program::ID }.to_account_metas(Some(true));
    me.extend(rk.clone());
    let ix_end = Instruction { program_id: marginfi::ID, accounts: me, data: marginfi::instruction::EndLiquidation {}.data() };
    let flags = |vm: &Vm| u64::from_le_bytes(vm.accts[&macct].data[8 + 64 + 1728..8 + 64 + 1728 + 8].try_into().unwrap());
    println!("stranger withdraw outside bracket: {:?}", vm.exec_tx(&[ix_w(10)]));
    println!("start alone (no end): {:?}", vm.exec_tx(&[ix_start.clone()]));
    println!("start, withdraw (no end): {:?}", vm.exec_tx(&[ix_start.clone(), ix_w(10)]));
    println!("start, borrow, end: {:?}", vm.exec_tx(&[ix_start.clone(), ix_big.clone(), ix_end.clone()]));
    println!("start, W 1.9 (too much premium), R 1.0, end: {:?}", vm.exec_tx(&[ix_start.clone(), ix_w(1_900_000), ix_r(1_000_000), ix_end.clone()]));
    println!("flags before good bracket: {:#x}", flags(&vm));
    let wrap = |ix: &Instruction| { let mut d = ix.program_id.to_bytes().to_vec(); d.extend_from_slice(&ix.data); Instruction { program_id: proxy_id(), accounts: ix.accounts.clone(), data: d } };
    println!("proxy[start], W, R, end: {:?}", vm.exec_tx(&[wrap(&ix_start), ix_w(1_500_000), ix_r(1_000_000), ix_end.clone()]));
    println!("start, W, R, proxy[end]: {:?}", vm.exec_tx(&[ix_start.clone(), ix_w(1_500_000), ix_r(1_000_000), wrap(&ix_end)]));
    println!("GOOD start, W 1.5, R 1.0, end: {:?}", vm.exec_tx(&[ix_start.clone(), ix_w(1_500_000), ix_r(1_000_000), ix_end.clone()]));
    println!("flags after good bracket: {:#x}", flags(&vm));
    let la = spl_token::state::Account::unpack(&vm.accts[&lta_a].data).unwrap().amount;
    let lb = spl_token::state::Account::unpack(&vm.accts[&lta_b].data).unwrap().amount;
    println!("liquidator got A={} has B={}", la, lb);

    // ================= scenario 3: defect probes =================
    println!("---- probes ----");
    let opt = || marginfi_type_crate::types::BankConfigOpt::default();
    let cfg_ix = |bank: Pubkey, o: marginfi_type_crate::types::BankConfigOpt| Instruction { program_id: marginfi::ID,
        accounts: marginfi::accounts::LendingPoolConfigureBank { group, admin, bank }.to_account_metas(Some(true)),
        data: marginfi::instruction::LendingPoolConfigureBank { bank_config_opt: o }.data() };
    // group configure: all roles = admin
    let ix = Instruction { program_id: marginfi::ID, accounts: marginfi::accounts::MarginfiGroupConfigure { marginfi_group: group, admin }.to_account_metas(Some(true)),
        data: marginfi::instruction::MarginfiGroupConfigure { new_admin: admin, new_emode_admin: admin, new_curve_admin: admin, new_limit_admin: admin, new_emissions_admin: admin, new_metadata_admin: admin, new_risk_admin: admin, emode_max_init_leverage: None, emode_max_maint_leverage: None }.data() };
    println!("group configure: {:?}", vm.exec(&ix));

    // ---- F4: deposit_up_to_limit capacity computed before accrual
    let b2 = bank_ref(&vm, &bank2);
    println!("bank2 assets={} liabs={} asv={} lsv={}", fx(b2.total_asset_shares), fx(b2.total_liability_shares), fx(b2.asset_share_value), fx(b2.liability_share_value));
    let mut o = opt(); o.deposit_limit = Some(100_000_100);
    println!("set deposit limit: {:?}", vm.exec(&cfg_ix(bank2, o)));
    CLOCK.with(|c| c.borrow_mut().unix_timestamp += 365 * 86400);
    let snap = vm.accts.clone();
    let dep2 = |amt: u64, up: bool| Instruction { program_id: marginfi::ID, accounts: marginfi::accounts::LendingAccountDeposit { group, marginfi_account: macct2, authority: user2, bank: bank2, signer_token_account: u2ta, liquidity_vault: pda2("liquidity_vault"), token_program: spl_token::ID }.to_account_metas(Some(true)), data: marginfi::instruction::LendingAccountDeposit { amount: amt, deposit_up_to_limit: Some(up) }.data() };
    let r = vm.exec(&dep2(1000, true));
    println!("F4 deposit_up_to_limit(1000) after 1y without prior accrue: {:?}", r); if r.is_err() { last_logs(4); }
    vm.accts = snap.clone();
    let acc_ix = Instruction { program_id: marginfi::ID, accounts: marginfi::accounts::LendingPoolAccrueBankInterest { group, bank: bank2 }.to_account_metas(Some(true)), data: marginfi::instruction::LendingPoolAccrueBankInterest {}.data() };
    println!("accrue first: {:?}", vm.exec(&acc_ix));
    let b2 = bank_ref(&vm, &bank2);
    println!("bank2 after accrue: asset value={}", fx(b2.total_asset_shares) * fx(b2.asset_share_value));
    println!("F4 control: same deposit after explicit accrue: {:?}", vm.exec(&dep2(1000, true)));
    let b2 = bank_ref(&vm, &bank2);
    println!("bank2 after deposit: asset value={} (limit 100000100)", fx(b2.total_asset_shares) * fx(b2.asset_share_value));
    vm.accts = snap;

    // ---- F5: leave KilledByBankruptcy via configure
    {
        let a = vm.accts.get_mut(&bank2).unwrap();
        let b = bytemuck::from_bytes_mut::<marginfi_type_crate::types::Bank>(&mut a.data[8..]);
        b.config.operational_state = marginfi_type_crate::types::BankOperationalState::KilledByBankruptcy;
    }
    println!("deposit into killed bank: {:?}", vm.exec(&dep2(10, false)));
    let mut o = opt(); o.operational_state = Some(marginfi_type_crate::types::BankOperationalState::KilledByBankruptcy);
    println!("configure -> Killed: {:?}", vm.exec(&cfg_ix(bank2, o)));
    let mut o = opt(); o.operational_state = Some(marginfi_type_crate::types::BankOperationalState::Operational);
    println!("F5 configure Killed -> Operational: {:?}", vm.exec(&cfg_ix(bank2, o)));
    println!("F5 deposit into revived bank: {:?} state now {:?}", vm.exec(&dep2(10, false)), bank_ref(&vm, &bank2).config.operational_state);

    // ---- F3: clone_emode without validation
    let mint3 = Pubkey::new_unique();
    let mut md = vec![0u8; spl_token::state::Mint::LEN];
    spl_token::state::Mint { is_initialized: true, decimals: 6, supply: 0, ..Default::default() }.pack_into_slice(&mut md);
    vm.accts.insert(mint3, Acct { lamports: 1_000_000_000, data: md, owner: spl_token::ID, executable: false });
    let (bank3, r) = add_bank(&mut vm, group, admin, fee_state, wallet, mint3, spl_token::ID, std_cfg(1.0, 1.0));
    println!("add bank3 (lw 1.0/1.0): {:?}", r);
    let mut entries = [marginfi_type_crate::types::EmodeEntry { collateral_bank_emode_tag: 0, flags: 0, pad0: [0; 5], asset_weight_init: i80(0.0), asset_weight_maint: i80(0.0) }; marginfi_type_crate::types::MAX_EMODE_ENTRIES];
    entries[0] = marginfi_type_crate::types::EmodeEntry { collateral_bank_emode_tag: 7, flags: 0, pad0: [0; 5], asset_weight_init: i80(1.0), asset_weight_maint: i80(1.1) };
    let em_ix = |bank: Pubkey| Instruction { program_id: marginfi::ID, accounts: marginfi::accounts::LendingPoolConfigureBankEmode { group, emode_admin: admin, bank }.to_account_metas(Some(true)), data: marginfi::instruction::LendingPoolConfigureBankEmode { emode_tag: 7, entries }.data() };
    println!("emode on bank (lw 1.5/1.25), entry 1.0/1.1: {:?}", vm.exec(&em_ix(bank)));
    println!("same emode directly on bank3 (lw 1.0/1.0) [expect reject]: {:?}", vm.exec(&em_ix(bank3)));
    let ix = Instruction { program_id: marginfi::ID, accounts: marginfi::accounts::LendingPoolCloneEmode { group, signer: admin, copy_from_bank: bank, copy_to_bank: bank3 }.to_account_metas(Some(true)), data: marginfi::instruction::LendingPoolCloneEmode {}.data() };
    println!("F3 clone_emode bank -> bank3: {:?}", vm.exec(&ix));
    let b3 = bank_ref(&vm, &bank3);
    println!("F3 bank3 emode entry0 tag={} init={} maint={} vs lw_i={} lw_m={}", b3.emode.emode_config.entries[0].collateral_bank_emode_tag, fx(b3.emode.emode_config.entries[0].asset_weight_init), fx(b3.emode.emode_config.entries[0].asset_weight_maint), fx(b3.config.liability_weight_init), fx(b3.config.liability_weight_maint));

    // ---- F1/F2: emissions flags
    let mut o = opt(); o.freeze_settings = Some(true); o.permissionless_bad_debt_settlement = Some(true);
    println!("freeze bank3 + permissionless: {:?} flags={:#b}", vm.exec(&cfg_ix(bank3, o)), bank_ref(&vm, &bank3).flags);
    let emint = Pubkey::new_unique();
    let mut md = vec![0u8; spl_token::state::Mint::LEN];
    spl_token::state::Mint { is_initialized: true, decimals: 6, supply: 0, ..Default::default() }.pack_into_slice(&mut md);
    vm.accts.insert(emint, Acct { lamports: 1_000_000_000, data: md, owner: spl_token::ID, executable: false });
    let fund = mk_ta(&mut vm, emint, admin, 1_000_000_000);
    let eauth = Pubkey::find_program_address(&[b"emissions_auth_seed", bank3.as_ref(), emint.as_ref()], &marginfi::ID).0;
    let evault = Pubkey::find_program_address(&[b"emissions_token_account_seed", bank3.as_ref(), emint.as_ref()], &marginfi::ID).0;
    let ix = Instruction { program_id: marginfi::ID, accounts: marginfi::accounts::LendingPoolSetupEmissions { group, delegate_emissions_admin: admin, bank: bank3, emissions_mint: emint, emissions_auth: eauth, emissions_token_account: evault, emissions_funding_account: fund, token_program: spl_token::ID, system_program: system_program::ID }.to_account_metas(Some(true)), data: marginfi::instruction::LendingPoolSetupEmissions { flags: 2, rate: 1000, total_emissions: 1_000_000 }.data() };
    let r = vm.exec(&ix);
    println!("F2 setup_emissions(flags=2): {:?} -> bank3 flags={:#b} (freeze=8, close_enabled=16, permless=4 should survive)", r, bank_ref(&vm, &bank3).flags); if r.is_err() { last_logs(6); }
    let ix = Instruction { program_id: marginfi::ID, accounts: marginfi::accounts::LendingPoolUpdateEmissionsParameters { group, delegate_emissions_admin: admin, bank: bank3, emissions_mint: emint, emissions_token_account: evault, emissions_funding_account: fund, token_program: spl_token::ID }.to_account_metas(Some(true)), data: marginfi::instruction::LendingPoolUpdateEmissionsParameters { emissions_flags: Some(0b1111_1000), emissions_rate: None, additional_emissions: None }.data() };
    let r = vm.exec(&ix);
    println!("F1 update_emissions_parameters(flags=0b11111000): {:?} -> bank3 flags={:#b}", r, bank_ref(&vm, &bank3).flags); if r.is_err() { last_logs(6); }

    // ================= batch 2 =================
    println!("---- batch2 ----");
    // P5: Token-2022 mint with transfer fee, bank on it, deposit & withdraw
    {
        use spl_token_2022::extension::{transfer_fee::{TransferFee, TransferFeeConfig}, BaseStateWithExtensionsMut, ExtensionType, StateWithExtensionsMut, BaseStateWithExtensions, StateWithExtensions};
        vm.accts.insert(spl_token_2022::ID, Acct { lamports: 1, executable: true, owner: solana_program::bpf_loader::ID, ..Default::default() });
        let tmint = Pubkey::new_unique();
        let len = ExtensionType::try_calculate_account_len::<spl_token_2022::state::Mint>(&[ExtensionType::TransferFeeConfig]).unwrap();
        let mut data = vec![0u8; len];
        {
            let mut st = StateWithExtensionsMut::<spl_token_2022::state::Mint>::unpack_uninitialized(&mut data).unwrap();
            st.init_account_type().unwrap();
            let c = st.init_extension::<TransferFeeConfig>(false).unwrap();
            let f = TransferFee { epoch: 0.into(), maximum_fee: 5000u64.into(), transfer_fee_basis_points: 250u16.into() };
            *c = TransferFeeConfig { transfer_fee_config_authority: Default::default(), withdraw_withheld_authority: Default::default(), withheld_amount: 0.into(), older_transfer_fee: f, newer_transfer_fee: f };
            let mut m = spl_token_2022::state::Mint::default(); m.decimals = 6; m.is_initialized = true; st.base = m; st.pack_base();
        }
        vm.accts.insert(tmint, Acct { lamports: 1_000_000_000, data, owner: spl_token_2022::ID, executable: false });
        let (tbank, r) = add_bank(&mut vm, group, admin, fee_state, wallet, tmint, spl_token_2022::ID, std_cfg(1.5, 1.25));
        println!("P5 add T22-fee bank: {:?}", r); if r.is_err() { last_logs(6); }
        let ix = Instruction { program_id: marginfi::ID, accounts: marginfi::accounts::LendingPoolSetFixedOraclePrice { group, admin, bank: tbank }.to_account_metas(Some(true)), data: marginfi::instruction::LendingPoolSetFixedOraclePrice { price: i80(1.0) }.data() };
        println!("P5 fixed price: {:?}", vm.exec(&ix));
        // user2 token account for tmint with TransferFeeAmount ext
        let mk_t22 = |vm: &mut Vm, owner: Pubkey, amount: u64| { let k = Pubkey::new_unique();
            let md = vm.accts[&tmint].data.clone(); let ms = StateWithExtensions::<spl_token_2022::state::Mint>::unpack(&md).unwrap();
            let req = ExtensionType::get_required_init_account_extensions(&ms.get_extension_types().unwrap());
            let space = ExtensionType::try_calculate_account_len::<spl_token_2022::state::Account>(&req).unwrap();
            let mut d = vec![0u8; space];
            { let mut st = StateWithExtensionsMut::<spl_token_2022::state::Account>::unpack_uninitialized(&mut d).unwrap();
              st.init_account_extension_from_type(ExtensionType::TransferFeeAmount).unwrap();
              st.base = spl_token_2022::state::Account { mint: tmint, owner, amount, state: spl_token_2022::state::AccountState::Initialized, ..Default::default() };
              st.pack_base(); st.init_account_type().unwrap(); }
            vm.accts.insert(k, Acct { lamports: 1_000_000_000, data: d, owner: spl_token_2022::ID, executable: false }); k };
        let tta = mk_t22(&mut vm, user2, 10_000_000);
        let tp = |s: &str| Pubkey::find_program_address(&[s.as_bytes(), tbank.as_ref()], &marginfi::ID).0;
        let amt = |vm: &Vm, k: &Pubkey| StateWithExtensions::<spl_token_2022::state::Account>::unpack(&vm.accts[k].data).unwrap().base.amount;
        let mut m = marginfi::accounts::LendingAccountDeposit { group, marginfi_account: macct2, authority: user2, bank: tbank, signer_token_account: tta, liquidity_vault: tp("liquidity_vault"), token_program: spl_token_2022::ID }.to_account_metas(Some(true));
        m.push(AccountMeta::new_readonly(tmint, false));
        let r = vm.exec(&Instruction { program_id: marginfi::ID, accounts: m, data: marginfi::instruction::LendingAccountDeposit { amount: 100_001, deposit_up_to_limit: None }.data() });
        println!("P5 deposit 100001 into T22 bank: {:?}; user paid {} vault got {} (fee 2.5% cap 5000)", r, 10_000_000 - amt(&vm, &tta), amt(&vm, &tp("liquidity_vault"))); if r.is_err() { last_logs(8); }
        let tb = bank_ref(&vm, &tbank);
        println!("P5 bank shares {} ", fx(tb.total_asset_shares));
        let mut m = marginfi::accounts::LendingAccountWithdraw { group, marginfi_account: macct2, authority: user2, bank: tbank, destination_token_account: tta, bank_liquidity_vault_authority: tp("liquidity_vault_auth"), liquidity_vault: tp("liquidity_vault"), token_program: spl_token_2022::ID }.to_account_metas(Some(true));
        m.push(AccountMeta::new_readonly(tmint, false));
        m.extend(risk(&[(bank2, Some(oracle2)), (tbank, None)]));
        let before = amt(&vm, &tta);
        vm.accts.insert(oracle2, pyth_account(3_000_000, 0, -6, CLOCK.with(|c| c.borrow().unix_timestamp)));
        let r = vm.exec(&Instruction { program_id: marginfi::ID, accounts: m, data: marginfi::instruction::LendingAccountWithdraw { amount: 50_000, withdraw_all: None }.data() });
        println!("P5 withdraw 50000: {:?}; user received {} vault now {} bank shares {}", r, amt(&vm, &tta) - before, amt(&vm, &tp("liquidity_vault")), fx(bank_ref(&vm, &tbank).total_asset_shares)); if r.is_err() { last_logs(8); }
    }
    // P7: flash loan bracket on macct2 (has 100 B + T22 deposit); borrow A (fixed $2 -> emode..)
    {
        let now = CLOCK.with(|c| c.borrow().unix_timestamp);
        vm.accts.insert(oracle2, pyth_account(3_000_000, 0, -6, now));
        let u2a = mk_ta(&mut vm, mint, user2, 0);
        let fs = |end: u64| Instruction { program_id: marginfi::ID, accounts: marginfi::accounts::LendingAccountStartFlashloan { marginfi_account: macct2, authority: user2, ixs_sysvar: solana_program::sysvar::instructions::ID }.to_account_metas(Some(true)), data: marginfi::instruction::LendingAccountStartFlashloan { end_index: end }.data() };
        let active: Vec<Pubkey> = { let a = bytemuck::from_bytes::<marginfi_type_crate::types::MarginfiAccount>(&vm.accts[&macct2].data[8..]); a.lending_account.balances.iter().filter(|b| b.active != 0).map(|b| b.bank_pk).collect() };
        let orc = |b: &Pubkey| if *b == bank2 { Some(oracle2) } else { None };
        let mut rk_banks: Vec<(Pubkey, Option<Pubkey>)> = active.iter().map(|b| (*b, orc(b))).collect();
        if !active.contains(&bank) { rk_banks.push((bank, None)); }
        let rk2 = risk(&rk_banks);
        let mut me = marginfi::accounts::LendingAccountEndFlashloan { marginfi_account: macct2, authority: user2 }.to_account_metas(Some(true));
        me.extend(rk2.clone());
        let fe = Instruction { program_id: marginfi::ID, accounts: me, data: marginfi::instruction::LendingAccountEndFlashloan {}.data() };
        let mut mb = marginfi::accounts::LendingAccountBorrow { group, marginfi_account: macct2, authority: user2, bank, destination_token_account: u2a, bank_liquidity_vault_authority: pda("liquidity_vault_auth"), liquidity_vault: pda("liquidity_vault"), token_program: spl_token::ID }.to_account_metas(Some(true));
        mb.extend(rk2.clone());
        let bor = |a: u64| Instruction { program_id: marginfi::ID, accounts: mb.clone(), data: marginfi::instruction::LendingAccountBorrow { amount: a }.data() };
        let mrp = marginfi::accounts::LendingAccountRepay { group, marginfi_account: macct2, authority: user2, bank, signer_token_account: u2a, liquidity_vault: pda("liquidity_vault"), token_program: spl_token::ID }.to_account_metas(Some(true));
        let rep_all = Instruction { program_id: marginfi::ID, accounts: mrp, data: marginfi::instruction::LendingAccountRepay { amount: 0, repay_all: Some(true) }.data() };
        // bank A vault has ~2.5M units; user2 collateral 100 B*$3*0.5=$150 -> can borrow lots; use amount beyond vault? utilization check. Make borrow big relative to health: borrow 2_400_000 A ($4.8*1.5=7.2 < 150) healthy. So to be unhealthy crash B price.
        vm.accts.insert(oracle2, pyth_account(10_000, 0, -6, now)); // B = $0.01 -> collateral $0.5 init
        println!("P7 plain borrow 1.0 A ($2*1.5=$3 > $0.5): {:?}", vm.exec_tx(&[bor(1_000_000)]));
        println!("P7 [start(2), borrow, end] unhealthy at end: {:?}", vm.exec_tx(&[fs(2), bor(1_000_000), fe.clone()]));
        println!("P7 [start(3), borrow, repay_all, end]: {:?}", vm.exec_tx(&[fs(3), bor(1_000_000), rep_all.clone(), fe.clone()]));
        println!("P7 [start(1) pointing at borrow]: {:?}", vm.exec_tx(&[fs(1), bor(1_000_000), fe.clone()]));
        println!("P7 [start(5) out of range]: {:?}", vm.exec_tx(&[fs(5), bor(1_000_000), fe.clone()]));
        println!("P7 [start(2), borrow] no end at idx2: {:?}", vm.exec_tx(&[fs(2), bor(1_000_000)]));
        let fl = u64::from_le_bytes(vm.accts[&macct2].data[8 + 64 + 1728..8 + 64 + 1728 + 8].try_into().unwrap());
        println!("P7 macct2 flags after: {:#x}", fl);
        vm.accts.insert(oracle2, pyth_account(3_000_000, 0, -6, now));
    }
    // P6: bankruptcy of macct on bank2 (debt ~1.0 B): crash A price via fixed oracle
    {
        let ix = Instruction { program_id: marginfi::ID, accounts: marginfi::accounts::LendingPoolSetFixedOraclePrice { group, admin, bank }.to_account_metas(Some(true)), data: marginfi::instruction::LendingPoolSetFixedOraclePrice { price: i80(0.00001) }.data() };
        println!("P6 crash A price: {:?}", vm.exec(&ix));
        let pre = bank_ref(&vm, &bank2);
        let mut m = marginfi::accounts::LendingPoolHandleBankruptcy { group, signer: admin, bank: bank2, marginfi_account: macct, liquidity_vault: pda2("liquidity_vault"), insurance_vault: pda2("insurance_vault"), insurance_vault_authority: pda2("insurance_vault_auth"), token_program: spl_token::ID }.to_account_metas(Some(true));
        m.extend(risk(&[(bank, None), (bank2, Some(oracle2))]));
        let ixb = Instruction { program_id: marginfi::ID, accounts: m.clone(), data: marginfi::instruction::LendingPoolHandleBankruptcy {}.data() };
        let mut ms = m.clone(); ms[1] = AccountMeta::new_readonly(user2, true);
        println!("P6 bankruptcy by stranger(user2): {:?}", vm.exec(&Instruction { program_id: marginfi::ID, accounts: ms, data: marginfi::instruction::LendingPoolHandleBankruptcy {}.data() }));
        let r = vm.exec(&ixb);
        let post = bank_ref(&vm, &bank2);
        println!("P6 bankruptcy by admin: {:?}; asv {} -> {}; liab shares {} -> {}", r, fx(pre.asset_share_value), fx(post.asset_share_value), fx(pre.total_liability_shares), fx(post.total_liability_shares)); if r.is_err() { last_logs(8); }
        let fl = u64::from_le_bytes(vm.accts[&macct].data[8 + 64 + 1728..8 + 64 + 1728 + 8].try_into().unwrap());
        println!("P6 macct flags after: {:#x}", fl);
    }
    // P8/P9: pure oracle adapter calls
    {
        use marginfi::state::price::{OraclePriceFeedAdapter, OraclePriceType, PriceAdapter, PriceBias};
        use switchboard_on_demand::{PullFeedAccountData, Discriminator as SwbDisc};
        let now = CLOCK.with(|c| c.borrow().unix_timestamp);
        let mut feed: PullFeedAccountData = bytemuck::Zeroable::zeroed();
        feed.result.value = 25 * 10i128.pow(17); // 2.5
        feed.result.std_dev = 10i128.pow(16); // 0.01
        feed.last_update_timestamp = now - 100;
        let mut d = <PullFeedAccountData as SwbDisc>::DISCRIMINATOR.to_vec(); d.extend_from_slice(bytemuck::bytes_of(&feed));
        let swb_owner = marginfi::constants::SWITCHBOARD_PULL_ID;
        let key = Pubkey::new_unique();
        let mut b = bank_ref(&vm, &bank2);
        b.config.oracle_setup = marginfi_type_crate::types::OracleSetup::SwitchboardPull; b.config.oracle_keys[0] = key;
        let mut lam = 1u64; let mut data = d.clone();
        let ai = AccountInfo::new(&key, false, false, &mut lam, &mut data, &swb_owner, false, 0);
        let ais = [ai]; let ais: &[AccountInfo] = unsafe { std::mem::transmute(&ais[..]) };
        let clock = CLOCK.with(|c| c.borrow().clone());
        for age in [99u64, 100, 101] {
            let r = OraclePriceFeedAdapter::try_from_bank_with_max_age(&b, ais, &clock, age);
            match r { Ok(a) => println!("P8 swb max_age={} ok low={} high={}", age, a.get_price_of_type(OraclePriceType::RealTime, Some(PriceBias::Low), 0).unwrap(), a.get_price_of_type(OraclePriceType::RealTime, Some(PriceBias::High), 0).unwrap()), Err(e) => println!("P8 swb max_age={} err {:?}", age, e) }
        }
        // Kamino reserve
        let mut res: kamino_mocks::state::MinimalReserve = bytemuck::Zeroable::zeroed();
        res.slot = clock.slot; res.available_amount = 1_100_000; res.mint_total_supply = 1_000_000; res.mint_decimals = 6;
        let mut rd = kamino_mocks::state::RESERVE_DISCRIMINATOR.to_vec(); rd.extend_from_slice(bytemuck::bytes_of(&res));
        let rkey = Pubkey::new_unique(); let kowner = kamino_mocks::kamino_lending::ID;
        let okey = Pubkey::new_unique(); let powner = pyth_solana_receiver_sdk::ID;
        let mut pdata = pyth_account(2_000_000, 1000, -6, now).data;
        b.config.oracle_setup = marginfi_type_crate::types::OracleSetup::KaminoPythPush; b.config.oracle_keys[0] = okey; b.config.oracle_keys[1] = rkey;
        let (mut l1, mut l2) = (1u64, 1u64);
        let a1 = AccountInfo::new(&okey, false, false, &mut l1, &mut pdata, &powner, false, 0);
        let a2 = AccountInfo::new(&rkey, false, false, &mut l2, &mut rd, &kowner, false, 0);
        let ais = [a1, a2]; let ais: &[AccountInfo] = unsafe { std::mem::transmute(&ais[..]) };
        match OraclePriceFeedAdapter::try_from_bank_with_max_age(&b, ais, &clock, 100) { Ok(a) => println!("P9 kamino-pyth price={} (2.0 * 1.1 expected) low={}", a.get_price_of_type(OraclePriceType::RealTime, None, 0).unwrap(), a.get_price_of_type(OraclePriceType::RealTime, Some(PriceBias::Low), 0).unwrap()), Err(e) => println!("P9 err {:?}", e) }
    }
    // P10: proptest from a binary, fixed seed, threads, shrinking of op vectors
    {
        use proptest::prelude::*; use proptest::test_runner::{Config, RngAlgorithm, TestRng, TestRunner, TestError};
        let run = |seed: u64| {
            let mut seed_bytes = [0u8; 32]; seed_bytes[..8].copy_from_slice(&seed.to_le_bytes());
            let mut runner = TestRunner::new_with_rng(Config { cases: 500, failure_persistence: None, max_shrink_iters: 10_000, ..Config::default() }, TestRng::from_seed(RngAlgorithm::ChaCha, &seed_bytes));
            let strat = proptest::collection::vec((0u8..4, 1u64..1_000_000), 0..40);
            let r = runner.run(&strat, |ops| { let mut acc = 0u64; for (k, a) in &ops { if *k == 3 { acc += a; } } prop_assert!(acc < 1_500_000, "acc {}", acc); Ok(()) });
            match r { Err(TestError::Fail(_, v)) => format!("{:?}", v), other => format!("{:?}", other.is_ok()) }
        };
        let hs: Vec<_> = (0..4u64).map(|i| std::thread::spawn(move || run(7 + i))).collect();
        let outs: Vec<String> = hs.into_iter().map(|h| h.join().unwrap()).collect();
        println!("P10 shrunk failures per worker: {:?}", outs);
        println!("P10 rerun seed 7 deterministic: {}", run(7) == outs[0]);
    }
}
