use mfv::common::*;
use mfv::outln;
use serde_json::{json, Value};
use std::time::Instant;

fn usage() -> ! {
    eprintln!("usage: mfv <ID> <quick|thorough> | mfv <ID> --replay <path>");
    std::process::exit(2)
}

fn main() {
    let args: Vec<String> = std::env::args().collect();
    if args.len() < 3 {
        usage();
    }
    silence_program_stdout();
    if std::env::var("MFV_PANIC_TRACE").is_err() {
        std::panic::set_hook(Box::new(|_| {}));
    }
    let prop = args[1].clone();
    let seed: u64 = std::env::var("VERIF_SEED").ok().and_then(|s| s.trim().parse::<i128>().ok()).map(|x| x as u64).unwrap_or(0);
    let threads: usize = std::env::var("VERIF_THREADS").ok().and_then(|s| s.parse().ok()).unwrap_or(16);
    let root = verif_root();
    let t0 = Instant::now();

    let (tier, report, is_replay) = if args[2] == "--replay" {
        if args.len() < 4 {
            usage();
        }
        let txt = std::fs::read_to_string(&args[3]).unwrap_or_else(|e| {
            eprintln!("cannot read {}: {e}", args[3]);
            std::process::exit(2)
        });
        let v: Value = serde_json::from_str(&txt).unwrap_or_else(|e| {
            eprintln!("bad replay json: {e}");
            std::process::exit(2)
        });
        let case = v.get("case").cloned().unwrap_or(v.clone());
        let ctx = Ctx { prop: prop.clone(), tier: Tier::Quick, seed, threads };
        (Tier::Quick, mfv::props::replay(&ctx, &case), true)
    } else {
        let tier = match args[2].as_str() {
            "quick" => Tier::Quick,
            "thorough" => Tier::Thorough,
            _ => usage(),
        };
        let ctx = Ctx { prop: prop.clone(), tier, seed, threads };
        (tier, mfv::props::run(&ctx), false)
    };
    let Some(report) = report else {
        eprintln!("unknown property {prop}");
        std::process::exit(2)
    };
    let wall = t0.elapsed().as_secs_f64();

    // known findings
    let known = load_known_findings(&root);
    let mut real: Vec<&Violation> = vec![];
    let mut printed_known = std::collections::BTreeSet::new();
    let mut known_hits = 0u64;
    for v in &report.violations {
        if let Some(k) = known.iter().find(|k| k.status == "known" && k.property == prop && k.signature == v.signature) {
            known_hits += 1;
            if printed_known.insert(k.signature.clone()) {
                outln!("KNOWN-FINDING: property={} {} [{}]", prop, k.what, k.signature);
            }
        } else {
            real.push(v);
        }
    }

    // replay files for real violations (distinct signatures first)
    let mut lines = vec![];
    if !real.is_empty() {
        let _ = std::fs::create_dir_all(format!("{root}/replays"));
        let mut seen = std::collections::BTreeSet::new();
        for v in real.iter() {
            if !seen.insert(v.signature.clone()) || seen.len() > 10 {
                continue;
            }
            let body = json!({"property": prop, "signature": v.signature, "message": v.message, "case": v.replay});
            let h = hash_json(&body);
            let path = format!("{root}/replays/{prop}-{h:016x}.json");
            let _ = std::fs::write(&path, serde_json::to_string_pretty(&body).unwrap());
            lines.push(format!("VIOLATION property={prop} replay={path}"));
            outln!("  violated clause: {} -- {}", v.signature, v.message);
        }
    }

    // evidence (not on replay)
    if !is_replay {
        let mut cov = serde_json::Map::new();
        cov.insert("evaluations".into(), json!(report.evaluations));
        cov.insert("distinct_nontrivial".into(), json!(report.nontrivial.len() as u64));
        cov.insert("rule".into(), json!(report.rule));
        cov.insert("samples".into(), json!(report.samples));
        cov.insert("labels".into(), json!(report.labels));
        cov.insert("exhaustive".into(), json!(report.exhaustive));
        cov.insert("known_finding_hits".into(), json!(known_hits));
        for (k, v) in &report.extra {
            cov.insert(k.clone(), v.clone());
        }
        let mut assumptions = report.assumptions.clone();
        if assumptions.is_empty() {
            assumptions = STD_ASSUMPTIONS.iter().map(|s| s.to_string()).collect();
        }
        let ev = json!({
            "property_id": prop, "tier": tier.name(), "seed": seed as i64, "level": "exploration",
            "coverage": cov, "assumptions": assumptions, "wall_s": wall, "violations": real.len() as u64,
        });
        let _ = std::fs::create_dir_all(format!("{root}/evidence"));
        let _ = std::fs::write(format!("{root}/evidence/{prop}.json"), serde_json::to_string_pretty(&ev).unwrap());
    }

    outln!(
        "{} {} seed={} evaluations={} distinct_nontrivial={} violations={} known_hits={} wall={:.1}s",
        prop, if is_replay { "replay" } else { tier.name() }, seed, report.evaluations, report.nontrivial.len(), real.len(), known_hits, wall
    );
    if std::env::var("MFV_VERBOSE").is_ok() {
        for (k, v) in &report.labels {
            outln!("  label {k}: {v}");
        }
        for (k, v) in &report.extra {
            outln!("  extra {k}: {v}");
        }
    }
    for e in &report.engine_errors {
        outln!("ENGINE-ERROR: {e}");
    }
    for l in &lines {
        outln!("{l}");
    }
    if !lines.is_empty() {
        std::process::exit(1);
    }
    if !report.engine_errors.is_empty() {
        std::process::exit(2);
    }
    if !is_replay && (report.nontrivial.len() as u64) < report.nontrivial_floor {
        outln!("INCONCLUSIVE: only {} distinct non-trivial cases (floor {})", report.nontrivial.len(), report.nontrivial_floor);
        std::process::exit(2);
    }
    std::process::exit(0);
}
