//! Fake DRIFT venue: a native program registered under the DRIFT program id (so that marginfi's `drift_*`
//! instructions run for real: `marginfi::entry` -> Anchor constraints -> handler -> CPI into this program -> CPI into
//! SPL-Token / Token-2022), plus the world helpers to create and use a DRIFT bank.
//!
//! What the fake implements (everything marginfi CPIs into; anything else -> `Ok(())`, as the do-nothing program did):
//!   * `initialize_user_stats`, `initialize_user`  create the PDA accounts through the system program (signed with
//!                                                  this program's own PDA seeds) and initialise them
//!   * `update_user_pool_id`                        writes `user.pool_id`
//!   * `update_spot_market_cumulative_interest`     stamps `spot_market.last_interest_ts = clock.unix_timestamp`, nothing else
//!   * `deposit`                                    tokens: user token account -> spot market vault; position and market
//!                                                  `deposit_balance` += floor(amount * 10^(19-dec) / cumulative_deposit_interest)
//!   * `withdraw`                                   the reverse; balance delta rounds UP (+1 when non-zero) as DRIFT's
//!                                                  `get_spot_balance(.., round_up = true)`; `reduce_only` caps the amount at the
//!                                                  position's token amount (so `u64::MAX` = everything, used by harvest)
//! Interest accrues only through [`accrue`] (the outside world acting).
//!
//! Harvest (`drift_harvest_reward`, bottom of the file): [`add_reward_market`] lists a further spot market, [`admin_deposit`]
//! writes a deposit position of a bank's DRIFT user into a chosen slot (DRIFT's admin acting: directly in the store),
//! [`harvest_keys`] / [`ix_harvest`] build the marginfi instruction with every account substitutable.
//!
//! Layouts are the ones of `drift_mocks::state` (byte offsets below, checked by [`layout_selfcheck`]).
use crate::svm::{Acct, Vm};
use crate::world::{self, kp, BankInfo, BankSpec, World};
use anchor_lang::{Discriminator, InstructionData, ToAccountMetas};
use drift_mocks::drift::client::args as dargs;
use num_bigint::BigInt;
use solana_program::{
    account_info::AccountInfo,
    clock::Clock,
    entrypoint::ProgramResult,
    instruction::{AccountMeta, Instruction},
    program::invoke_signed,
    program_error::ProgramError,
    pubkey::Pubkey,
    rent::Rent,
    system_instruction, system_program,
    sysvar::Sysvar,
};
use std::sync::OnceLock;

// ------------------------------------------------------------------------------------------
// layout (offsets INCLUDE the 8-byte Anchor discriminator)
// ------------------------------------------------------------------------------------------
pub const SPOT_MARKET_DISC: [u8; 8] = [100, 177, 8, 107, 168, 65, 65, 39];
pub const USER_DISC: [u8; 8] = [159, 117, 95, 227, 239, 151, 58, 236];
pub const USER_STATS_DISC: [u8; 8] = [176, 223, 136, 27, 122, 79, 32, 227];
pub const STATE_DISC: [u8; 8] = [216, 146, 107, 94, 104, 75, 182, 177];

pub const SM_LEN: usize = 776;
pub const SM_PUBKEY: usize = 8;
pub const SM_ORACLE: usize = 40;
pub const SM_MINT: usize = 72;
pub const SM_VAULT: usize = 104;
pub const SM_DEPOSIT_BALANCE: usize = 432;
pub const SM_BORROW_BALANCE: usize = 448;
pub const SM_CUM_DEPOSIT_INTEREST: usize = 464;
pub const SM_CUM_BORROW_INTEREST: usize = 480;
pub const SM_LAST_INTEREST_TS: usize = 568;
pub const SM_DECIMALS: usize = 680;
pub const SM_MARKET_INDEX: usize = 684;
pub const SM_POOL_ID: usize = 735;

pub const U_LEN: usize = 4376;
pub const U_AUTHORITY: usize = 8;
pub const U_DELEGATE: usize = 40;
pub const U_NAME: usize = 72;
pub const U_POSITIONS: usize = 104;
pub const POS_LEN: usize = 40;
pub const POS_SCALED_BALANCE: usize = 0;
pub const POS_CUM_DEPOSITS: usize = 24;
pub const POS_MARKET_INDEX: usize = 32;
pub const POS_BALANCE_TYPE: usize = 34;
pub const POS_OPEN_ORDERS: usize = 35;
pub const U_SUB_ACCOUNT_ID: usize = 4346;
pub const U_STATUS: usize = 4348;
/// `User.pool_id` of the real layout (inside `MinimalUser::_padding8`)
pub const U_POOL_ID: usize = 4356;

pub const US_LEN: usize = 248;
pub const US_AUTHORITY: usize = 8;

pub const STATE_LEN: usize = 992;
/// `State.signer` of the real layout (admin, whitelist_mint, discount_mint, signer)
pub const STATE_SIGNER: usize = 8 + 96;

pub const CUM_INTEREST_ONE: u128 = 10_000_000_000;

/// error codes of the fake (ProgramError::Custom)
pub mod err {
    pub const WRONG_AUTHORITY: u32 = 0x0D01;
    pub const STATS_MISMATCH: u32 = 0x0D02;
    pub const SPOT_MARKET_NOT_FOUND: u32 = 0x0D03;
    pub const NOT_WRITABLE: u32 = 0x0D04;
    pub const WRONG_VAULT: u32 = 0x0D05;
    pub const WRONG_MINT: u32 = 0x0D06;
    pub const WRONG_ORACLE: u32 = 0x0D07;
    pub const WRONG_PDA: u32 = 0x0D08;
    pub const ZERO_DEPOSIT: u32 = 0x0D09;
    pub const BORROW_UNSUPPORTED: u32 = 0x0D0A;
    pub const INSUFFICIENT_DEPOSIT: u32 = 0x0D0B;
    pub const NO_POSITION: u32 = 0x0D0C;
    pub const NO_POSITION_AVAILABLE: u32 = 0x0D0D;
    pub const POOL_ID_MISMATCH: u32 = 0x0D0E;
    pub const VAULT_INVARIANT: u32 = 0x0D0F;
    pub const MATH: u32 = 0x0D10;
    pub const ALREADY_INITIALIZED: u32 = 0x0D11;
    pub const WRONG_TOKEN_PROGRAM: u32 = 0x0D12;
    pub const USER_BANKRUPT: u32 = 0x0D13;
    pub const WRONG_STATE: u32 = 0x0D14;
}
fn e(c: u32) -> ProgramError {
    ProgramError::Custom(c)
}

fn rd_u16(d: &[u8], o: usize) -> u16 {
    u16::from_le_bytes(d[o..o + 2].try_into().unwrap())
}
fn rd_u32(d: &[u8], o: usize) -> u32 {
    u32::from_le_bytes(d[o..o + 4].try_into().unwrap())
}
fn rd_u64(d: &[u8], o: usize) -> u64 {
    u64::from_le_bytes(d[o..o + 8].try_into().unwrap())
}
fn rd_i64(d: &[u8], o: usize) -> i64 {
    i64::from_le_bytes(d[o..o + 8].try_into().unwrap())
}
fn rd_u128(d: &[u8], o: usize) -> u128 {
    u128::from_le_bytes(d[o..o + 16].try_into().unwrap())
}
fn rd_pk(d: &[u8], o: usize) -> Pubkey {
    Pubkey::new_from_array(d[o..o + 32].try_into().unwrap())
}
fn wr(d: &mut [u8], o: usize, b: &[u8]) {
    d[o..o + b.len()].copy_from_slice(b);
}

/// compares the byte offsets above with the `drift_mocks::state` structs
pub fn layout_selfcheck() -> Result<(), String> {
    use drift_mocks::state::{MinimalSpotMarket as M, MinimalUser as U, MinimalUserStats as S, SpotPosition as P};
    use std::mem::{offset_of, size_of};
    let checks: Vec<(&str, usize, usize)> = vec![
        ("sm len", SM_LEN, 8 + size_of::<M>()),
        ("sm pubkey", SM_PUBKEY, 8 + offset_of!(M, pubkey)),
        ("sm oracle", SM_ORACLE, 8 + offset_of!(M, oracle)),
        ("sm mint", SM_MINT, 8 + offset_of!(M, mint)),
        ("sm vault", SM_VAULT, 8 + offset_of!(M, vault)),
        ("sm deposit_balance", SM_DEPOSIT_BALANCE, 8 + offset_of!(M, deposit_balance)),
        ("sm borrow_balance", SM_BORROW_BALANCE, 8 + offset_of!(M, borrow_balance)),
        ("sm cum dep", SM_CUM_DEPOSIT_INTEREST, 8 + offset_of!(M, cumulative_deposit_interest)),
        ("sm cum bor", SM_CUM_BORROW_INTEREST, 8 + offset_of!(M, cumulative_borrow_interest)),
        ("sm last ts", SM_LAST_INTEREST_TS, 8 + offset_of!(M, last_interest_ts)),
        ("sm decimals", SM_DECIMALS, 8 + offset_of!(M, decimals)),
        ("sm market_index", SM_MARKET_INDEX, 8 + offset_of!(M, market_index)),
        ("sm pool_id", SM_POOL_ID, 8 + offset_of!(M, pool_id)),
        ("u len", U_LEN, 8 + size_of::<U>()),
        ("u authority", U_AUTHORITY, 8 + offset_of!(U, authority)),
        ("u delegate", U_DELEGATE, 8 + offset_of!(U, delegate)),
        ("u name", U_NAME, 8 + offset_of!(U, name)),
        ("u positions", U_POSITIONS, 8 + offset_of!(U, spot_positions)),
        ("u sub", U_SUB_ACCOUNT_ID, 8 + offset_of!(U, sub_account_id)),
        ("u status", U_STATUS, 8 + offset_of!(U, status)),
        ("u pool id inside padding8", (U_POOL_ID > 8 + offset_of!(U, _padding8) && U_POOL_ID < U_LEN) as usize, 1),
        ("pos len", POS_LEN, size_of::<P>()),
        ("pos scaled", POS_SCALED_BALANCE, offset_of!(P, scaled_balance)),
        ("pos cum dep", POS_CUM_DEPOSITS, offset_of!(P, cumulative_deposits)),
        ("pos market_index", POS_MARKET_INDEX, offset_of!(P, market_index)),
        ("pos balance_type", POS_BALANCE_TYPE, offset_of!(P, balance_type)),
        ("pos open_orders", POS_OPEN_ORDERS, offset_of!(P, open_orders)),
        ("us len", US_LEN, 8 + size_of::<S>()),
        ("us authority", US_AUTHORITY, 8 + offset_of!(S, authority)),
    ];
    for (n, a, b) in checks {
        if a != b {
            return Err(format!("layout mismatch {n}: {a} != {b}"));
        }
    }
    if SPOT_MARKET_DISC != drift_mocks::state::SPOT_MARKET_DISCRIMINATOR || USER_DISC != drift_mocks::state::USER_DISCRIMINATOR || USER_STATS_DISC != drift_mocks::state::USER_STATS_DISCRIMINATOR {
        return Err("discriminator mismatch".into());
    }
    Ok(())
}

// ------------------------------------------------------------------------------------------
// addresses
// ------------------------------------------------------------------------------------------
pub fn program_id() -> Pubkey {
    drift_mocks::ID
}
pub fn state_pda() -> (Pubkey, u8) {
    static C: OnceLock<(Pubkey, u8)> = OnceLock::new();
    *C.get_or_init(|| Pubkey::find_program_address(&[b"drift_state"], &program_id()))
}
pub fn signer_pda() -> (Pubkey, u8) {
    static C: OnceLock<(Pubkey, u8)> = OnceLock::new();
    *C.get_or_init(|| Pubkey::find_program_address(&[b"drift_signer"], &program_id()))
}
pub fn spot_market_pda(market_index: u16) -> Pubkey {
    Pubkey::find_program_address(&[b"spot_market", &market_index.to_le_bytes()], &program_id()).0
}
pub fn spot_market_vault_pda(market_index: u16) -> Pubkey {
    Pubkey::find_program_address(&[b"spot_market_vault", &market_index.to_le_bytes()], &program_id()).0
}
pub fn user_pda(authority: &Pubkey, sub_account_id: u16) -> (Pubkey, u8) {
    Pubkey::find_program_address(&[b"user", authority.as_ref(), &sub_account_id.to_le_bytes()], &program_id())
}
pub fn user_stats_pda(authority: &Pubkey) -> (Pubkey, u8) {
    Pubkey::find_program_address(&[b"user_stats", authority.as_ref()], &program_id())
}

/// register the fake under the DRIFT program id (idempotent, process-wide)
pub fn register() {
    crate::svm::register_program(program_id(), process);
}

// ------------------------------------------------------------------------------------------
// the program
// ------------------------------------------------------------------------------------------
pub fn process(pid: &Pubkey, ais: &[AccountInfo], data: &[u8]) -> ProgramResult {
    if data.len() < 8 {
        return Ok(());
    }
    let (d, args) = data.split_at(8);
    if d == dargs::Deposit::DISCRIMINATOR {
        deposit(pid, ais, args)
    } else if d == dargs::Withdraw::DISCRIMINATOR {
        withdraw(pid, ais, args)
    } else if d == dargs::UpdateSpotMarketCumulativeInterest::DISCRIMINATOR {
        update_spot_market_cumulative_interest(pid, ais)
    } else if d == dargs::InitializeUserStats::DISCRIMINATOR {
        initialize_user_stats(pid, ais)
    } else if d == dargs::InitializeUser::DISCRIMINATOR {
        initialize_user(pid, ais, args)
    } else if d == dargs::UpdateUserPoolId::DISCRIMINATOR {
        update_user_pool_id(pid, ais, args)
    } else {
        Ok(())
    }
}

fn check_state(state: &AccountInfo, pid: &Pubkey) -> ProgramResult {
    if state.owner != pid {
        return Err(ProgramError::IllegalOwner);
    }
    let d = state.try_borrow_data()?;
    if *state.key != state_pda().0 || d.len() < 8 || d[..8] != STATE_DISC {
        return Err(e(err::WRONG_STATE));
    }
    Ok(())
}

fn is_spot_market(ai: &AccountInfo, pid: &Pubkey) -> bool {
    if ai.owner != pid {
        return false;
    }
    match ai.try_borrow_data() {
        Ok(d) => d.len() == SM_LEN && d[..8] == SPOT_MARKET_DISC,
        Err(_) => false,
    }
}

/// user / user_stats owned by this program, of the right type, `authority` signed and is the user's authority
/// (or its delegate), user_stats belongs to the same authority
fn check_user(user: &AccountInfo, stats: &AccountInfo, authority: &AccountInfo, pid: &Pubkey) -> ProgramResult {
    if !authority.is_signer {
        return Err(ProgramError::MissingRequiredSignature);
    }
    if user.owner != pid || stats.owner != pid {
        return Err(ProgramError::IllegalOwner);
    }
    if !user.is_writable || !stats.is_writable {
        return Err(e(err::NOT_WRITABLE));
    }
    let ud = user.try_borrow_data()?;
    if ud.len() != U_LEN || ud[..8] != USER_DISC {
        return Err(ProgramError::InvalidAccountData);
    }
    let auth = rd_pk(&ud, U_AUTHORITY);
    let delegate = rd_pk(&ud, U_DELEGATE);
    if auth != *authority.key && (delegate == Pubkey::default() || delegate != *authority.key) {
        return Err(e(err::WRONG_AUTHORITY));
    }
    // status: BeingLiquidated = 1, Bankrupt = 2
    if ud[U_STATUS] & 0b11 != 0 {
        return Err(e(err::USER_BANKRUPT));
    }
    let sd = stats.try_borrow_data()?;
    if sd.len() != US_LEN || sd[..8] != USER_STATS_DISC {
        return Err(ProgramError::InvalidAccountData);
    }
    if rd_pk(&sd, US_AUTHORITY) != auth {
        return Err(e(err::STATS_MISMATCH));
    }
    Ok(())
}

fn precision_increase(decimals: u32) -> Result<u128, ProgramError> {
    if decimals > 19 {
        return Err(e(err::MATH));
    }
    Ok(10u128.pow(19 - decimals))
}
static FOLLOW_MOCKS: std::sync::atomic::AtomicBool = std::sync::atomic::AtomicBool::new(false);
/// Process-wide switch (like `venue_solend::set_math_mode`): when on, the fake converts token amounts into scaled
/// balance with the repository's OWN model of DRIFT (`drift_mocks::state::MinimalSpotMarket::get_scaled_balance_*`), i.e.
/// the venue behaves exactly as marginfi's handlers predict it - the worst case for whatever those helpers get wrong
/// (marginfi compares DRIFT's reported balance change with the helper's value after the CPI, so an independent venue
/// merely refuses where the helper is off). On the unchanged tree both modes compute the same numbers.
pub fn set_follow_mocks(on: bool) {
    FOLLOW_MOCKS.store(on, std::sync::atomic::Ordering::SeqCst);
}

/// DRIFT `get_spot_balance`: floor(amount * 10^(19-dec) / cumulative_interest), +1 if `round_up` and non-zero
fn spot_balance(amount: u128, pi: u128, ci: u128, round_up: bool) -> Result<u128, ProgramError> {
    if ci == 0 {
        return Err(e(err::MATH));
    }
    if FOLLOW_MOCKS.load(std::sync::atomic::Ordering::SeqCst) && amount <= u64::MAX as u128 {
        let mut dec = 19u32;
        let mut x = pi;
        while x >= 10 {
            x /= 10;
            dec -= 1;
        }
        let mut m = <drift_mocks::state::MinimalSpotMarket as bytemuck::Zeroable>::zeroed();
        m.decimals = dec;
        m.cumulative_deposit_interest = ci.to_le_bytes();
        let r = if round_up { m.get_scaled_balance_decrement(amount as u64) } else { m.get_scaled_balance_increment(amount as u64) };
        return r.map(|v| v as u128).map_err(|_| e(err::MATH));
    }
    let mut b = amount.checked_mul(pi).ok_or(e(err::MATH))? / ci;
    if round_up && b != 0 {
        b = b.checked_add(1).ok_or(e(err::MATH))?;
    }
    Ok(b)
}
/// DRIFT `get_token_amount` for deposits: floor(balance * cumulative_interest / 10^(19-dec))
fn token_amount_floor(balance: u128, pi: u128, ci: u128) -> Result<u128, ProgramError> {
    Ok(balance.checked_mul(ci).ok_or(e(err::MATH))? / pi)
}

struct Market {
    oracle: Pubkey,
    mint: Pubkey,
    vault: Pubkey,
    deposit_balance: u128,
    ci: u128,
    pi: u128,
    decimals: u32,
    pool_id: u8,
}
fn read_market(d: &[u8]) -> Result<Market, ProgramError> {
    let decimals = rd_u32(d, SM_DECIMALS);
    Ok(Market {
        oracle: rd_pk(d, SM_ORACLE),
        mint: rd_pk(d, SM_MINT),
        vault: rd_pk(d, SM_VAULT),
        deposit_balance: rd_u128(d, SM_DEPOSIT_BALANCE),
        ci: rd_u128(d, SM_CUM_DEPOSIT_INTEREST),
        pi: precision_increase(decimals)?,
        decimals,
        pool_id: d[SM_POOL_ID],
    })
}

fn find_spot_market<'a, 'b>(rem: &'a [AccountInfo<'b>], pid: &Pubkey, market_index: u16) -> Result<&'a AccountInfo<'b>, ProgramError> {
    for ai in rem {
        if is_spot_market(ai, pid) && rd_u16(&ai.try_borrow_data()?, SM_MARKET_INDEX) == market_index {
            return Ok(ai);
        }
    }
    Err(e(err::SPOT_MARKET_NOT_FOUND))
}

fn is_token_program(k: &Pubkey) -> bool {
    *k == spl_token::ID || *k == spl_token_2022::ID
}
fn tok_mint(ai: &AccountInfo) -> Result<Pubkey, ProgramError> {
    let d = ai.try_borrow_data()?;
    if d.len() < 165 {
        return Err(ProgramError::InvalidAccountData);
    }
    Ok(rd_pk(&d, 0))
}
fn tok_owner(ai: &AccountInfo) -> Result<Pubkey, ProgramError> {
    let d = ai.try_borrow_data()?;
    if d.len() < 165 {
        return Err(ProgramError::InvalidAccountData);
    }
    Ok(rd_pk(&d, 32))
}
fn tok_amount(ai: &AccountInfo) -> Result<u64, ProgramError> {
    let d = ai.try_borrow_data()?;
    if d.len() < 165 {
        return Err(ProgramError::InvalidAccountData);
    }
    Ok(rd_u64(&d, 64))
}

/// vault, user token account and token program fit the market
fn check_token_accounts(m: &Market, vault: &AccountInfo, uta: &AccountInfo, token_program: &AccountInfo) -> ProgramResult {
    if !is_token_program(token_program.key) || vault.owner != token_program.key || uta.owner != token_program.key {
        return Err(e(err::WRONG_TOKEN_PROGRAM));
    }
    if *vault.key != m.vault || tok_owner(vault)? != signer_pda().0 {
        return Err(e(err::WRONG_VAULT));
    }
    if tok_mint(vault)? != m.mint || tok_mint(uta)? != m.mint {
        return Err(e(err::WRONG_MINT));
    }
    if !vault.is_writable || !uta.is_writable {
        return Err(e(err::NOT_WRITABLE));
    }
    Ok(())
}

#[allow(deprecated)]
fn token_transfer<'a>(
    token_program: &AccountInfo<'a>,
    src: &AccountInfo<'a>,
    dst: &AccountInfo<'a>,
    auth: &AccountInfo<'a>,
    mint: Option<&AccountInfo<'a>>,
    amount: u64,
    decimals: u8,
    seeds: &[&[&[u8]]],
) -> ProgramResult {
    match mint {
        Some(mint) => {
            let ix = spl_token_2022::instruction::transfer_checked(token_program.key, src.key, mint.key, dst.key, auth.key, &[], amount, decimals)?;
            invoke_signed(&ix, &[src.clone(), mint.clone(), dst.clone(), auth.clone()], seeds)
        }
        None => {
            let ix = spl_token_2022::instruction::transfer(token_program.key, src.key, dst.key, auth.key, &[], amount)?;
            invoke_signed(&ix, &[src.clone(), dst.clone(), auth.clone()], seeds)
        }
    }
}

/// DRIFT `validate_spot_market_vault_amount`: vault >= deposits' token amount (there are never borrows here)
fn check_vault_invariant(sm: &AccountInfo, vault: &AccountInfo) -> ProgramResult {
    let m = read_market(&sm.try_borrow_data()?)?;
    let owed = token_amount_floor(m.deposit_balance, m.pi, m.ci)?;
    if (tok_amount(vault)? as u128) < owed {
        return Err(e(err::VAULT_INVARIANT));
    }
    Ok(())
}

fn pos_off(i: usize) -> usize {
    U_POSITIONS + POS_LEN * i
}
fn pos_available(ud: &[u8], i: usize) -> bool {
    rd_u64(ud, pos_off(i) + POS_SCALED_BALANCE) == 0 && ud[pos_off(i) + POS_OPEN_ORDERS] == 0
}
/// DRIFT `get_spot_position_index`: slot 0 is always the quote market (index 0); others by market index among used slots
fn find_position(ud: &[u8], market_index: u16) -> Option<usize> {
    if market_index == 0 {
        return if rd_u16(ud, pos_off(0) + POS_MARKET_INDEX) == 0 { Some(0) } else { None };
    }
    (0..8).find(|&i| rd_u16(ud, pos_off(i) + POS_MARKET_INDEX) == market_index && !pos_available(ud, i))
}
/// DRIFT `add_spot_position`: first available slot other than 0, reset to a fresh deposit position
fn add_position(ud: &mut [u8], market_index: u16) -> Option<usize> {
    let i = (1..8).find(|&i| pos_available(ud, i))?;
    let o = pos_off(i);
    ud[o..o + POS_LEN].fill(0);
    wr(ud, o + POS_MARKET_INDEX, &market_index.to_le_bytes());
    Some(i)
}

fn parse_mar(args: &[u8]) -> Result<(u16, u64, bool), ProgramError> {
    if args.len() < 11 {
        return Err(ProgramError::InvalidInstructionData);
    }
    Ok((rd_u16(args, 0), rd_u64(args, 2), args[10] != 0))
}

fn deposit(pid: &Pubkey, ais: &[AccountInfo], args: &[u8]) -> ProgramResult {
    let (market_index, amount, reduce_only) = parse_mar(args)?;
    if ais.len() < 7 {
        return Err(ProgramError::NotEnoughAccountKeys);
    }
    let (state, user, stats, authority, vault, uta, token_program) = (&ais[0], &ais[1], &ais[2], &ais[3], &ais[4], &ais[5], &ais[6]);
    let rem = &ais[7..];
    check_state(state, pid)?;
    check_user(user, stats, authority, pid)?;
    let sm = find_spot_market(rem, pid, market_index)?;
    if !sm.is_writable {
        return Err(e(err::NOT_WRITABLE));
    }
    let m = read_market(&sm.try_borrow_data()?)?;
    check_token_accounts(&m, vault, uta, token_program)?;
    // reduce_only deposits only repay borrows; there are none
    if amount == 0 || reduce_only {
        return Err(e(err::ZERO_DEPOSIT));
    }
    let now = Clock::get()?.unix_timestamp;
    let delta = spot_balance(amount as u128, m.pi, m.ci, false)?;
    {
        let mut ud = user.try_borrow_mut_data()?;
        if ud[U_POOL_ID] != m.pool_id {
            return Err(e(err::POOL_ID_MISMATCH));
        }
        let i = match find_position(&ud, market_index) {
            Some(i) => i,
            None => add_position(&mut ud, market_index).ok_or(e(err::NO_POSITION_AVAILABLE))?,
        };
        let o = pos_off(i);
        if ud[o + POS_BALANCE_TYPE] != 0 {
            return Err(e(err::BORROW_UNSUPPORTED));
        }
        let bal = (rd_u64(&ud, o + POS_SCALED_BALANCE) as u128).checked_add(delta).ok_or(e(err::MATH))?;
        let bal: u64 = bal.try_into().map_err(|_| e(err::MATH))?;
        let cd = rd_i64(&ud, o + POS_CUM_DEPOSITS).checked_add(i64::try_from(amount).map_err(|_| e(err::MATH))?).ok_or(e(err::MATH))?;
        wr(&mut ud, o + POS_SCALED_BALANCE, &bal.to_le_bytes());
        wr(&mut ud, o + POS_CUM_DEPOSITS, &cd.to_le_bytes());
    }
    {
        let mut d = sm.try_borrow_mut_data()?;
        let nb = m.deposit_balance.checked_add(delta).ok_or(e(err::MATH))?;
        wr(&mut d, SM_DEPOSIT_BALANCE, &nb.to_le_bytes());
        wr(&mut d, SM_LAST_INTEREST_TS, &(now as u64).to_le_bytes());
    }
    let mint = rem.iter().find(|a| *a.key == m.mint);
    token_transfer(token_program, uta, vault, authority, mint, amount, m.decimals as u8, &[])?;
    check_vault_invariant(sm, vault)
}

fn withdraw(pid: &Pubkey, ais: &[AccountInfo], args: &[u8]) -> ProgramResult {
    let (market_index, amount, reduce_only) = parse_mar(args)?;
    if ais.len() < 8 {
        return Err(ProgramError::NotEnoughAccountKeys);
    }
    let (state, user, stats, authority, vault, drift_signer, uta, token_program) = (&ais[0], &ais[1], &ais[2], &ais[3], &ais[4], &ais[5], &ais[6], &ais[7]);
    let rem = &ais[8..];
    check_state(state, pid)?;
    check_user(user, stats, authority, pid)?;
    let (signer_key, signer_bump) = signer_pda();
    if *drift_signer.key != signer_key {
        return Err(e(err::WRONG_PDA));
    }
    let sm = find_spot_market(rem, pid, market_index)?;
    if !sm.is_writable {
        return Err(e(err::NOT_WRITABLE));
    }
    let m = read_market(&sm.try_borrow_data()?)?;
    check_token_accounts(&m, vault, uta, token_program)?;
    let now = Clock::get()?.unix_timestamp;
    let (tok_delta, bal_delta) = {
        let mut ud = user.try_borrow_mut_data()?;
        let i = find_position(&ud, market_index).ok_or(e(err::NO_POSITION))?;
        let o = pos_off(i);
        if ud[o + POS_BALANCE_TYPE] != 0 {
            return Err(e(err::BORROW_UNSUPPORTED));
        }
        let bal = rd_u64(&ud, o + POS_SCALED_BALANCE) as u128;
        let cur = token_amount_floor(bal, m.pi, m.ci)?;
        let mut amt = amount as u128;
        if reduce_only {
            amt = amt.min(cur);
        } else if amt > cur {
            // would open a borrow
            return Err(e(err::INSUFFICIENT_DEPOSIT));
        }
        // DRIFT `update_spot_balances`: a partial reduction rounds the balance delta up, a full one takes the whole balance
        let (tok_delta, bal_delta) = if cur > amt { (amt, spot_balance(amt, m.pi, m.ci, true)?) } else { (cur, bal) };
        if bal_delta > bal {
            return Err(e(err::INSUFFICIENT_DEPOSIT));
        }
        let nb = (bal - bal_delta) as u64;
        let cd = rd_i64(&ud, o + POS_CUM_DEPOSITS).checked_sub(i64::try_from(tok_delta).map_err(|_| e(err::MATH))?).ok_or(e(err::MATH))?;
        wr(&mut ud, o + POS_SCALED_BALANCE, &nb.to_le_bytes());
        wr(&mut ud, o + POS_CUM_DEPOSITS, &cd.to_le_bytes());
        (tok_delta as u64, bal_delta)
    };
    {
        let mut d = sm.try_borrow_mut_data()?;
        let nb = m.deposit_balance.checked_sub(bal_delta).ok_or(e(err::MATH))?;
        wr(&mut d, SM_DEPOSIT_BALANCE, &nb.to_le_bytes());
        wr(&mut d, SM_LAST_INTEREST_TS, &(now as u64).to_le_bytes());
    }
    if tok_delta > 0 {
        let mint = rem.iter().find(|a| *a.key == m.mint);
        token_transfer(token_program, vault, uta, drift_signer, mint, tok_delta, m.decimals as u8, &[&[b"drift_signer", &[signer_bump]]])?;
    }
    check_vault_invariant(sm, vault)
}

fn update_spot_market_cumulative_interest(pid: &Pubkey, ais: &[AccountInfo]) -> ProgramResult {
    if ais.len() < 4 {
        return Err(ProgramError::NotEnoughAccountKeys);
    }
    let (state, sm, oracle, vault) = (&ais[0], &ais[1], &ais[2], &ais[3]);
    check_state(state, pid)?;
    if !is_spot_market(sm, pid) {
        return Err(ProgramError::IllegalOwner);
    }
    if !sm.is_writable {
        return Err(e(err::NOT_WRITABLE));
    }
    let m = read_market(&sm.try_borrow_data()?)?;
    if m.oracle != Pubkey::default() && *oracle.key != m.oracle {
        return Err(e(err::WRONG_ORACLE));
    }
    if *vault.key != m.vault {
        return Err(e(err::WRONG_VAULT));
    }
    let now = Clock::get()?.unix_timestamp;
    let mut d = sm.try_borrow_mut_data()?;
    wr(&mut d, SM_LAST_INTEREST_TS, &(now as u64).to_le_bytes());
    Ok(())
}

fn create_pda<'a>(payer: &AccountInfo<'a>, new: &AccountInfo<'a>, space: usize, pid: &Pubkey, seeds: &[&[u8]]) -> ProgramResult {
    if !payer.is_signer {
        return Err(ProgramError::MissingRequiredSignature);
    }
    if *new.owner != system_program::ID || new.data_len() != 0 {
        return Err(e(err::ALREADY_INITIALIZED));
    }
    let lamports = Rent::get()?.minimum_balance(space).saturating_sub(new.lamports());
    let ix = system_instruction::create_account(payer.key, new.key, lamports, space as u64, pid);
    if new.lamports() == 0 {
        invoke_signed(&ix, &[payer.clone(), new.clone()], &[seeds])
    } else {
        // pre-funded address: transfer + allocate + assign, as Anchor's `init` does
        if lamports > 0 {
            invoke_signed(&system_instruction::transfer(payer.key, new.key, lamports), &[payer.clone(), new.clone()], &[])?;
        }
        invoke_signed(&system_instruction::allocate(new.key, space as u64), &[new.clone()], &[seeds])?;
        invoke_signed(&system_instruction::assign(new.key, pid), &[new.clone()], &[seeds])
    }
}

fn initialize_user_stats(pid: &Pubkey, ais: &[AccountInfo]) -> ProgramResult {
    if ais.len() < 6 {
        return Err(ProgramError::NotEnoughAccountKeys);
    }
    let (stats, state, authority, payer) = (&ais[0], &ais[1], &ais[2], &ais[3]);
    check_state(state, pid)?;
    if !authority.is_signer {
        return Err(ProgramError::MissingRequiredSignature);
    }
    let (k, bump) = user_stats_pda(authority.key);
    if *stats.key != k {
        return Err(e(err::WRONG_PDA));
    }
    create_pda(payer, stats, US_LEN, pid, &[b"user_stats", authority.key.as_ref(), &[bump]])?;
    let mut d = stats.try_borrow_mut_data()?;
    wr(&mut d, 0, &USER_STATS_DISC);
    wr(&mut d, US_AUTHORITY, authority.key.as_ref());
    Ok(())
}

fn initialize_user(pid: &Pubkey, ais: &[AccountInfo], args: &[u8]) -> ProgramResult {
    if args.len() < 34 {
        return Err(ProgramError::InvalidInstructionData);
    }
    let sub = rd_u16(args, 0);
    if ais.len() < 7 {
        return Err(ProgramError::NotEnoughAccountKeys);
    }
    let (user, stats, state, authority, payer) = (&ais[0], &ais[1], &ais[2], &ais[3], &ais[4]);
    check_state(state, pid)?;
    if !authority.is_signer {
        return Err(ProgramError::MissingRequiredSignature);
    }
    if stats.owner != pid {
        return Err(ProgramError::IllegalOwner);
    }
    {
        let sd = stats.try_borrow_data()?;
        if sd.len() != US_LEN || sd[..8] != USER_STATS_DISC {
            return Err(ProgramError::InvalidAccountData);
        }
        if rd_pk(&sd, US_AUTHORITY) != *authority.key {
            return Err(e(err::STATS_MISMATCH));
        }
    }
    let (k, bump) = user_pda(authority.key, sub);
    if *user.key != k {
        return Err(e(err::WRONG_PDA));
    }
    create_pda(payer, user, U_LEN, pid, &[b"user", authority.key.as_ref(), &sub.to_le_bytes(), &[bump]])?;
    let mut d = user.try_borrow_mut_data()?;
    wr(&mut d, 0, &USER_DISC);
    wr(&mut d, U_AUTHORITY, authority.key.as_ref());
    wr(&mut d, U_NAME, &args[2..34]);
    wr(&mut d, U_SUB_ACCOUNT_ID, &sub.to_le_bytes());
    Ok(())
}

fn update_user_pool_id(pid: &Pubkey, ais: &[AccountInfo], args: &[u8]) -> ProgramResult {
    if args.len() < 3 {
        return Err(ProgramError::InvalidInstructionData);
    }
    if ais.len() < 2 {
        return Err(ProgramError::NotEnoughAccountKeys);
    }
    let (user, authority) = (&ais[0], &ais[1]);
    if !authority.is_signer {
        return Err(ProgramError::MissingRequiredSignature);
    }
    if user.owner != pid {
        return Err(ProgramError::IllegalOwner);
    }
    if !user.is_writable {
        return Err(e(err::NOT_WRITABLE));
    }
    let mut d = user.try_borrow_mut_data()?;
    if d.len() != U_LEN || d[..8] != USER_DISC {
        return Err(ProgramError::InvalidAccountData);
    }
    if rd_pk(&d, U_AUTHORITY) != *authority.key {
        return Err(e(err::WRONG_AUTHORITY));
    }
    d[U_POOL_ID] = args[2];
    Ok(())
}

// ------------------------------------------------------------------------------------------
// world helpers
// ------------------------------------------------------------------------------------------
/// the venue-side accounts of one DRIFT bank
#[derive(Clone, Debug, PartialEq, Eq)]
pub struct VenueBank {
    pub market_index: u16,
    pub pool_id: u8,
    pub state: Pubkey,
    pub signer: Pubkey,
    pub spot_market: Pubkey,
    pub vault: Pubkey,
    /// the DRIFT user / user stats of the bank's liquidity-vault authority (`integration_acc_2` / `_3`)
    pub user: Pubkey,
    pub user_stats: Pubkey,
    /// the oracle DRIFT itself uses for the market (None for market 0, the quote asset)
    pub oracle: Option<Pubkey>,
    pub mint: Pubkey,
}

#[derive(Clone, Debug)]
pub struct DriftOpts {
    /// default: bank index + 1 (never 0, so the bank uses spot position slot 1 and passes an oracle)
    pub market_index: Option<u16>,
    pub pool_id: u8,
    /// the nominal, irrecoverable deposit of `drift_init_user` (>= 10)
    pub init_amount: u64,
    /// initial `cumulative_deposit_interest` (10^10 = 1.0)
    pub cumulative_deposit_interest: u128,
}
impl Default for DriftOpts {
    fn default() -> Self {
        DriftOpts { market_index: None, pool_id: 0, init_amount: 100, cumulative_deposit_interest: CUM_INTEREST_ONE }
    }
}

fn mfi_ix(accounts: Vec<AccountMeta>, data: Vec<u8>) -> Instruction {
    Instruction { program_id: marginfi::ID, accounts, data }
}

fn spot_market_acct(key: Pubkey, oracle: Pubkey, mint: Pubkey, vault: Pubkey, decimals: u8, market_index: u16, pool_id: u8, ci: u128, now: i64) -> Acct {
    let mut d = vec![0u8; SM_LEN];
    wr(&mut d, 0, &SPOT_MARKET_DISC);
    wr(&mut d, SM_PUBKEY, key.as_ref());
    wr(&mut d, SM_ORACLE, oracle.as_ref());
    wr(&mut d, SM_MINT, mint.as_ref());
    wr(&mut d, SM_VAULT, vault.as_ref());
    wr(&mut d, SM_CUM_DEPOSIT_INTEREST, &ci.to_le_bytes());
    wr(&mut d, SM_CUM_BORROW_INTEREST, &CUM_INTEREST_ONE.to_le_bytes());
    wr(&mut d, SM_LAST_INTEREST_TS, &(now as u64).to_le_bytes());
    wr(&mut d, SM_DECIMALS, &(decimals as u32).to_le_bytes());
    wr(&mut d, SM_MARKET_INDEX, &market_index.to_le_bytes());
    d[SM_POOL_ID] = pool_id;
    Acct { lamports: 1_000_000_000, data: d, owner: program_id(), executable: false }
}

fn ensure_state(vm: &mut Vm) {
    // `drift_init_user` takes the Rent sysvar as an account (bincode: lamports_per_byte_year, exemption_threshold, burn_percent)
    let rent_id = solana_program::sysvar::rent::ID;
    if vm.get(&rent_id).is_none() {
        let r = Rent::default();
        let mut d = r.lamports_per_byte_year.to_le_bytes().to_vec();
        d.extend_from_slice(&r.exemption_threshold.to_le_bytes());
        d.push(r.burn_percent);
        vm.set(rent_id, Acct { lamports: 1_009_200, data: d, owner: solana_program::sysvar::ID, executable: false });
    }
    let (k, _) = state_pda();
    if vm.get(&k).is_none() {
        let mut d = vec![0u8; STATE_LEN];
        wr(&mut d, 0, &STATE_DISC);
        wr(&mut d, 8, kp("drift_admin", 0).as_ref());
        wr(&mut d, STATE_SIGNER, signer_pda().0.as_ref());
        vm.set(k, Acct { lamports: 1_000_000_000, data: d, owner: program_id(), executable: false });
    }
}

/// Create a DRIFT bank: fabricates the mint, the oracle and the venue-side accounts (state, spot market, vault), then
/// `lending_pool_add_bank_drift` (group admin) and `drift_init_user` (admin pays and provides the nominal deposit)
/// through `marginfi::entry`. `spec.oracle.kind` must be 1 (Pyth -> DriftPythPull) or 2 (Switchboard ->
/// DriftSwitchboardPull). Ignored fields of the spec (DRIFT banks have none): liability weights, borrow limit, curve,
/// asset_tag, staked. Returns the bank index.
pub fn add_bank(w: &mut World, spec: &BankSpec) -> Result<usize, String> {
    add_bank_ext(w, spec, &DriftOpts::default())
}

pub fn add_bank_ext(w: &mut World, spec: &BankSpec, opts: &DriftOpts) -> Result<usize, String> {
    use marginfi::state::drift::DriftConfigCompact;
    use marginfi_type_crate::types::{BankConfigOpt, BankOperationalState, OracleSetup, RiskTier};
    register();
    let i = w.banks.len();
    let setup = match spec.oracle.kind {
        1 => OracleSetup::DriftPythPull,
        2 => OracleSetup::DriftSwitchboardPull,
        k => return Err(format!("drift add_bank {i}: oracle kind {k} unsupported (1 = Pyth, 2 = Switchboard)")),
    };
    let now = w.vm.now();
    let mint = kp("mint", i as u64);
    let token_program = if spec.token == 0 { spl_token::ID } else { spl_token_2022::ID };
    match spec.token {
        0 => w.vm.set(mint, world::spl_mint_acct(spec.decimals)),
        1 => w.vm.set(mint, world::t22_mint_acct(spec.decimals, None)),
        _ => w.vm.set(mint, world::t22_mint_acct(spec.decimals, Some((spec.fee_bps, spec.fee_max)))),
    }
    let oracle_key = kp("oracle", i as u64);
    w.vm.set(oracle_key, spec.oracle.account(now).unwrap());

    ensure_state(&mut w.vm);
    let market_index = opts.market_index.unwrap_or(i as u16 + 1);
    let spot_market = spot_market_pda(market_index);
    let vault = spot_market_vault_pda(market_index);
    if w.vm.get(&spot_market).is_some() {
        return Err(format!("drift add_bank {i}: spot market {market_index} exists"));
    }
    let venue_oracle = if market_index == 0 { Pubkey::default() } else { oracle_key };
    w.vm.set(spot_market, spot_market_acct(spot_market, venue_oracle, mint, vault, spec.decimals, market_index, opts.pool_id, opts.cumulative_deposit_interest, now));

    let seed = i as u64;
    let bank = Pubkey::find_program_address(&[w.group.as_ref(), mint.as_ref(), &seed.to_le_bytes()], &marginfi::ID).0;
    let mut bspec = spec.clone();
    bspec.asset_tag = marginfi_type_crate::constants::ASSET_TAG_DRIFT;
    bspec.staked = None;
    let info = BankInfo {
        key: bank,
        mint,
        token_program,
        decimals: spec.decimals,
        oracle_kind: spec.oracle.kind,
        oracle_key,
        oracle_extra: vec![spot_market],
        lv: world::bank_pda("liquidity_vault", &bank),
        lv_auth: world::bank_pda("liquidity_vault_auth", &bank),
        iv: world::bank_pda("insurance_vault", &bank),
        iv_auth: world::bank_pda("insurance_vault_auth", &bank),
        fv: world::bank_pda("fee_vault", &bank),
        fv_auth: world::bank_pda("fee_vault_auth", &bank),
        fee_ata: world::ata(&w.fee_wallet, &mint, &token_program),
        spec: bspec,
    };
    let a = w.make_token_acct(&info, signer_pda().0, 0);
    w.vm.set(vault, a);
    let a = w.make_token_acct(&info, w.fee_wallet, 0);
    w.vm.set(info.fee_ata, a);

    let admin = w.roles.admin;
    let user = user_pda(&info.lv_auth, 0).0;
    let user_stats = user_stats_pda(&info.lv_auth).0;
    let cfg = DriftConfigCompact::new(
        oracle_key,
        world::w_mill(spec.aw_i),
        world::w_mill(spec.aw_m),
        spec.deposit_limit,
        setup,
        BankOperationalState::Operational,
        if spec.isolated { RiskTier::Isolated } else { RiskTier::Collateral },
        marginfi_type_crate::constants::PYTH_PUSH_MIGRATED_DEPRECATED,
        spec.init_limit,
        spec.oracle.max_age,
        spec.oracle.max_conf,
    );
    let mut m = marginfi::accounts::LendingPoolAddBankDrift {
        group: w.group,
        admin,
        fee_payer: admin,
        bank_mint: mint,
        bank,
        integration_acc_1: spot_market,
        integration_acc_2: user,
        integration_acc_3: user_stats,
        liquidity_vault_authority: info.lv_auth,
        liquidity_vault: info.lv,
        insurance_vault_authority: info.iv_auth,
        insurance_vault: info.iv,
        fee_vault_authority: info.fv_auth,
        fee_vault: info.fv,
        token_program,
        system_program: system_program::ID,
    }
    .to_account_metas(Some(true));
    m.push(AccountMeta::new_readonly(oracle_key, false));
    m.push(AccountMeta::new_readonly(spot_market, false));
    let ix = mfi_ix(m, marginfi::instruction::LendingPoolAddBankDrift { bank_config: cfg, bank_seed: seed }.data());
    w.vm.exec(&ix).map_err(|e| format!("lending_pool_add_bank_drift {i}: {e:?}"))?;
    w.banks.push(info.clone());

    // a token account of the new mint for every existing user
    for u in 0..w.users.len() {
        let k = kp("uta", (u as u64) << 16 | i as u64);
        let a = w.make_token_acct(&info, w.users[u].auth, w.spec.user_tokens);
        w.vm.set(k, a);
        if w.users[u].tokens.len() == i {
            w.users[u].tokens.push(k);
        } else {
            return Err(format!("drift add_bank {i}: user {u} has {} token accounts", w.users[u].tokens.len()));
        }
    }

    // drift_init_user: creates user stats + user of the liquidity-vault authority and makes the nominal deposit
    let src = kp("drift_init_src", i as u64);
    let a = w.make_token_acct(&info, admin, opts.init_amount.saturating_mul(2).max(1000));
    w.vm.set(src, a);
    let ix = ix_init_user(w, i, admin, src, opts.init_amount);
    w.vm.exec(&ix).map_err(|e| format!("drift_init_user {i}: {e:?}"))?;

    let mut opt = BankConfigOpt::default();
    let mut need = false;
    if spec.op_state != 1 {
        opt.operational_state = Some(world::op_state(spec.op_state));
        need = true;
    }
    if spec.permissionless_bad_debt {
        opt.permissionless_bad_debt_settlement = Some(true);
        need = true;
    }
    if need {
        let ix = w.ix_configure_bank(i, opt, admin);
        w.vm.exec(&ix).map_err(|e| format!("configure drift bank {i}: {e:?}"))?;
    }
    if spec.emode_tag != 0 || !spec.emode_entries.is_empty() {
        let ix = w.ix_config_emode(i, spec.emode_tag, &spec.emode_entries, w.roles.emode);
        w.vm.exec(&ix).map_err(|e| format!("emode drift bank {i}: {e:?}"))?;
    }
    Ok(i)
}

/// is bank `bank` of the world a DRIFT bank (asset tag DRIFT in the store)?
pub fn is_drift_bank(w: &World, bank: usize) -> bool {
    world::try_read_bank(&w.vm, &w.banks[bank].key).map(|b| b.config.asset_tag == marginfi_type_crate::constants::ASSET_TAG_DRIFT).unwrap_or(false)
}

/// the venue-side accounts of DRIFT bank `bank`, read from the bank and its spot market in the store
pub fn venue(w: &World, bank: usize) -> VenueBank {
    venue_of(&w.vm, &w.banks[bank])
}
pub fn venue_of(vm: &Vm, bank: &BankInfo) -> VenueBank {
    let b = world::read_bank(vm, &bank.key);
    let sm = vm.data(&b.integration_acc_1);
    let oracle = rd_pk(sm, SM_ORACLE);
    VenueBank {
        market_index: rd_u16(sm, SM_MARKET_INDEX),
        pool_id: sm[SM_POOL_ID],
        state: state_pda().0,
        signer: signer_pda().0,
        spot_market: b.integration_acc_1,
        vault: rd_pk(sm, SM_VAULT),
        user: b.integration_acc_2,
        user_stats: b.integration_acc_3,
        oracle: if oracle == Pubkey::default() { None } else { Some(oracle) },
        mint: rd_pk(sm, SM_MINT),
    }
}

pub fn ix_init_user(w: &World, bank: usize, fee_payer: Pubkey, src: Pubkey, amount: u64) -> Instruction {
    let b = &w.banks[bank];
    let v = venue(w, bank);
    mfi_ix(
        marginfi::accounts::DriftInitUser {
            fee_payer,
            signer_token_account: src,
            bank: b.key,
            liquidity_vault_authority: b.lv_auth,
            liquidity_vault: b.lv,
            mint: b.mint,
            integration_acc_3: v.user_stats,
            integration_acc_2: v.user,
            drift_state: v.state,
            integration_acc_1: v.spot_market,
            drift_spot_market_vault: v.vault,
            drift_oracle: v.oracle,
            drift_program: program_id(),
            token_program: b.token_program,
            rent: solana_program::sysvar::rent::ID,
            system_program: system_program::ID,
        }
        .to_account_metas(Some(true)),
        marginfi::instruction::DriftInitUser { amount }.data(),
    )
}

/// `drift_deposit` of `amount` native tokens by user `user` (its authority signs, its token account of the bank's mint pays)
pub fn ix_deposit(w: &World, user: usize, acct: &Pubkey, bank: usize, amount: u64) -> Instruction {
    ix_deposit_with(w, acct, bank, amount, w.users[user].auth, w.users[user].tokens[bank])
}
pub fn ix_deposit_with(w: &World, acct: &Pubkey, bank: usize, amount: u64, signer: Pubkey, src: Pubkey) -> Instruction {
    let b = &w.banks[bank];
    let v = venue(w, bank);
    mfi_ix(
        marginfi::accounts::DriftDeposit {
            group: w.group,
            marginfi_account: *acct,
            authority: signer,
            bank: b.key,
            drift_oracle: v.oracle,
            liquidity_vault_authority: b.lv_auth,
            liquidity_vault: b.lv,
            signer_token_account: src,
            drift_state: v.state,
            integration_acc_2: v.user,
            integration_acc_3: v.user_stats,
            integration_acc_1: v.spot_market,
            drift_spot_market_vault: v.vault,
            mint: b.mint,
            drift_program: program_id(),
            token_program: b.token_program,
            system_program: system_program::ID,
        }
        .to_account_metas(Some(true)),
        marginfi::instruction::DriftDeposit { amount }.data(),
    )
}

/// `drift_withdraw`; remaining accounts = the risk engine's observation accounts of `acct` the way `World::ix_withdraw`
/// builds them (the closed balance left out for `all`; venue banks contribute bank, oracle, spot market).
/// `user` is only documentation (whose account it is); `signer` signs and `dest` receives.
pub fn ix_withdraw(w: &World, _user: usize, acct: &Pubkey, bank: usize, amount: u64, all: bool, signer: Pubkey, dest: Pubkey) -> Instruction {
    let risk = w.risk_metas(acct, None, if all { Some(w.banks[bank].key) } else { None });
    ix_withdraw_with(w, acct, bank, amount, all, signer, dest, risk)
}
/// same with explicit remaining accounts (inside a receivership bracket the bank's own observation accounts must be
/// present even for `all`, because the handler prices the withdrawn asset)
pub fn ix_withdraw_with(w: &World, acct: &Pubkey, bank: usize, amount: u64, all: bool, signer: Pubkey, dest: Pubkey, risk: Vec<AccountMeta>) -> Instruction {
    let b = &w.banks[bank];
    let v = venue(w, bank);
    let mut m = marginfi::accounts::DriftWithdraw {
        group: w.group,
        marginfi_account: *acct,
        authority: signer,
        bank: b.key,
        drift_oracle: v.oracle,
        liquidity_vault_authority: b.lv_auth,
        liquidity_vault: b.lv,
        destination_token_account: dest,
        drift_state: v.state,
        integration_acc_2: v.user,
        integration_acc_3: v.user_stats,
        integration_acc_1: v.spot_market,
        drift_spot_market_vault: v.vault,
        drift_reward_oracle: None,
        drift_reward_spot_market: None,
        drift_reward_mint: None,
        drift_reward_oracle_2: None,
        drift_reward_spot_market_2: None,
        drift_reward_mint_2: None,
        drift_signer: v.signer,
        mint: b.mint,
        drift_program: program_id(),
        token_program: b.token_program,
        system_program: system_program::ID,
    }
    .to_account_metas(Some(true));
    m.extend(risk);
    mfi_ix(m, marginfi::instruction::DriftWithdraw { amount, withdraw_all: if all { Some(true) } else { None } }.data())
}

/// the venue's own refresh instruction(s): `update_spot_market_cumulative_interest` as a top-level instruction of
/// the DRIFT program (allowed before `start_liquidation` / `start_deleverage`)
pub fn refresh_ixs(w: &World, bank: usize) -> Vec<Instruction> {
    let v = venue(w, bank);
    let accounts = vec![
        AccountMeta::new_readonly(v.state, false),
        AccountMeta::new(v.spot_market, false),
        AccountMeta::new_readonly(v.oracle.unwrap_or(system_program::ID), false),
        AccountMeta::new_readonly(v.vault, false),
    ];
    vec![Instruction { program_id: program_id(), accounts, data: dargs::UpdateSpotMarketCumulativeInterest::DISCRIMINATOR.to_vec() }]
}

/// stamp the spot market as fresh directly in the store (what `refresh_ixs` does)
pub fn refresh_direct(w: &mut World, bank: usize) {
    let v = venue(w, bank);
    let now = w.vm.now();
    w.vm.modify(&v.spot_market, |a| wr(&mut a.data, SM_LAST_INTEREST_TS, &(now as u64).to_le_bytes()));
}

/// Interest knob (the outside world acting): `cumulative_deposit_interest *= (1 + factor_ppm / 10^6)` (floored) directly
/// in the store, and the vault receives the tokens that make it solvent at the new rate (the borrowers' interest).
/// Does NOT touch `last_interest_ts`. Returns the number of tokens added to the vault.
pub fn accrue(vm: &mut Vm, bank: &VenueBank, factor_ppm: u64) -> u64 {
    let sm = vm.data(&bank.spot_market).to_vec();
    let ci = rd_u128(&sm, SM_CUM_DEPOSIT_INTEREST);
    let nci = ci * (1_000_000u128 + factor_ppm as u128) / 1_000_000u128;
    vm.modify(&bank.spot_market, |a| wr(&mut a.data, SM_CUM_DEPOSIT_INTEREST, &nci.to_le_bytes()));
    let pi = 10u128.pow(19 - rd_u32(&sm, SM_DECIMALS));
    let owed = rd_u128(&sm, SM_DEPOSIT_BALANCE) * nci / pi;
    let have = world::token_amount(vm.data(&bank.vault)) as u128;
    let add = owed.saturating_sub(have) as u64;
    if add > 0 {
        vm.modify(&bank.vault, |a| wr(&mut a.data, 64, &(have as u64 + add).to_le_bytes()));
    }
    add
}

/// Loss knob (the outside world acting; real DRIFT socialises a spot bankruptcy by LOWERING the cumulative deposit
/// interest): `cumulative_deposit_interest *= (1 - factor_ppm / 10^6)` (floored, at least 1). The vault keeps its tokens
/// (it then holds more than it owes). Does NOT touch `last_interest_ts`.
pub fn loss(vm: &mut Vm, bank: &VenueBank, factor_ppm: u64) {
    let factor_ppm = factor_ppm.min(1_000_000);
    let sm = vm.data(&bank.spot_market).to_vec();
    let ci = rd_u128(&sm, SM_CUM_DEPOSIT_INTEREST);
    let nci = (ci * (1_000_000u128 - factor_ppm as u128) / 1_000_000u128).max(1);
    vm.modify(&bank.spot_market, |a| wr(&mut a.data, SM_CUM_DEPOSIT_INTEREST, &nci.to_le_bytes()));
}

/// Exact underlying-per-collateral-unit rate of a DRIFT bank as (numerator, denominator): one collateral unit is one
/// unit of DRIFT scaled balance (what marginfi books as asset shares, share value 1, 9 "decimals"), worth
/// `cumulative_deposit_interest / 10^(19 - mint decimals)` native tokens of the underlying mint. Read from the raw
/// spot market account (`bank.oracle_extra[0]`).
pub fn exact_rate(vm: &Vm, bank: &BankInfo) -> (BigInt, BigInt) {
    let d = vm.data(&bank.oracle_extra[0]);
    let ci = u128::from_le_bytes(d[464..480].try_into().unwrap());
    let dec = u32::from_le_bytes(d[680..684].try_into().unwrap());
    (BigInt::from(ci), num_traits::pow(BigInt::from(10u32), (19 - dec) as usize))
}

/// raw view of the venue for monitors / the reference model
#[derive(Clone, Debug, PartialEq, Eq)]
pub struct VenueState {
    pub deposit_balance: u128,
    pub cumulative_deposit_interest: u128,
    pub last_interest_ts: u64,
    pub decimals: u32,
    pub vault_tokens: u64,
    /// scaled balance / cumulative deposits of the bank's pooled position (includes the nominal init deposit)
    pub position_scaled_balance: u64,
    pub position_cumulative_deposits: i64,
}
pub fn venue_state(vm: &Vm, v: &VenueBank) -> VenueState {
    let sm = vm.data(&v.spot_market);
    let ud = vm.data(&v.user);
    let (mut sb, mut cd) = (0u64, 0i64);
    if ud.len() == U_LEN {
        if let Some(i) = find_position(ud, v.market_index) {
            sb = rd_u64(ud, pos_off(i) + POS_SCALED_BALANCE);
            cd = rd_i64(ud, pos_off(i) + POS_CUM_DEPOSITS);
        }
    }
    VenueState {
        deposit_balance: rd_u128(sm, SM_DEPOSIT_BALANCE),
        cumulative_deposit_interest: rd_u128(sm, SM_CUM_DEPOSIT_INTEREST),
        last_interest_ts: rd_u64(sm, SM_LAST_INTEREST_TS),
        decimals: rd_u32(sm, SM_DECIMALS),
        vault_tokens: world::token_amount(vm.data(&v.vault)),
        position_scaled_balance: sb,
        position_cumulative_deposits: cd,
    }
}

// ------------------------------------------------------------------------------------------
// harvest set-up (`drift_harvest_reward`): further spot markets, "admin deposits", the instruction
// ------------------------------------------------------------------------------------------
/// a spot market other than a bank's own one (a market that pays rewards / holds an admin deposit)
#[derive(Clone, Debug, PartialEq, Eq)]
pub struct HarvestMarket {
    pub market_index: u16,
    pub spot_market: Pubkey,
    pub vault: Pubkey,
    pub mint: Pubkey,
    pub token_program: Pubkey,
    pub decimals: u8,
}

/// Fabricate (idempotently) spot market `market_index` of the existing mint `mint` with an empty vault owned by the DRIFT
/// signer PDA: the venue listing another asset. The market has no oracle of its own (as the quote market).
pub fn add_reward_market(w: &mut World, market_index: u16, mint: Pubkey, cumulative_deposit_interest: u128) -> HarvestMarket {
    register();
    ensure_state(&mut w.vm);
    let spot_market = spot_market_pda(market_index);
    let vault = spot_market_vault_pda(market_index);
    let m = w.vm.get(&mint).expect("reward mint").clone();
    let (token_program, decimals) = (m.owner, m.data[44]);
    if w.vm.get(&spot_market).is_none() {
        let now = w.vm.now();
        w.vm.set(spot_market, spot_market_acct(spot_market, Pubkey::default(), mint, vault, decimals, market_index, 0, cumulative_deposit_interest.max(1), now));
        let a = if token_program == spl_token::ID { world::spl_token_acct(mint, signer_pda().0, 0) } else { world::t22_token_acct(&m.data, mint, signer_pda().0, 0) };
        w.vm.set(vault, a);
    }
    HarvestMarket { market_index, spot_market, vault, mint, token_program, decimals }
}

/// (market index, scaled balance, balance type) of spot position `slot` of a DRIFT user
pub fn position_at(vm: &Vm, user: &Pubkey, slot: usize) -> (u16, u64, u8) {
    let ud = vm.data(user);
    if ud.len() != U_LEN || slot >= 8 {
        return (0, 0, 0);
    }
    let o = pos_off(slot);
    (rd_u16(ud, o + POS_MARKET_INDEX), rd_u64(ud, o + POS_SCALED_BALANCE), ud[o + POS_BALANCE_TYPE])
}

/// The outside world acting (DRIFT's admin, `admin_deposit`): spot position `slot` of `user` becomes / grows by a deposit of
/// `tokens` native tokens in market `m` — scaled balance, cumulative deposits, the market's deposit balance and the
/// market's vault all move as a real deposit would move them. Refused (Err) if the slot holds a balance of another
/// market, or slot 0 is asked for a market other than 0 (DRIFT keeps slot 0 for the quote market). Returns the scaled
/// balance added.
pub fn admin_deposit(vm: &mut Vm, user: &Pubkey, m: &HarvestMarket, slot: usize, tokens: u64) -> Result<u64, String> {
    if slot >= 8 || (slot == 0) != (m.market_index == 0) {
        return Err(format!("slot {slot} cannot hold market {}", m.market_index));
    }
    let ud = vm.data(user).to_vec();
    if ud.len() != U_LEN {
        return Err("not a drift user".into());
    }
    let o = pos_off(slot);
    let bal0 = rd_u64(&ud, o + POS_SCALED_BALANCE);
    if bal0 > 0 && (rd_u16(&ud, o + POS_MARKET_INDEX) != m.market_index || ud[o + POS_BALANCE_TYPE] != 0) {
        return Err(format!("slot {slot} is in use"));
    }
    for i in 0..8 {
        if i != slot && rd_u64(&ud, pos_off(i) + POS_SCALED_BALANCE) > 0 && rd_u16(&ud, pos_off(i) + POS_MARKET_INDEX) == m.market_index {
            return Err(format!("market {} already sits in slot {i}", m.market_index));
        }
    }
    let sm = vm.data(&m.spot_market).to_vec();
    let ci = rd_u128(&sm, SM_CUM_DEPOSIT_INTEREST);
    let pi = 10u128.pow(19 - rd_u32(&sm, SM_DECIMALS));
    let delta = (tokens as u128 * pi / ci.max(1)).min((u64::MAX - bal0) as u128) as u64;
    let cd0 = if bal0 > 0 { rd_i64(&ud, o + POS_CUM_DEPOSITS) } else { 0 };
    vm.modify(user, |a| {
        if bal0 == 0 {
            a.data[o..o + POS_LEN].fill(0);
        }
        wr(&mut a.data, o + POS_SCALED_BALANCE, &(bal0 + delta).to_le_bytes());
        wr(&mut a.data, o + POS_CUM_DEPOSITS, &cd0.saturating_add(tokens.min(i64::MAX as u64) as i64).to_le_bytes());
        wr(&mut a.data, o + POS_MARKET_INDEX, &m.market_index.to_le_bytes());
    });
    let db = rd_u128(&sm, SM_DEPOSIT_BALANCE) + delta as u128;
    vm.modify(&m.spot_market, |a| wr(&mut a.data, SM_DEPOSIT_BALANCE, &db.to_le_bytes()));
    let have = world::token_amount(vm.data(&m.vault));
    vm.modify(&m.vault, |a| wr(&mut a.data, 64, &have.saturating_add(tokens).to_le_bytes()));
    Ok(delta)
}

/// every account of marginfi's `DriftHarvestReward` (+ the remaining accounts handed through to DRIFT's `withdraw`)
#[derive(Clone, Debug)]
pub struct HarvestKeys {
    pub bank: Pubkey,
    pub fee_state: Pubkey,
    pub liquidity_vault_authority: Pubkey,
    pub intermediary_token_account: Pubkey,
    pub destination_token_account: Pubkey,
    pub drift_state: Pubkey,
    pub integration_acc_2: Pubkey,
    pub integration_acc_3: Pubkey,
    pub harvest_drift_spot_market: Pubkey,
    pub harvest_drift_spot_market_vault: Pubkey,
    pub drift_signer: Pubkey,
    pub reward_mint: Pubkey,
    pub token_program: Pubkey,
    pub remaining: Vec<AccountMeta>,
}
/// The harvest of market `m` for DRIFT bank `bank` with the canonical accounts: intermediary = ATA of the bank's liquidity
/// vault authority, destination = ATA of the global fee wallet (addresses only; the caller makes them exist).
/// Remaining accounts as a client passes them to DRIFT: [the bank's oracle], the bank's own spot market, the harvested
/// spot market (writable), the reward mint.
pub fn harvest_keys(w: &World, bank: usize, m: &HarvestMarket) -> HarvestKeys {
    let b = &w.banks[bank];
    let v = venue(w, bank);
    let mut remaining = vec![];
    if let Some(o) = v.oracle {
        remaining.push(AccountMeta::new_readonly(o, false));
    }
    if v.spot_market != m.spot_market {
        remaining.push(AccountMeta::new(v.spot_market, false));
    }
    remaining.push(AccountMeta::new(m.spot_market, false));
    remaining.push(AccountMeta::new_readonly(m.mint, false));
    HarvestKeys {
        bank: b.key,
        fee_state: w.fee_state,
        liquidity_vault_authority: b.lv_auth,
        intermediary_token_account: world::ata(&b.lv_auth, &m.mint, &m.token_program),
        destination_token_account: world::ata(&w.fee_wallet, &m.mint, &m.token_program),
        drift_state: v.state,
        integration_acc_2: v.user,
        integration_acc_3: v.user_stats,
        harvest_drift_spot_market: m.spot_market,
        harvest_drift_spot_market_vault: m.vault,
        drift_signer: v.signer,
        reward_mint: m.mint,
        token_program: m.token_program,
        remaining,
    }
}
/// `drift_harvest_reward` (permissionless: the instruction has no signer account at all)
pub fn ix_harvest(k: &HarvestKeys) -> Instruction {
    let mut m = marginfi::accounts::DriftHarvestReward {
        bank: k.bank,
        fee_state: k.fee_state,
        liquidity_vault_authority: k.liquidity_vault_authority,
        intermediary_token_account: k.intermediary_token_account,
        destination_token_account: k.destination_token_account,
        drift_state: k.drift_state,
        integration_acc_2: k.integration_acc_2,
        integration_acc_3: k.integration_acc_3,
        harvest_drift_spot_market: k.harvest_drift_spot_market,
        harvest_drift_spot_market_vault: k.harvest_drift_spot_market_vault,
        drift_signer: k.drift_signer,
        reward_mint: k.reward_mint,
        drift_program: program_id(),
        token_program: k.token_program,
    }
    .to_account_metas(Some(true));
    m.extend(k.remaining.iter().cloned());
    mfi_ix(m, marginfi::instruction::DriftHarvestReward {}.data())
}
