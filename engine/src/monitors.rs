//! Per-property invariants evaluated after every executed step of the campaign.
use crate::campaign::{Op, Step};
use crate::num::*;
use crate::snap::*;
use crate::world::World;
use marginfi_type_crate::types::{ACCOUNT_DISABLED, ACCOUNT_FROZEN, ACCOUNT_IN_FLASHLOAN, ACCOUNT_IN_RECEIVERSHIP};
use num_bigint::BigInt;
use num_traits::{Signed, Zero};
use solana_program::pubkey::Pubkey;
use std::collections::BTreeMap;

#[derive(Clone, Debug)]
pub struct Finding {
    pub sig: String,
    pub msg: String,
}
fn finding(sig: &str, msg: String) -> Finding {
    Finding { sig: sig.to_string(), msg }
}

pub fn threshold_0001() -> Q {
    q_ratio(1, 10_000)
}

/// number of truncating fixed-point operations per op kind (for the dust budget)
fn op_cost(op: &Op) -> u32 {
    match op {
        Op::Deposit { .. } | Op::Withdraw { .. } | Op::Borrow { .. } | Op::Repay { .. } => 6,
        Op::Liquidate { .. } => 24,
        Op::Receivership { .. } => 12,
        Op::Flash { .. } => 12,
        Op::Bankrupt { .. } => 12,
        _ => 4,
    }
}

// ------------------------------------------------------------------------------------------
// C01 solvency
// ------------------------------------------------------------------------------------------
#[derive(Default, Clone)]
pub struct C01State {
    /// per bank: accumulated allowance (dust budget + sanctioned wipe-out remainder)
    pub allowance: BTreeMap<Pubkey, Q>,
    pub written_off: BTreeMap<Pubkey, bool>,
    pub max_budget_per_op: f64,
    pub max_deficit_ratio: f64,
}

/// accrual performs ~10 truncating operations whose error is scaled by the totals
fn accrual_eps(b: &BankSnap) -> Q {
    let mag = q_one() + &b.a_shares + &b.l_shares;
    let sv = q_max(q_one(), q_max(b.asv.clone(), b.lsv.clone()));
    q_int(16) * ulp() * mag * sv
}

pub fn c01_step(st: &mut C01State, pre: &StoreSnap, post: &StoreSnap, step: &Step) -> Vec<Finding> {
    let mut out = vec![];
    if !step.ok {
        return out;
    }
    for (k, b1) in &post.banks {
        let Some(b0) = pre.banks.get(k) else { continue };
        if *st.written_off.get(k).unwrap_or(&false) {
            continue;
        }
        // sanctioned: token-less repay on a flagged bank => excluded from then on
        if b1.flags & marginfi_type_crate::constants::TOKENLESS_REPAYMENTS_ALLOWED != 0 {
            st.written_off.insert(*k, true);
            continue;
        }
        let d_vault = q_int(b1.vault) - q_int(b0.vault);
        let d_net = b1.net_claims() - b0.net_claims();
        if d_vault.is_zero() && d_net.is_zero() {
            continue;
        }
        // budget for this op on this bank
        let mut eps = q_zero();
        {
            let mag = q_one() + q_max(b0.a_shares.clone(), b1.a_shares.clone()) + q_max(b0.l_shares.clone(), b1.l_shares.clone()) + q_int(step.amount);
            let sv = q_max(q_one(), q_max(q_max(b0.asv.clone(), b1.asv.clone()), q_max(b0.lsv.clone(), b1.lsv.clone())));
            eps = q_int(op_cost(&step.op)) * ulp() * mag * sv;
            if b1.asv != b0.asv || b1.lsv != b0.lsv {
                eps += accrual_eps(b0);
            }
        }
        // sanctioned: wipe-out of a bank whose bad debt exceeds deposits
        let mut sanctioned = q_zero();
        if let Op::Bankrupt { .. } = step.op {
            if b1.asv.is_zero() && !b0.asv.is_zero() {
                // uncovered remainder = -(d_vault - d_net) if positive
                let deficit = &d_net - &d_vault;
                if deficit.is_positive() {
                    sanctioned = deficit;
                }
            }
        }
        st.max_budget_per_op = st.max_budget_per_op.max(q_f64(&eps));
        let slack = &d_vault - &d_net + &eps + &sanctioned;
        if slack.is_negative() {
            out.push(finding(
                "solvency:delta",
                format!(
                    "op#{} {} bank {}: vault changed by {} but net claims (A*asv - L*lsv + fees) changed by {}; deficit {} exceeds the rounding allowance {}",
                    step.index,
                    step.op.name(),
                    k,
                    q_str(&d_vault),
                    q_str(&d_net),
                    q_str(&(&d_net - &d_vault)),
                    q_str(&eps)
                ),
            ));
        } else if eps.is_positive() {
            let deficit = &d_net - &d_vault;
            if deficit.is_positive() {
                st.max_deficit_ratio = st.max_deficit_ratio.max(q_f64(&(deficit / &eps)));
            }
        }
        let al = st.allowance.entry(*k).or_insert_with(q_zero);
        *al += eps + sanctioned;
        // cumulative form
        let gap = q_int(b1.vault) - b1.net_claims() + &*al;
        if gap.is_negative() {
            out.push(finding(
                "solvency:cumulative",
                format!("op#{} {} bank {}: vault {} < net claims {} beyond cumulative allowance {}", step.index, step.op.name(), k, b1.vault, q_str(&b1.net_claims()), q_str(al)),
            ));
        }
    }
    out
}

// ------------------------------------------------------------------------------------------
// C02 ledger consistency
// ------------------------------------------------------------------------------------------
#[derive(Default, Clone)]
pub struct C02State {
    /// per bank: exact share bits abandoned by closures (asset side, liability side)
    pub abandoned: BTreeMap<Pubkey, (BigInt, BigInt)>,
    pub closures: u64,
    pub max_abandoned_value: f64,
}

fn sums_of(s: &StoreSnap, k: &Pubkey) -> (BigInt, BigInt) {
    s.sums.get(k).cloned().unwrap_or((BigInt::from(0), BigInt::from(0)))
}

pub fn c02_step(st: &mut C02State, pre: &StoreSnap, post: &StoreSnap, step: &Step) -> Vec<Finding> {
    let mut out = vec![];
    if !step.ok {
        // a failed transaction must leave the ledger untouched
        return out;
    }
    // every instruction that closes a position abandons that slot's sub-dust residue (the other
    // side of a withdraw_all / repay_all, or both sides of close_balance / account close)
    let closing_op = matches!(step.op, Op::CloseBalance { .. } | Op::CloseAccount { .. } | Op::Withdraw { all: true, .. } | Op::Repay { all: true, .. } | Op::Flash { repay: true, .. });
    for (k, b1) in &post.banks {
        let Some(b0) = pre.banks.get(k) else { continue };
        let (sa0, sl0) = sums_of(pre, k);
        let (sa1, sl1) = sums_of(post, k);
        let d_tot_a = BigInt::from(b1.a_bits) - BigInt::from(b0.a_bits);
        let d_tot_l = BigInt::from(b1.l_bits) - BigInt::from(b0.l_bits);
        let d_pos_a = &sa1 - &sa0;
        let d_pos_l = &sl1 - &sl0;
        let da = &d_tot_a - &d_pos_a;
        let dl = &d_tot_l - &d_pos_l;
        if !(da.is_zero() && dl.is_zero()) {
            if !closing_op {
                out.push(finding(
                    "ledger:delta",
                    format!(
                        "op#{} {} bank {}: bank totals changed by (asset {} , liab {}) share-bits but positions changed by ({}, {})",
                        step.index,
                        step.op.name(),
                        k,
                        d_tot_a,
                        d_tot_l,
                        d_pos_a,
                        d_pos_l
                    ),
                ));
            } else {
                // a closure abandons the closed slot's residue: totals unchanged, positions fall
                if da.is_negative() || dl.is_negative() {
                    out.push(finding("ledger:delta", format!("op#{} {} bank {}: positions grew without the bank total (asset {}, liab {})", step.index, step.op.name(), k, da, dl)));
                }
                let va = Q::new(da.clone(), two48()) * &b1.asv;
                let vl = Q::new(dl.clone(), two48()) * &b1.lsv;
                st.closures += 1;
                st.max_abandoned_value = st.max_abandoned_value.max(q_f64(&va)).max(q_f64(&vl));
                let (lim_a, lim_l, what) = match step.op {
                    Op::CloseBalance { .. } | Op::Withdraw { .. } | Op::Repay { .. } | Op::Flash { .. } => (threshold_0001(), threshold_0001(), "0.0001 units"),
                    // account close: each slot's residue must be an empty position (< 1 share)
                    _ => (q_int(16) * q_max(q_one(), b1.asv.clone()), q_int(16) * q_max(q_one(), b1.lsv.clone()), "1 share per slot"),
                };
                if va >= lim_a || vl >= lim_l {
                    out.push(finding(
                        "ledger:abandoned-too-much",
                        format!("op#{} {} bank {}: closure abandoned asset value {} / liability value {} (limit {})", step.index, step.op.name(), k, q_str(&va), q_str(&vl), what),
                    ));
                }
                let e = st.abandoned.entry(*k).or_insert((BigInt::from(0), BigInt::from(0)));
                e.0 += da;
                e.1 += dl;
            }
        }
        // global: totals - sum(positions) == abandoned
        let (ab_a, ab_l) = st.abandoned.get(k).cloned().unwrap_or((BigInt::from(0), BigInt::from(0)));
        let ga = BigInt::from(b1.a_bits) - &sa1;
        let gl = BigInt::from(b1.l_bits) - &sl1;
        if ga != ab_a || gl != ab_l {
            // avoid double-reporting the same step
            if out.is_empty() {
                out.push(finding(
                    "ledger:global",
                    format!("op#{} {} bank {}: total - sum(positions) = (asset {}, liab {}) share-bits but abandoned dust is ({}, {})", step.index, step.op.name(), k, ga, gl, ab_a, ab_l),
                ));
            }
        }
    }
    // a bank that disappeared (close_bank) must not be held above dust by anyone
    for (k, b0) in &pre.banks {
        if !post.banks.contains_key(k) {
            for (ak, a) in &post.accts {
                for p in &a.positions {
                    if p.bank == *k {
                        let va = q_bits(p.a_bits) * &b0.asv;
                        let vl = q_bits(p.l_bits) * &b0.lsv;
                        if va >= threshold_0001() || vl >= threshold_0001() {
                            out.push(finding("ledger:closed-bank-held", format!("op#{} bank {} closed while account {} holds asset {} / liab {}", step.index, k, ak, q_str(&va), q_str(&vl))));
                        }
                    }
                }
            }
        }
    }
    out
}

// ------------------------------------------------------------------------------------------
// C16 account structure
// ------------------------------------------------------------------------------------------
#[derive(Default, Clone)]
pub struct C16State {
    /// (account, slot bank) -> tag when opened
    pub tags: BTreeMap<(Pubkey, Pubkey), u8>,
    pub max_positions: usize,
    pub reopened: u64,
    pub closed: BTreeMap<(Pubkey, Pubkey), bool>,
    pub transferred: BTreeMap<Pubkey, Pubkey>,
}

pub fn is_integration_tag(t: u8) -> bool {
    matches!(t, 3 | 4 | 5)
}

pub fn c16_step(st: &mut C16State, pre: &StoreSnap, post: &StoreSnap, step: &Step, w: &World) -> Vec<Finding> {
    let mut out = vec![];
    if step.ok {
        for (ak, a) in &post.accts {
            let n = a.positions.len();
            st.max_positions = st.max_positions.max(n);
            if n > 16 {
                out.push(finding("structure:count", format!("account {ak} has {n} positions")));
            }
            // distinct banks
            for i in 0..n {
                for j in (i + 1)..n {
                    if a.positions[i].bank == a.positions[j].bank {
                        out.push(finding("structure:duplicate-bank", format!("op#{} {}: account {ak} holds two positions in bank {}", step.index, step.op.name(), a.positions[i].bank)));
                    }
                }
            }
            // one side per bank
            for p in &a.positions {
                if let Some(b) = post.banks.get(&p.bank) {
                    let va = q_bits(p.a_bits) * &b.asv;
                    let vl = q_bits(p.l_bits) * &b.lsv;
                    if va >= threshold_0001() && vl >= threshold_0001() {
                        out.push(finding("structure:both-sides", format!("op#{} {}: account {ak} bank {} has deposit {} and debt {}", step.index, step.op.name(), p.bank, q_str(&va), q_str(&vl))));
                    }
                }
                if p.a_bits < 0 || p.l_bits < 0 {
                    out.push(finding("structure:negative-shares", format!("op#{} {}: account {ak} bank {} has negative shares", step.index, step.op.name(), p.bank)));
                }
            }
            // ordering: active slots sorted by bank key descending, inactive last
            let raw = &a.raw.lending_account.balances;
            let mut seen_inactive = false;
            let mut last: Option<Pubkey> = None;
            for b in raw.iter() {
                if b.active == 0 {
                    seen_inactive = true;
                    continue;
                }
                if seen_inactive {
                    out.push(finding("structure:order", format!("op#{} {}: account {ak} has an active slot after an inactive one", step.index, step.op.name())));
                    break;
                }
                if let Some(l) = last {
                    if b.bank_pk >= l {
                        out.push(finding("structure:order", format!("op#{} {}: account {ak} active slots are not in descending bank-key order", step.index, step.op.name())));
                        break;
                    }
                }
                last = Some(b.bank_pk);
            }
            // tags
            let has_staked = a.positions.iter().any(|p| p.tag == 2);
            let has_default_like = a.positions.iter().any(|p| matches!(p.tag, 0 | 3 | 4 | 5));
            if has_staked && has_default_like {
                out.push(finding("structure:tag-mix", format!("op#{} {}: account {ak} mixes staked and default-class positions", step.index, step.op.name())));
            }
            let n_int = a.positions.iter().filter(|p| is_integration_tag(p.tag)).count();
            if n_int > 8 {
                out.push(finding("structure:integration-count", format!("account {ak} holds {n_int} integration positions")));
            }
            for p in &a.positions {
                let key = (*ak, p.bank);
                let was_open = pre.accts.get(ak).map(|pa| pa.positions.iter().any(|q| q.bank == p.bank)).unwrap_or(false);
                if !was_open {
                    if st.closed.remove(&key).is_some() {
                        st.reopened += 1;
                    }
                    // tag must equal the bank's tag at opening time
                    if let Some(b) = post.banks.get(&p.bank) {
                        if p.tag != b.raw.config.asset_tag {
                            out.push(finding("structure:tag-at-open", format!("op#{} {}: account {ak} opened bank {} with tag {} but bank tag is {}", step.index, step.op.name(), p.bank, p.tag, b.raw.config.asset_tag)));
                        }
                    }
                    st.tags.insert(key, p.tag);
                } else if let Some(t) = st.tags.get(&key) {
                    if *t != p.tag {
                        out.push(finding("structure:tag-changed", format!("op#{} {}: account {ak} bank {} tag changed {} -> {}", step.index, step.op.name(), p.bank, t, p.tag)));
                    }
                }
            }
            if let Some(pa) = pre.accts.get(ak) {
                for q in &pa.positions {
                    if !a.positions.iter().any(|p| p.bank == q.bank) {
                        st.closed.insert((*ak, q.bank), true);
                        st.tags.remove(&(*ak, q.bank));
                    }
                }
            }
        }
        // account close: only when empty and unflagged
        if let Op::CloseAccount { .. } = step.op {
            if let Some(k) = step.macct {
                if let Some(pa) = pre.accts.get(&k) {
                    if !post.accts.contains_key(&k) {
                        let bad_flags = pa.flags & (ACCOUNT_DISABLED | ACCOUNT_FROZEN | ACCOUNT_IN_FLASHLOAN | ACCOUNT_IN_RECEIVERSHIP);
                        if bad_flags != 0 {
                            out.push(finding("structure:close-flagged", format!("op#{}: account {k} closed with flags {:#x}", step.index, pa.flags)));
                        }
                        for p in &pa.positions {
                            if p.a_bits >= (1i128 << 48) || p.l_bits >= (1i128 << 48) {
                                out.push(finding("structure:close-nonempty", format!("op#{}: account {k} closed while holding >= 1 share in bank {}", step.index, p.bank)));
                            }
                        }
                    }
                }
            }
        }
        // transfer: new = old's positions, old zeroed and disabled
        if let Op::Transfer { .. } = step.op {
            if let (Some(old), Some(new)) = (step.macct, step.other_macct) {
                if let (Some(po), Some(no), Some(oo)) = (pre.accts.get(&old), post.accts.get(&new), post.accts.get(&old)) {
                    if po.raw.lending_account.balances != no.raw.lending_account.balances {
                        out.push(finding("structure:transfer-positions", format!("op#{}: transfer did not move positions byte-for-byte", step.index)));
                    }
                    if !oo.positions.is_empty() {
                        out.push(finding("structure:transfer-old-not-empty", format!("op#{}: old account keeps {} positions after transfer", step.index, oo.positions.len())));
                    }
                    if oo.flags & ACCOUNT_DISABLED == 0 {
                        out.push(finding("structure:transfer-old-not-disabled", format!("op#{}: old account not disabled after transfer", step.index)));
                    }
                    if po.raw.migrated_to != Pubkey::default() || st.transferred.contains_key(&old) {
                        out.push(finding("structure:transfer-twice", format!("op#{}: an already migrated account was transferred again", step.index)));
                    }
                    st.transferred.insert(old, new);
                }
            }
        }
        // disabled accounts can no longer deposit/withdraw/borrow/repay/flash
        if matches!(step.op, Op::Deposit { .. } | Op::Withdraw { .. } | Op::Borrow { .. } | Op::Repay { .. } | Op::Flash { .. }) {
            if let Some(k) = step.macct {
                if let Some(pa) = pre.accts.get(&k) {
                    // zero-amount deposits return early without doing anything
                    let noop = pre.accts.get(&k).map(|x| x.raw.lending_account.balances) == post.accts.get(&k).map(|x| x.raw.lending_account.balances);
                    if pa.flags & ACCOUNT_DISABLED != 0 && !noop {
                        out.push(finding("structure:disabled-acted", format!("op#{} {}: succeeded on disabled account {k}", step.index, step.op.name())));
                    }
                }
            }
        }
    }
    let _ = w;
    out
}

// ------------------------------------------------------------------------------------------
// C17 caps and utilisation
// ------------------------------------------------------------------------------------------
#[derive(Default, Clone)]
pub struct C17State {
    pub at_cap_hits: u64,
}
pub const ERR_ASSET_CAPACITY: u64 = 6003;

pub fn c17_step(_st: &mut C17State, pre: &StoreSnap, post: &StoreSnap, step: &Step, w: &World) -> Vec<Finding> {
    let mut out = vec![];
    let Some(bi) = step.bank else { return out };
    let key = w.banks[bi].key;
    match &step.op {
        Op::Deposit { up, .. } => {
            if step.ok {
                if let (Some(b0), Some(b1)) = (pre.banks.get(&key), post.banks.get(&key)) {
                    let grew = b1.a_bits > b0.a_bits;
                    if grew && b1.deposit_limit != u64::MAX && b1.assets() >= q_int(b1.deposit_limit) {
                        out.push(finding("caps:deposit-limit", format!("op#{}: deposit succeeded with total deposits {} >= limit {}", step.index, q_str(&b1.assets()), b1.deposit_limit)));
                    }
                }
            } else if *up == 2 {
                if let Some((_, code)) = step.err {
                    if code == ERR_ASSET_CAPACITY {
                        out.push(finding("caps:up-to-limit-failed", format!("op#{}: deposit_up_to_limit({}) failed with the capacity error", step.index, step.amount)));
                    }
                }
            }
        }
        Op::Borrow { .. } => {
            if step.ok {
                if let (Some(b0), Some(b1)) = (pre.banks.get(&key), post.banks.get(&key)) {
                    let grew = b1.l_bits > b0.l_bits;
                    if grew && b1.borrow_limit != u64::MAX && b1.liabs() >= q_int(b1.borrow_limit) {
                        out.push(finding("caps:borrow-limit", format!("op#{}: borrow succeeded with total debt {} >= limit {}", step.index, q_str(&b1.liabs()), b1.borrow_limit)));
                    }
                    if b1.assets() < b1.liabs() {
                        out.push(finding("caps:utilization", format!("op#{}: after borrow deposits {} < debt {}", step.index, q_str(&b1.assets()), q_str(&b1.liabs()))));
                    }
                }
            }
        }
        Op::Withdraw { .. } => {
            if step.ok {
                if let Some(b1) = post.banks.get(&key) {
                    if b1.assets() < b1.liabs() {
                        out.push(finding("caps:utilization", format!("op#{}: after withdraw deposits {} < debt {}", step.index, q_str(&b1.assets()), q_str(&b1.liabs()))));
                    }
                }
            }
        }
        _ => {}
    }
    out
}
