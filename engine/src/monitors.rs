//! Per-property invariants evaluated after every executed step of the campaign.
use crate::campaign::{Op, Step};
use crate::num::*;
use crate::snap::*;
use crate::world::World;
use marginfi_type_crate::types::{ACCOUNT_DISABLED, ACCOUNT_FROZEN, ACCOUNT_IN_FLASHLOAN, ACCOUNT_IN_RECEIVERSHIP};
use num_bigint::BigInt;
use num_traits::{Signed, Zero};
use solana_program::pubkey::Pubkey;
use std::collections::BTreeMap;

#[derive(Clone, Debug)]
pub struct Finding {
    pub sig: String,
    pub msg: String,
}
fn finding(sig: &str, msg: String) -> Finding {
    Finding { sig: sig.to_string(), msg }
}

/// 0.0001 native units, plus one ulp: the program compares a truncated I80F48 product with the truncated
/// constant, so an exact value in [0.0001, 0.0001 + 2^-48) can still pass its test
pub fn threshold_0001() -> Q {
    q_ratio(1, 10_000) + q_bits(1)
}

/// number of truncating fixed-point operations per op kind (for the dust budget)
fn op_cost(op: &Op) -> u32 {
    match op {
        Op::Deposit { .. } | Op::Withdraw { .. } | Op::Borrow { .. } | Op::Repay { .. } => 6,
        Op::Liquidate { .. } => 24,
        Op::Receivership { .. } => 12,
        Op::Flash { .. } => 12,
        Op::Sunset { .. } => 12,
        Op::Bankrupt { .. } => 12,
        _ => 4,
    }
}

// ------------------------------------------------------------------------------------------
// C01 solvency
// ------------------------------------------------------------------------------------------
#[derive(Default, Clone)]
pub struct C01State {
    /// per bank: accumulated allowance (dust budget + sanctioned wipe-out remainder)
    pub allowance: BTreeMap<Pubkey, Q>,
    pub written_off: BTreeMap<Pubkey, bool>,
    pub max_budget_per_op: f64,
    pub max_deficit_ratio: f64,
}

/// accrual performs ~10 truncating operations whose error is scaled by the totals
fn accrual_eps(b: &BankSnap) -> Q {
    let mag = q_one() + &b.a_shares + &b.l_shares;
    let sv = q_max(q_one(), q_max(b.asv.clone(), b.lsv.clone()));
    q_int(16) * ulp() * mag * sv
}

pub fn c01_step(st: &mut C01State, pre: &StoreSnap, post: &StoreSnap, step: &Step) -> Vec<Finding> {
    let mut out = vec![];
    if !step.ok {
        return out;
    }
    for (k, b1) in &post.banks {
        let Some(b0) = pre.banks.get(k) else { continue };
        // (a bank flagged for token-less repayments stays monitored: only the risk admin's explicit write-off is sanctioned, below)
        let d_vault = q_int(b1.vault) - q_int(b0.vault);
        let d_net = b1.net_claims() - b0.net_claims();
        if d_vault.is_zero() && d_net.is_zero() {
            continue;
        }
        // budget for this op on this bank
        let mut eps = q_zero();
        {
            let mag = q_one() + q_max(b0.a_shares.clone(), b1.a_shares.clone()) + q_max(b0.l_shares.clone(), b1.l_shares.clone()) + q_int(step.amount);
            let sv = q_max(q_one(), q_max(q_max(b0.asv.clone(), b1.asv.clone()), q_max(b0.lsv.clone(), b1.lsv.clone())));
            eps = q_int(op_cost(&step.op)) * ulp() * mag * sv;
            if b1.asv != b0.asv || b1.lsv != b0.lsv {
                eps += accrual_eps(b0);
            }
        }
        // sanctioned: wipe-out of a bank whose bad debt exceeds deposits
        let mut sanctioned = q_zero();
        // sanctioned: the risk admin's explicit token-less write-off (deleverage bracket) on a bank flagged for it:
        // the debt it clears without tokens is added to the bank's allowance exactly
        if let Op::Sunset { step: 3, .. } = step.op {
            let flagged = (b0.flags | b1.flags) & marginfi_type_crate::constants::TOKENLESS_REPAYMENTS_ALLOWED != 0;
            let deficit = &d_net - &d_vault;
            if flagged && deficit.is_positive() {
                sanctioned = deficit;
                st.written_off.insert(*k, true);
            }
        }
        if let Op::Bankrupt { .. } = step.op {
            if b1.asv.is_zero() && !b0.asv.is_zero() {
                // uncovered remainder = -(d_vault - d_net) if positive
                let deficit = &d_net - &d_vault;
                if deficit.is_positive() {
                    sanctioned = deficit;
                }
            }
        }
        st.max_budget_per_op = st.max_budget_per_op.max(q_f64(&eps));
        let slack = &d_vault - &d_net + &eps + &sanctioned;
        if slack.is_negative() {
            out.push(finding(
                "solvency:delta",
                format!(
                    "op#{} {} bank {}: vault changed by {} but net claims (A*asv - L*lsv + fees) changed by {}; deficit {} exceeds the rounding allowance {}",
                    step.index,
                    step.op.name(),
                    k,
                    q_str(&d_vault),
                    q_str(&d_net),
                    q_str(&(&d_net - &d_vault)),
                    q_str(&eps)
                ),
            ));
        } else if eps.is_positive() {
            let deficit = &d_net - &d_vault;
            if deficit.is_positive() {
                st.max_deficit_ratio = st.max_deficit_ratio.max(q_f64(&(deficit / &eps)));
            }
        }
        let al = st.allowance.entry(*k).or_insert_with(q_zero);
        *al += eps + sanctioned;
        // cumulative form
        let gap = q_int(b1.vault) - b1.net_claims() + &*al;
        if gap.is_negative() {
            out.push(finding(
                "solvency:cumulative",
                format!("op#{} {} bank {}: vault {} < net claims {} beyond cumulative allowance {}", step.index, step.op.name(), k, b1.vault, q_str(&b1.net_claims()), q_str(al)),
            ));
        }
    }
    out
}

// ------------------------------------------------------------------------------------------
// C02 ledger consistency
// ------------------------------------------------------------------------------------------
#[derive(Default, Clone)]
pub struct C02State {
    /// per bank: exact share bits abandoned by closures (asset side, liability side)
    pub abandoned: BTreeMap<Pubkey, (BigInt, BigInt)>,
    pub closures: u64,
    pub max_abandoned_value: f64,
    pub ever_held: std::collections::BTreeSet<Pubkey>,
    pub close_bank_accepted: u64,
    pub close_bank_accepted_after_activity: u64,
}

fn sums_of(s: &StoreSnap, k: &Pubkey) -> (BigInt, BigInt) {
    s.sums.get(k).cloned().unwrap_or((BigInt::from(0), BigInt::from(0)))
}

pub fn c02_step(st: &mut C02State, pre: &StoreSnap, post: &StoreSnap, step: &Step) -> Vec<Finding> {
    let mut out = vec![];
    // remember which banks were ever held by anybody (for the close_bank statistics)
    for a in post.accts.values() {
        for p in &a.positions {
            if p.a_bits > 0 || p.l_bits > 0 {
                st.ever_held.insert(p.bank);
            }
        }
    }
    if !step.ok {
        // a failed transaction must leave the ledger untouched
        return out;
    }
    if step.probe {
        // what-if close_bank accepted by the program on a clone of the store: the consequence clause says no
        // account may hold more than (sub-0.0001-unit) dust in that bank
        if let (Op::CloseBank { .. }, Some(k)) = (&step.op, step.ixs.first().and_then(|ix| ix.accounts.get(1)).map(|m| m.pubkey)) {
            st.close_bank_accepted += 1;
            if st.ever_held.contains(&k) {
                st.close_bank_accepted_after_activity += 1;
            }
            if let Some(b0) = pre.banks.get(&k) {
                for (ak, a) in &pre.accts {
                    for p in &a.positions {
                        if p.bank == k {
                            let va = q_bits(p.a_bits) * &b0.asv;
                            let vl = q_bits(p.l_bits) * &b0.lsv;
                            if va >= threshold_0001() || vl >= threshold_0001() {
                                out.push(finding(
                                    "ledger:closed-bank-held",
                                    format!("op#{} close_bank accepted for bank {} while account {} holds asset value {} / liability value {} (share values {} / {})", step.index, k, ak, q_str(&va), q_str(&vl), q_str(&b0.asv), q_str(&b0.lsv)),
                                ));
                            }
                        }
                    }
                }
            }
        }
        return out;
    }
    // every instruction that closes a position abandons that slot's sub-dust residue (the other
    // side of a withdraw_all / repay_all, or both sides of close_balance / account close)
    let closing_op = matches!(step.op, Op::CloseBalance { .. } | Op::CloseAccount { .. } | Op::Withdraw { all: true, .. } | Op::Repay { all: true, .. } | Op::Flash { repay: true, .. } | Op::Sunset { step: 2, .. } | Op::Sunset { step: 3, .. })
        || matches!(step.op, Op::Receivership { ramt, .. } if ramt % 3 == 0);
    for (k, b1) in &post.banks {
        let Some(b0) = pre.banks.get(k) else { continue };
        let (sa0, sl0) = sums_of(pre, k);
        let (sa1, sl1) = sums_of(post, k);
        let d_tot_a = BigInt::from(b1.a_bits) - BigInt::from(b0.a_bits);
        let d_tot_l = BigInt::from(b1.l_bits) - BigInt::from(b0.l_bits);
        let d_pos_a = &sa1 - &sa0;
        let d_pos_l = &sl1 - &sl0;
        let da = &d_tot_a - &d_pos_a;
        let dl = &d_tot_l - &d_pos_l;
        if !(da.is_zero() && dl.is_zero()) {
            if !closing_op {
                out.push(finding(
                    "ledger:delta",
                    format!(
                        "op#{} {} bank {}: bank totals changed by (asset {} , liab {}) share-bits but positions changed by ({}, {})",
                        step.index,
                        step.op.name(),
                        k,
                        d_tot_a,
                        d_tot_l,
                        d_pos_a,
                        d_pos_l
                    ),
                ));
            } else {
                // a closure abandons the closed slot's residue: totals unchanged, positions fall
                if da.is_negative() || dl.is_negative() {
                    out.push(finding("ledger:delta", format!("op#{} {} bank {}: positions grew without the bank total (asset {}, liab {})", step.index, step.op.name(), k, da, dl)));
                }
                let va = Q::new(da.clone(), two48()) * &b1.asv;
                let vl = Q::new(dl.clone(), two48()) * &b1.lsv;
                st.closures += 1;
                st.max_abandoned_value = st.max_abandoned_value.max(q_f64(&va)).max(q_f64(&vl));
                let (lim_a, lim_l, what) = match step.op {
                    Op::CloseBalance { .. } | Op::Withdraw { .. } | Op::Repay { .. } | Op::Flash { .. } | Op::Sunset { .. } | Op::Receivership { .. } => (threshold_0001(), threshold_0001(), "0.0001 units"),
                    // account close: each slot's residue must be an empty position (< 1 share)
                    _ => (q_int(16) * q_max(q_one(), b1.asv.clone()), q_int(16) * q_max(q_one(), b1.lsv.clone()), "1 share per slot"),
                };
                if va >= lim_a || vl >= lim_l {
                    out.push(finding(
                        "ledger:abandoned-too-much",
                        format!("op#{} {} bank {}: closure abandoned asset value {} / liability value {} (limit {})", step.index, step.op.name(), k, q_str(&va), q_str(&vl), what),
                    ));
                }
                let e = st.abandoned.entry(*k).or_insert((BigInt::from(0), BigInt::from(0)));
                e.0 += da;
                e.1 += dl;
            }
        }
        // global: totals - sum(positions) == abandoned
        let (ab_a, ab_l) = st.abandoned.get(k).cloned().unwrap_or((BigInt::from(0), BigInt::from(0)));
        let ga = BigInt::from(b1.a_bits) - &sa1;
        let gl = BigInt::from(b1.l_bits) - &sl1;
        if ga != ab_a || gl != ab_l {
            // avoid double-reporting the same step
            if out.is_empty() {
                out.push(finding(
                    "ledger:global",
                    format!("op#{} {} bank {}: total - sum(positions) = (asset {}, liab {}) share-bits but abandoned dust is ({}, {})", step.index, step.op.name(), k, ga, gl, ab_a, ab_l),
                ));
            }
        }
    }
    // a bank that disappeared (close_bank) must not be held above dust by anyone
    for (k, b0) in &pre.banks {
        if !post.banks.contains_key(k) {
            for (ak, a) in &post.accts {
                for p in &a.positions {
                    if p.bank == *k {
                        let va = q_bits(p.a_bits) * &b0.asv;
                        let vl = q_bits(p.l_bits) * &b0.lsv;
                        if va >= threshold_0001() || vl >= threshold_0001() {
                            out.push(finding("ledger:closed-bank-held", format!("op#{} bank {} closed while account {} holds asset {} / liab {}", step.index, k, ak, q_str(&va), q_str(&vl))));
                        }
                    }
                }
            }
        }
    }
    out
}

// ------------------------------------------------------------------------------------------
// C16 account structure
// ------------------------------------------------------------------------------------------
#[derive(Default, Clone)]
pub struct C16State {
    /// (account, slot bank) -> tag when opened
    pub tags: BTreeMap<(Pubkey, Pubkey), u8>,
    pub max_positions: usize,
    pub reopened: u64,
    pub closed: BTreeMap<(Pubkey, Pubkey), bool>,
    pub transferred: BTreeMap<Pubkey, Pubkey>,
    /// positions opened, by asset tag
    pub opened_by_tag: BTreeMap<u8, u64>,
    pub max_integration_positions: usize,
}

pub fn is_integration_tag(t: u8) -> bool {
    matches!(t, 3 | 4 | 5)
}

pub fn c16_step(st: &mut C16State, pre: &StoreSnap, post: &StoreSnap, step: &Step, w: &World) -> Vec<Finding> {
    let mut out = vec![];
    if step.ok {
        for (ak, a) in &post.accts {
            let n = a.positions.len();
            st.max_positions = st.max_positions.max(n);
            if n > 16 {
                out.push(finding("structure:count", format!("account {ak} has {n} positions")));
            }
            // distinct banks
            for i in 0..n {
                for j in (i + 1)..n {
                    if a.positions[i].bank == a.positions[j].bank {
                        out.push(finding("structure:duplicate-bank", format!("op#{} {}: account {ak} holds two positions in bank {}", step.index, step.op.name(), a.positions[i].bank)));
                    }
                }
            }
            // one side per bank
            for p in &a.positions {
                if let Some(b) = post.banks.get(&p.bank) {
                    let va = q_bits(p.a_bits) * &b.asv;
                    let vl = q_bits(p.l_bits) * &b.lsv;
                    if va >= threshold_0001() && vl >= threshold_0001() {
                        out.push(finding("structure:both-sides", format!("op#{} {}: account {ak} bank {} has deposit {} and debt {}", step.index, step.op.name(), p.bank, q_str(&va), q_str(&vl))));
                    }
                }
                if p.a_bits < 0 || p.l_bits < 0 {
                    out.push(finding("structure:negative-shares", format!("op#{} {}: account {ak} bank {} has negative shares", step.index, step.op.name(), p.bank)));
                }
            }
            // ordering: active slots sorted by bank key descending, inactive last
            let raw = &a.raw.lending_account.balances;
            let mut seen_inactive = false;
            let mut last: Option<Pubkey> = None;
            for b in raw.iter() {
                if b.active == 0 {
                    seen_inactive = true;
                    continue;
                }
                if seen_inactive {
                    out.push(finding("structure:order", format!("op#{} {}: account {ak} has an active slot after an inactive one", step.index, step.op.name())));
                    break;
                }
                if let Some(l) = last {
                    if b.bank_pk >= l {
                        out.push(finding("structure:order", format!("op#{} {}: account {ak} active slots are not in descending bank-key order", step.index, step.op.name())));
                        break;
                    }
                }
                last = Some(b.bank_pk);
            }
            // tags
            let has_staked = a.positions.iter().any(|p| p.tag == 2);
            let has_default_like = a.positions.iter().any(|p| matches!(p.tag, 0 | 3 | 4 | 5));
            if has_staked && has_default_like {
                out.push(finding("structure:tag-mix", format!("op#{} {}: account {ak} mixes staked and default-class positions", step.index, step.op.name())));
            }
            let n_int = a.positions.iter().filter(|p| is_integration_tag(p.tag)).count();
            st.max_integration_positions = st.max_integration_positions.max(n_int);
            if n_int > 8 {
                out.push(finding("structure:integration-count", format!("account {ak} holds {n_int} integration positions")));
            }
            for p in &a.positions {
                let key = (*ak, p.bank);
                let was_open = pre.accts.get(ak).map(|pa| pa.positions.iter().any(|q| q.bank == p.bank)).unwrap_or(false);
                let moved_by_transfer = matches!(step.op, Op::Transfer { .. }) && step.other_macct == Some(*ak);
                if !was_open && moved_by_transfer {
                    // a transfer moves positions as they are, with the tags they were opened with
                    st.tags.insert(key, p.tag);
                } else if !was_open {
                    if st.closed.remove(&key).is_some() {
                        st.reopened += 1;
                    }
                    // tag must equal the bank's tag at opening time
                    if let Some(b) = post.banks.get(&p.bank) {
                        if p.tag != b.raw.config.asset_tag {
                            out.push(finding("structure:tag-at-open", format!("op#{} {}: account {ak} opened bank {} with tag {} but bank tag is {}", step.index, step.op.name(), p.bank, p.tag, b.raw.config.asset_tag)));
                        }
                    }
                    st.tags.insert(key, p.tag);
                    *st.opened_by_tag.entry(p.tag).or_insert(0) += 1;
                } else if let Some(t) = st.tags.get(&key) {
                    if *t != p.tag {
                        out.push(finding("structure:tag-changed", format!("op#{} {}: account {ak} bank {} tag changed {} -> {}", step.index, step.op.name(), p.bank, t, p.tag)));
                    }
                }
            }
            if let Some(pa) = pre.accts.get(ak) {
                for q in &pa.positions {
                    if !a.positions.iter().any(|p| p.bank == q.bank) {
                        st.closed.insert((*ak, q.bank), true);
                        st.tags.remove(&(*ak, q.bank));
                    }
                }
            }
        }
        // account close: only when empty and unflagged
        if let Op::CloseAccount { .. } = step.op {
            if let Some(k) = step.macct {
                if let Some(pa) = pre.accts.get(&k) {
                    if !post.accts.contains_key(&k) {
                        let bad_flags = pa.flags & (ACCOUNT_DISABLED | ACCOUNT_FROZEN | ACCOUNT_IN_FLASHLOAN | ACCOUNT_IN_RECEIVERSHIP);
                        if bad_flags != 0 {
                            out.push(finding("structure:close-flagged", format!("op#{}: account {k} closed with flags {:#x}", step.index, pa.flags)));
                        }
                        for p in &pa.positions {
                            if p.a_bits >= (1i128 << 48) || p.l_bits >= (1i128 << 48) {
                                out.push(finding("structure:close-nonempty", format!("op#{}: account {k} closed while holding >= 1 share in bank {}", step.index, p.bank)));
                            }
                        }
                    }
                }
            }
        }
        // transfer: new = old's positions, old zeroed and disabled
        if let Op::Transfer { .. } = step.op {
            if let (Some(old), Some(new)) = (step.macct, step.other_macct) {
                if let (Some(po), Some(no), Some(oo)) = (pre.accts.get(&old), post.accts.get(&new), post.accts.get(&old)) {
                    if po.raw.lending_account.balances != no.raw.lending_account.balances {
                        out.push(finding("structure:transfer-positions", format!("op#{}: transfer did not move positions byte-for-byte", step.index)));
                    }
                    if !oo.positions.is_empty() {
                        out.push(finding("structure:transfer-old-not-empty", format!("op#{}: old account keeps {} positions after transfer", step.index, oo.positions.len())));
                    }
                    if oo.flags & ACCOUNT_DISABLED == 0 {
                        out.push(finding("structure:transfer-old-not-disabled", format!("op#{}: old account not disabled after transfer", step.index)));
                    }
                    if po.raw.migrated_to != Pubkey::default() || st.transferred.contains_key(&old) {
                        out.push(finding("structure:transfer-twice", format!("op#{}: an already migrated account was transferred again", step.index)));
                    }
                    st.transferred.insert(old, new);
                }
            }
        }
        // disabled accounts can no longer deposit/withdraw/borrow/repay/flash
        if matches!(step.op, Op::Deposit { .. } | Op::Withdraw { .. } | Op::Borrow { .. } | Op::Repay { .. } | Op::Flash { .. }) {
            if let Some(k) = step.macct {
                if let Some(pa) = pre.accts.get(&k) {
                    // zero-amount deposits return early without doing anything
                    let noop = pre.accts.get(&k).map(|x| x.raw.lending_account.balances) == post.accts.get(&k).map(|x| x.raw.lending_account.balances);
                    // (a flash-loan bracket that commits on a disabled account is a violation even when it is empty:
                    // the start itself must be refused)
                    if pa.flags & ACCOUNT_DISABLED != 0 && (!noop || matches!(step.op, Op::Flash { .. })) {
                        out.push(finding("structure:disabled-acted", format!("op#{} {}: succeeded on disabled account {k}", step.index, step.op.name())));
                    }
                }
            }
        }
    }
    let _ = w;
    out
}

// ------------------------------------------------------------------------------------------
// C17 caps and utilisation
// ------------------------------------------------------------------------------------------
#[derive(Default, Clone)]
pub struct C17State {
    pub at_cap_hits: u64,
}
/// numeric code of the capacity error, taken from the program's own enum (robust against renumbering)
pub fn err_asset_capacity() -> u64 {
    u32::from(marginfi::errors::MarginfiError::BankAssetCapacityExceeded) as u64
}

pub fn c17_step(_st: &mut C17State, pre: &StoreSnap, post: &StoreSnap, step: &Step, w: &World) -> Vec<Finding> {
    let mut out = vec![];
    let Some(bi) = step.bank else { return out };
    let key = w.banks[bi].key;
    match &step.op {
        Op::Deposit { up, .. } => {
            if step.ok {
                if let (Some(b0), Some(b1)) = (pre.banks.get(&key), post.banks.get(&key)) {
                    let grew = b1.a_bits > b0.a_bits;
                    if grew && b1.deposit_limit != u64::MAX && b1.assets() >= q_int(b1.deposit_limit) {
                        out.push(finding("caps:deposit-limit", format!("op#{}: deposit succeeded with total deposits {} >= limit {}", step.index, q_str(&b1.assets()), b1.deposit_limit)));
                    }
                }
            } else if *up == 2 {
                if let Some((_, code)) = step.err {
                    if code == err_asset_capacity() {
                        out.push(finding("caps:up-to-limit-failed", format!("op#{}: deposit_up_to_limit({}) failed with the capacity error", step.index, step.amount)));
                    }
                }
            }
        }
        Op::Borrow { .. } => {
            if step.ok {
                if let (Some(b0), Some(b1)) = (pre.banks.get(&key), post.banks.get(&key)) {
                    let grew = b1.l_bits > b0.l_bits;
                    if grew && b1.borrow_limit != u64::MAX && b1.liabs() >= q_int(b1.borrow_limit) {
                        out.push(finding("caps:borrow-limit", format!("op#{}: borrow succeeded with total debt {} >= limit {}", step.index, q_str(&b1.liabs()), b1.borrow_limit)));
                    }
                    // the program compares the two I80F48 products (each truncated towards zero by < 1 ulp = 2^-48 native
                    // units): exact deposits >= exact debt - 1 ulp is what a correct comparison guarantees
                    if b1.assets() + ulp() <= b1.liabs() {
                        out.push(finding("caps:utilization", format!("op#{}: after borrow deposits {} < debt {}", step.index, q_str(&b1.assets()), q_str(&b1.liabs()))));
                    }
                }
            }
        }
        Op::Withdraw { .. } => {
            if step.ok {
                if let Some(b1) = post.banks.get(&key) {
                    if b1.assets() + ulp() <= b1.liabs() {
                        out.push(finding("caps:utilization", format!("op#{}: after withdraw deposits {} < debt {}", step.index, q_str(&b1.assets()), q_str(&b1.liabs()))));
                    }
                }
            }
        }
        // the liquidator's withdrawal inside a receivership bracket is a successful withdrawal too
        Op::Receivership { .. } => {
            if step.ok {
                if let (Some(b0), Some(b1)) = (pre.banks.get(&key), post.banks.get(&key)) {
                    if b1.a_bits < b0.a_bits && b1.assets() + ulp() <= b1.liabs() {
                        out.push(finding("caps:utilization", format!("op#{}: after a receivership withdrawal deposits {} < debt {}", step.index, q_str(&b1.assets()), q_str(&b1.liabs()))));
                    }
                }
            }
        }
        // a borrow inside a flash-loan bracket that is not repaid in it is a successful borrow
        Op::Flash { repay: false, .. } => {
            if step.ok {
                if let (Some(b0), Some(b1)) = (pre.banks.get(&key), post.banks.get(&key)) {
                    let grew = b1.l_bits > b0.l_bits;
                    if grew && b1.borrow_limit != u64::MAX && b1.liabs() >= q_int(b1.borrow_limit) {
                        out.push(finding("caps:borrow-limit", format!("op#{}: flash-loan borrow committed with total debt {} >= limit {}", step.index, q_str(&b1.liabs()), b1.borrow_limit)));
                    }
                    if grew && b1.assets() + ulp() <= b1.liabs() {
                        out.push(finding("caps:utilization", format!("op#{}: after a flash-loan borrow deposits {} < debt {}", step.index, q_str(&b1.assets()), q_str(&b1.liabs()))));
                    }
                }
            }
        }
        _ => {}
    }
    out
}

// ------------------------------------------------------------------------------------------
// C03 no free value (per operation)
// ------------------------------------------------------------------------------------------
#[derive(Default, Clone)]
pub struct C03State {
    pub checked: u64,
    pub nontrivial: u64,
    pub max_gain_ulps: f64,
}

fn pos_of<'a>(s: &'a StoreSnap, acct: &Pubkey, bank: &Pubkey) -> (i128, i128) {
    s.accts.get(acct).and_then(|a| a.positions.iter().find(|p| p.bank == *bank)).map(|p| (p.a_bits, p.l_bits)).unwrap_or((0, 0))
}

/// Returns (findings, nontrivial?)
pub fn c03_step(st: &mut C03State, pre: &StoreSnap, post: &StoreSnap, step: &Step, w: &World) -> (Vec<Finding>, bool) {
    let mut out = vec![];
    if !step.ok {
        return (out, false);
    }
    // close_balance moves no tokens: whatever net value it credits the user (debt wiped minus deposit given up) was paid
    // for with nothing, so it must stay within the dust the statement of C02 sanctions for a closure (0.0001 units)
    if let (Op::CloseBalance { .. }, Some(bi), Some(acct)) = (&step.op, step.bank, step.macct) {
        let key = w.banks[bi].key;
        if let Some(b1) = post.banks.get(&key) {
            let (a0, l0) = pos_of(pre, &acct, &key);
            let (a1, l1) = pos_of(post, &acct, &key);
            let credited = (q_bits(l0) - q_bits(l1)) * &b1.lsv - (q_bits(a0) - q_bits(a1)) * &b1.asv;
            st.checked += 1;
            if credited > threshold_0001() {
                out.push(finding(
                    "value:close-balance-wipes-debt",
                    format!("op#{}: close_balance wiped a debt worth {} (net of the deposit given up) although no tokens were paid (lsv {})", step.index, q_str(&credited), q_str(&b1.lsv)),
                ));
            }
        }
        return (out, false);
    }
    let (Some(bi), Some(acct), Some((_tk, tok_pre, tok_post))) = (step.bank, step.macct, step.user_token) else { return (out, false) };
    if !matches!(step.op, Op::Deposit { .. } | Op::Withdraw { .. } | Op::Borrow { .. } | Op::Repay { .. }) {
        return (out, false);
    }
    let key = w.banks[bi].key;
    let (Some(b0), Some(b1)) = (pre.banks.get(&key), post.banks.get(&key)) else { return (out, false) };
    // the instruction accrues first: values are measured at the share values it transacted at
    let (a0, l0) = pos_of(pre, &acct, &key);
    let (a1, l1) = pos_of(post, &acct, &key);
    let v0 = q_bits(a0) * &b1.asv - q_bits(l0) * &b1.lsv;
    let v1 = q_bits(a1) * &b1.asv - q_bits(l1) * &b1.lsv;
    let removed = &v0 - &v1; // > 0 when value left the position
    let received = q_int(tok_post) - q_int(tok_pre); // > 0 when the user got tokens
    let vault_in = q_int(b1.vault) - q_int(b0.vault);
    let u = q_int(8) * ulp() * (q_one() + &b1.asv + &b1.lsv);
    st.checked += 1;
    let nontrivial = !(b1.asv == q_one() && b1.lsv == q_one()) && step.amount > 0;
    if nontrivial {
        st.nontrivial += 1;
    }
    match &step.op {
        Op::Withdraw { all, .. } | Op::Repay { all, .. } if *all => {
            if matches!(step.op, Op::Withdraw { .. }) {
                // full withdrawal rounds down: paid <= floor(exact value of the closed position)
                let val = q_bits(a0) * &b1.asv;
                if received > Q::from_integer(q_floor(&val)) {
                    out.push(finding("value:withdraw-all-rounding", format!("op#{}: withdraw_all paid {} for a position worth {}", step.index, q_str(&received), q_str(&val))));
                }
            } else {
                // full repayment rounds up: tokens that reached the vault >= exact debt (minus ulps)
                let debt = q_bits(l0) * &b1.lsv;
                if &vault_in + &u < debt {
                    out.push(finding("value:repay-all-rounding", format!("op#{}: repay_all brought {} into the vault for a debt of {}", step.index, q_str(&vault_in), q_str(&debt))));
                }
            }
        }
        _ => {}
    }
    if received.is_positive() {
        // pays a user at most the exact value removed from the position
        let gain = &received - &removed;
        if gain > u {
            out.push(finding(
                "value:paid-more-than-removed",
                format!("op#{} {}: user received {} tokens but position value fell by {} (asv {}, lsv {})", step.index, step.op.name(), q_str(&received), q_str(&removed), q_str(&b1.asv), q_str(&b1.lsv)),
            ));
        }
        if gain.is_positive() {
            st.max_gain_ulps = st.max_gain_ulps.max(q_f64(&(gain / ulp())));
        }
    } else {
        // credits at most the exact value that reached the vault
        let credited = -removed.clone();
        let gain = &credited - &vault_in;
        if gain > u {
            out.push(finding(
                "value:credited-more-than-paid",
                format!("op#{} {}: position value rose by {} but only {} tokens reached the vault", step.index, step.op.name(), q_str(&credited), q_str(&vault_in)),
            ));
        }
        if gain.is_positive() {
            st.max_gain_ulps = st.max_gain_ulps.max(q_f64(&(gain / ulp())));
        }
    }
    (out, nontrivial)
}

// ------------------------------------------------------------------------------------------
// C06(b) interest is applied first: freshness + differential probe + idempotence
// ------------------------------------------------------------------------------------------
#[derive(Default, Clone)]
pub struct C06State {
    pub probes: u64,
    pub fresh_checks: u64,
    pub idem_checks: u64,
    /// "interest was really charged" evaluations (independent lower bound on the liability share value's growth)
    pub charged_checks: u64,
    pub charged_zero_borrow_limit: u64,
    pub prog_fee_checks: u64,
    pub conservation_checks: u64,
    pub foreign_group_cranks: u64,
    pub charged_skipped_small: u64,
}

/// Independent LOWER bound of the borrow rate (per year, as a fraction) the bank must charge at utilisation `u`, written
/// from the statement's description of the curve, not from the program: for the seven-point curve the exact piecewise
/// linear interpolation through (0, zero rate), the configured points (utilisation > 0, ascending) and (1, hundred rate),
/// rates as u32 out of 1000 %, utilisations as u32 out of 100 %, lowered by 2^-12 (the program truncates knots by < 1 ulp
/// in x and <= 11 ulps in y and the utilisation by a few ulps; the steepest admissible segment has slope 10 * 2^32, so
/// the program's base rate differs from the exact curve by less than 10 * 2^32 * 2^-48 * (1 + 2^-15) < 2^-12); for the
/// legacy three-point curve nothing is assumed about the base rate (bound 0). The fixed insurance and group fees are
/// charged on top of any base rate; rate-proportional fees and the program fee only ADD to it (fees are never negative),
/// so leaving them out keeps the bound a lower bound.
fn borrow_rate_lower_bound(b: &marginfi_type_crate::types::Bank, u: &Q) -> Q {
    let c = &b.config.interest_rate_config;
    let fixed = q_max(q_zero(), q_w(c.insurance_fee_fixed_apr)) + q_max(q_zero(), q_w(c.protocol_fixed_fee_apr));
    if c.curve_type != marginfi_type_crate::types::INTEREST_CURVE_SEVEN_POINT {
        return fixed;
    }
    let m = q_int(u32::MAX);
    let rate = |r: u32| q_int(r) * q_int(10) / &m;
    let mut knots: Vec<(Q, Q)> = vec![(q_zero(), rate(c.zero_util_rate))];
    for p in c.points.iter() {
        if p.util != 0 {
            knots.push((q_int(p.util) / &m, rate(p.rate)));
        }
    }
    knots.push((q_one(), rate(c.hundred_util_rate)));
    let u = q_min(q_one(), q_max(q_zero(), u.clone()));
    let mut base = knots.last().unwrap().1.clone();
    for w in knots.windows(2) {
        let ((x0, y0), (x1, y1)) = (&w[0], &w[1]);
        if &u <= x1 {
            base = if x1 == x0 { y0.clone().min(y1.clone()) } else { y0 + (y1 - y0) * (&u - x0) / (x1 - x0) };
            break;
        }
    }
    q_max(q_zero(), base - q_ratio(1, 4096)) + fixed
}

fn bank_core_eq(a: &BankSnap, b: &BankSnap) -> Option<&'static str> {
    if a.asv != b.asv {
        return Some("asset_share_value");
    }
    if a.lsv != b.lsv {
        return Some("liability_share_value");
    }
    if a.a_bits != b.a_bits {
        return Some("total_asset_shares");
    }
    if a.l_bits != b.l_bits {
        return Some("total_liability_shares");
    }
    if a.f_ins != b.f_ins || a.f_grp != b.f_grp || a.f_prog != b.f_prog {
        return Some("outstanding fees");
    }
    if a.vault != b.vault || a.ins_vault != b.ins_vault || a.fee_vault != b.fee_vault {
        return Some("vault balances");
    }
    None
}

/// Returns (findings, nontrivial?)
pub fn c06_step(st: &mut C06State, pre: &StoreSnap, post: &StoreSnap, step: &Step, w: &World) -> (Vec<Finding>, bool) {
    let mut out = vec![];
    let mut nontrivial = false;
    if !step.ok || step.skipped {
        return (out, false);
    }
    // banks the instruction transacts in
    let mut banks: Vec<usize> = vec![];
    let transacting = match &step.op {
        Op::Deposit { .. } | Op::Borrow { .. } => step.amount > 0,
        Op::Withdraw { all, .. } | Op::Repay { all, .. } => *all || step.amount > 0,
        Op::Liquidate { .. } | Op::Bankrupt { .. } | Op::CloseBalance { .. } | Op::Accrue { .. } | Op::Receivership { .. } | Op::Flash { .. } => true,
        _ => false,
    };
    if !transacting {
        return (out, false);
    }
    if let Some(b) = step.bank {
        banks.push(b);
    }
    if let Some(b) = step.bank2 {
        if !banks.contains(&b) {
            banks.push(b);
        }
    }
    // a zero-amount deposit returns early and transacts in nothing
    if let Op::Deposit { .. } = step.op {
        if let Some(bi) = step.bank {
            let k = w.banks[bi].key;
            if pre.banks.get(&k).map(|b| b.a_bits) == post.banks.get(&k).map(|b| b.a_bits) {
                return (out, false);
            }
        }
    }
    let mut stale_any = false;
    for bi in &banks {
        let k = w.banks[*bi].key;
        let (Some(b0), Some(b1)) = (pre.banks.get(&k), post.banks.get(&k)) else { continue };
        st.fresh_checks += 1;
        if b1.last_update != post.now {
            out.push(finding("accrual:stale-after-op", format!("op#{} {}: bank {} last_update {} != clock {}", step.index, step.op.name(), k, b1.last_update, post.now)));
        }
        if b0.last_update < post.now && !b0.l_shares.is_zero() && !b0.a_shares.is_zero() {
            stale_any = true;
        }
        // interest was really charged (independent of the program's own accrual code, which the differential probe below
        // shares): the instruction transacted in the bank at `now`, the bank was last brought up to date at t0 < now with
        // at least one native unit of deposits and of debt, so the liability share value must have grown by at least
        // lsv * (lower bound of the borrow rate at the utilisation of the pre-state) * dt / year.
        if b0.last_update < post.now && b0.liabs() >= q_one() && b0.assets() >= q_one() {
            let dt = q_int(post.now - b0.last_update);
            let u = b0.liabs() / b0.assets();
            let r_lo = borrow_rate_lower_bound(&b0.raw, &u);
            let want = &b0.lsv * &r_lo * &dt / q_int(31_536_000u64);
            if want >= q_int(256) * ulp() {
                st.charged_checks += 1;
                if b0.borrow_limit == 0 {
                    st.charged_zero_borrow_limit += 1;
                }
                let got = &b1.lsv - &b0.lsv;
                if got < &want * q_ratio(999_999u64, 1_000_000u64) - q_int(8) * ulp() {
                    out.push(finding(
                        "accrual:interest-not-charged",
                        format!(
                            "op#{} {}: bank {} is stamped up to date (last_update {} -> {}) but its liability share value grew by {} over {} s at utilisation {}, less than the {} that the configured curve and fixed fees charge at least (borrow limit {}, curve type {})",
                            step.index, step.op.name(), k, b0.last_update, b1.last_update, q_str(&got), post.now - b0.last_update, q_str(&u), q_str(&want), b0.borrow_limit, b0.raw.config.interest_rate_config.curve_type
                        ),
                    ));
                }
            } else {
                st.charged_skipped_small += 1;
            }
        }
        // monotone share values over any step
        if b1.lsv < b0.lsv {
            out.push(finding("accrual:liability-share-value-decreased", format!("op#{} {}: bank {}", step.index, step.op.name(), k)));
        }
        if b1.asv < b0.asv && !matches!(step.op, Op::Bankrupt { .. }) {
            out.push(finding("accrual:asset-share-value-decreased", format!("op#{} {}: bank {}", step.index, step.op.name(), k)));
        }
    }
    // differential probe: [accrue(banks); op] must equal [op]
    if stale_any && out.is_empty() {
        if let Some(pre_vm) = &step.pre_vm {
            let mut vm = pre_vm.clone();
            let mut ok = true;
            for bi in &banks {
                if vm.exec(&w.ix_accrue(*bi)).is_err() {
                    ok = false;
                }
            }
            if ok && vm.exec_tx(&step.ixs).ok {
                st.probes += 1;
                nontrivial = true;
                for bi in &banks {
                    let k = w.banks[*bi].key;
                    if let (Some(pb), Some(ob)) = (bank_snap(&vm, &k), post.banks.get(&k)) {
                        if let Some(field) = bank_core_eq(&pb, ob) {
                            out.push(finding(
                                "accrual:not-applied-first",
                                format!("op#{} {}: bank {} ends with a different {} when interest is accrued explicitly first (the instruction transacted against stale share values)", step.index, step.op.name(), k, field),
                            ));
                        }
                    }
                }
                for acct in [step.macct, step.other_macct].into_iter().flatten() {
                    let pa = crate::world::read_macct(&vm, &acct);
                    let oa = post.accts.get(&acct);
                    if let (Some(pa), Some(oa)) = (pa, oa) {
                        let same = pa.lending_account.balances.iter().zip(oa.raw.lending_account.balances.iter()).all(|(x, y)| x.bank_pk == y.bank_pk && x.asset_shares == y.asset_shares && x.liability_shares == y.liability_shares);
                        if !same {
                            out.push(finding("accrual:not-applied-first", format!("op#{} {}: account {} ends with different shares when interest is accrued explicitly first", step.index, step.op.name(), acct)));
                        }
                    }
                }
            }
        }
    }
    // "program fees are zero when disabled for the group" (a clause about ACCRUAL): in a step that books fees through
    // interest accrual only - the crank, deposit, withdraw, repay, balance closure - a bank of a group whose program-fee
    // switch is off (at the pre-state) books no program fee. (Borrows are left out: the program's share of a borrow's
    // ORIGINATION fee is booked whatever the switch says - `lending_account_borrow` reads the cached program_fee_rate
    // without consulting the flag; observed, 2025 guides describe the split but not the switch; not an accrual fee, so not
    // judged here.)
    let accrual_only = matches!(step.op, Op::Accrue { .. } | Op::Deposit { .. } | Op::Withdraw { .. } | Op::Repay { .. } | Op::CloseBalance { .. });
    if let (true, Some(pre_vm)) = (accrual_only, &step.pre_vm) {
        let off = pre_vm.get(&w.group).map(|a| bytemuck::from_bytes::<marginfi_type_crate::types::MarginfiGroup>(&a.data[8..8 + std::mem::size_of::<marginfi_type_crate::types::MarginfiGroup>()]).group_flags & 1 == 0).unwrap_or(false);
        if off {
            for bi in &banks {
                let k = w.banks[*bi].key;
                if let (Some(b0), Some(b1)) = (pre.banks.get(&k), post.banks.get(&k)) {
                    st.prog_fee_checks += 1;
                    if b1.f_prog > b0.f_prog {
                        out.push(finding("accrual:program-fee-while-disabled", format!("op#{} {}: bank {} booked {} of program fees although its group has program fees disabled", step.index, step.op.name(), k, q_str(&(&b1.f_prog - &b0.f_prog)))));
                    }
                }
            }
        }
    }
    // conservation over a pure accrual (the crank changes nothing else; the vault does not move): the increase in total debt
    // equals the increase in total deposits plus the fees booked. Two-sided, with an allowance scaled by the magnitudes that
    // flow through the ~10 truncating operations (c06a.rs derives the sharp form for the pure function: every term is
    // ulp x (shares) x (share value) x (1 + (rate + 1) x dt / year), rate <= 10 + fees; 64 of those are granted here).
    if let (Op::Accrue { .. }, Some(bi)) = (&step.op, step.bank) {
        let k = w.banks[bi].key;
        if let (Some(b0), Some(b1)) = (pre.banks.get(&k), post.banks.get(&k)) {
            if b0.last_update < post.now && (b1.asv != b0.asv || b1.lsv != b0.lsv || b1.fees() != b0.fees()) {
                let d_l = b1.liabs() - b0.liabs();
                let d_a = b1.assets() - b0.assets();
                let d_f = b1.fees() - b0.fees();
                let ty = q_int(post.now - b0.last_update) / q_int(31_536_000u64);
                let mag = q_one() + &b0.a_shares + &b0.l_shares;
                let sv = q_max(q_one(), q_max(q_max(b0.asv.clone(), b1.asv.clone()), q_max(b0.lsv.clone(), b1.lsv.clone())));
                let allow = q_int(64) * ulp() * mag * sv * (q_one() + q_int(12) * ty);
                let d = &d_l - &d_a - &d_f;
                st.conservation_checks += 1;
                if d.abs() > allow {
                    out.push(finding(
                        "accrual:conservation",
                        format!("op#{} accrue: bank {}: total debt grew by {} but total deposits by {} and the fee buckets by {} (difference {}, allowance {}); deposit share value {} -> {}", step.index, k, q_str(&d_l), q_str(&d_a), q_str(&d_f), q_str(&d), q_str(&allow), q_str(&b0.asv), q_str(&b1.asv)),
                    ));
                }
            }
        }
    }
    // the permissionless crank with ANOTHER group in its group slot (anyone may create a group; a new group has program
    // fees enabled and its own fee cache): refused, or else it must leave the bank exactly where the honest crank does
    if let (Op::Accrue { .. }, Some(bi), Some(pre_vm)) = (&step.op, step.bank, &step.pre_vm) {
        let mut vm = pre_vm.clone();
        let g2 = crate::world::kp("c06_foreign_group", 0);
        let init = crate::world::mfi_ix(
            anchor_lang::ToAccountMetas::to_account_metas(&marginfi::accounts::MarginfiGroupInitialize { marginfi_group: g2, admin: w.roles.stranger, fee_state: w.fee_state, system_program: solana_program::system_program::ID }, Some(true)),
            anchor_lang::InstructionData::data(&marginfi::instruction::MarginfiGroupInitialize {}),
        );
        if vm.get(&g2).is_some() || vm.exec(&init).is_ok() {
            let hostile = crate::world::mfi_ix(
                anchor_lang::ToAccountMetas::to_account_metas(&marginfi::accounts::LendingPoolAccrueBankInterest { group: g2, bank: w.banks[bi].key }, Some(true)),
                anchor_lang::InstructionData::data(&marginfi::instruction::LendingPoolAccrueBankInterest {}),
            );
            st.foreign_group_cranks += 1;
            if vm.exec(&hostile).is_ok() {
                let k = w.banks[bi].key;
                if let (Some(hb), Some(ob)) = (bank_snap(&vm, &k), post.banks.get(&k)) {
                    if bank_core_eq(&hb, ob).is_some() || hb.f_prog != ob.f_prog || hb.f_grp != ob.f_grp || hb.f_ins != ob.f_ins {
                        out.push(finding(
                            "accrual:foreign-group-changes-accrual",
                            format!("op#{}: the interest crank of bank {} accepted another group's account in its group slot and accrued differently (program fees {} vs {}, liability share value {} vs {})", step.index, k, q_str(&hb.f_prog), q_str(&ob.f_prog), q_str(&hb.lsv), q_str(&ob.lsv)),
                        ));
                    }
                }
            }
        }
    }
    // idempotence of accrue at the same timestamp
    if let (Op::Accrue { .. }, Some(bi)) = (&step.op, step.bank) {
        let mut vm = w.vm.clone();
        let before = vm.data(&w.banks[bi].key).to_vec();
        if vm.exec(&w.ix_accrue(bi)).is_ok() {
            st.idem_checks += 1;
            let after = vm.data(&w.banks[bi].key).to_vec();
            if before != after {
                out.push(finding("accrual:not-idempotent", format!("op#{}: accruing bank {} twice at the same timestamp changed its bytes", step.index, w.banks[bi].key)));
            }
        }
    }
    (out, nontrivial)
}
