//! Shared plumbing for all property checks: tiers, seeds, reports, evidence, known findings,
//! the proptest runner wrapper, worker threads, and the private stdout channel.
use proptest::strategy::{Strategy, ValueTree};
use proptest::test_runner::{Config, RngAlgorithm, TestCaseError, TestError, TestRng, TestRunner};
use serde_json::{json, Map, Value};
use std::collections::{BTreeMap, BTreeSet};
use std::io::Write;
use std::sync::atomic::{AtomicI32, Ordering};

#[derive(Clone, Copy, Debug, PartialEq, Eq)]
pub enum Tier {
    Quick,
    Thorough,
}
impl Tier {
    pub fn name(&self) -> &'static str {
        match self {
            Tier::Quick => "quick",
            Tier::Thorough => "thorough",
        }
    }
    /// pick(quick, thorough)
    pub fn pick<T>(&self, q: T, t: T) -> T {
        match self {
            Tier::Quick => q,
            Tier::Thorough => t,
        }
    }
}

#[derive(Clone, Debug)]
pub struct Ctx {
    pub prop: String,
    pub tier: Tier,
    pub seed: u64,
    pub threads: usize,
}

impl Ctx {
    /// Deterministic 32-byte seed for (property, stream, worker).
    pub fn seed_bytes(&self, stream: &str, worker: u64) -> [u8; 32] {
        let mut h = fnv(self.prop.as_bytes()) ^ fnv(stream.as_bytes()).rotate_left(17);
        h ^= self.seed.wrapping_mul(0x9E37_79B9_7F4A_7C15);
        h ^= worker.wrapping_mul(0xD6E8_FEB8_6659_FD93);
        let mut out = [0u8; 32];
        let mut x = h;
        for c in out.chunks_mut(8) {
            x = splitmix(x);
            c.copy_from_slice(&x.to_le_bytes());
        }
        out
    }
}

pub fn fnv(b: &[u8]) -> u64 {
    let mut h: u64 = 0xcbf29ce484222325;
    for x in b {
        h ^= *x as u64;
        h = h.wrapping_mul(0x100000001b3);
    }
    h
}
pub fn splitmix(mut z: u64) -> u64 {
    z = z.wrapping_add(0x9E3779B97F4A7C15);
    z = (z ^ (z >> 30)).wrapping_mul(0xBF58476D1CE4E5B9);
    z = (z ^ (z >> 27)).wrapping_mul(0x94D049BB133111EB);
    z ^ (z >> 31)
}
pub fn hash_json(v: &Value) -> u64 {
    fnv(serde_json::to_string(v).unwrap().as_bytes())
}

// ------------------------------------------------------------------------------------------
// private stdout (msg! in the program is a bare println!, so fd 1 is pointed at /dev/null)
// ------------------------------------------------------------------------------------------
static REAL_OUT: AtomicI32 = AtomicI32::new(1);

pub fn silence_program_stdout() {
    unsafe {
        let saved = libc::dup(1);
        if saved < 0 {
            return;
        }
        let devnull = libc::open(b"/dev/null\0".as_ptr() as *const libc::c_char, libc::O_WRONLY);
        if devnull >= 0 && std::env::var("MFV_SHOW_LOGS").is_err() {
            libc::dup2(devnull, 1);
            libc::close(devnull);
        }
        REAL_OUT.store(saved, Ordering::SeqCst);
    }
}

pub fn out(s: &str) {
    let fd = REAL_OUT.load(Ordering::SeqCst);
    let mut line = s.to_string();
    line.push('\n');
    unsafe {
        let b = line.as_bytes();
        let mut off = 0;
        while off < b.len() {
            let n = libc::write(fd, b[off..].as_ptr() as *const libc::c_void, b.len() - off);
            if n <= 0 {
                break;
            }
            off += n as usize;
        }
    }
    let _ = std::io::stderr().flush();
}

#[macro_export]
macro_rules! outln {
    ($($arg:tt)*) => { $crate::common::out(&format!($($arg)*)) };
}

// ------------------------------------------------------------------------------------------
// Report
// ------------------------------------------------------------------------------------------
#[derive(Clone, Debug)]
pub struct Violation {
    /// which clause of the property failed (stable, used as the known-finding signature)
    pub signature: String,
    pub message: String,
    /// a self-contained replayable case
    pub replay: Value,
}

#[derive(Clone, Debug, Default)]
pub struct Report {
    pub evaluations: u64,
    pub nontrivial: BTreeSet<u64>,
    pub rule: String,
    pub samples: Vec<Value>,
    pub labels: BTreeMap<String, u64>,
    pub violations: Vec<Violation>,
    pub extra: Map<String, Value>,
    pub assumptions: Vec<String>,
    pub exhaustive: bool,
    /// engine problems (never a violation): makes the check exit 2
    pub engine_errors: Vec<String>,
    /// minimum number of distinct non-trivial cases below which the run is inconclusive
    pub nontrivial_floor: u64,
}

pub const MAX_SAMPLES: usize = 8;

impl Report {
    pub fn new(rule: &str) -> Self {
        Report { rule: rule.to_string(), nontrivial_floor: 2, ..Default::default() }
    }
    pub fn label(&mut self, l: &str) {
        *self.labels.entry(l.to_string()).or_insert(0) += 1;
    }
    pub fn label_n(&mut self, l: &str, n: u64) {
        *self.labels.entry(l.to_string()).or_insert(0) += n;
    }
    pub fn eval(&mut self) {
        self.evaluations += 1;
    }
    /// register a non-trivial case by the structural hash of its witness
    pub fn nontrivial_hash(&mut self, h: u64) {
        self.nontrivial.insert(h);
    }
    pub fn nontrivial_case(&mut self, witness: &Value) {
        self.nontrivial.insert(hash_json(witness));
    }
    pub fn sample(&mut self, v: Value) {
        if self.samples.len() < MAX_SAMPLES {
            self.samples.push(v);
        }
    }
    pub fn violation(&mut self, signature: &str, message: String, replay: Value) {
        self.violations.push(Violation { signature: signature.to_string(), message, replay });
    }
    pub fn set_max(&mut self, key: &str, v: f64) {
        let cur = self.extra.get(key).and_then(|x| x.as_f64()).unwrap_or(f64::MIN);
        if v > cur {
            self.extra.insert(key.to_string(), json!(v));
        }
    }
    pub fn add_extra(&mut self, key: &str, n: u64) {
        let cur = self.extra.get(key).and_then(|x| x.as_u64()).unwrap_or(0);
        self.extra.insert(key.to_string(), json!(cur + n));
    }
    pub fn merge(&mut self, o: Report) {
        self.evaluations += o.evaluations;
        self.nontrivial.extend(o.nontrivial);
        if self.rule.is_empty() {
            self.rule = o.rule;
        }
        for s in o.samples {
            self.sample(s);
        }
        for (k, v) in o.labels {
            *self.labels.entry(k).or_insert(0) += v;
        }
        self.violations.extend(o.violations);
        for (k, v) in o.extra {
            match (self.extra.get(&k), &v) {
                (Some(a), b) if a.is_u64() && b.is_u64() => {
                    let s = a.as_u64().unwrap() + b.as_u64().unwrap();
                    self.extra.insert(k, json!(s));
                }
                (Some(a), b) if a.is_f64() && b.is_f64() => {
                    let s = a.as_f64().unwrap().max(b.as_f64().unwrap());
                    self.extra.insert(k, json!(s));
                }
                (Some(_), _) => {}
                (None, _) => {
                    self.extra.insert(k, v);
                }
            }
        }
        for a in o.assumptions {
            if !self.assumptions.contains(&a) {
                self.assumptions.push(a);
            }
        }
        self.exhaustive = self.exhaustive && o.exhaustive;
        self.engine_errors.extend(o.engine_errors);
        self.nontrivial_floor = self.nontrivial_floor.max(o.nontrivial_floor);
    }
}

/// Run `f(worker_index)` on `n` threads and merge the reports in worker order.
pub fn par_workers<F>(n: usize, f: F) -> Report
where
    F: Fn(usize) -> Report + Sync,
{
    let mut reports: Vec<Option<Report>> = (0..n).map(|_| None).collect();
    std::thread::scope(|s| {
        let hs: Vec<_> = (0..n)
            .map(|i| {
                let f = &f;
                std::thread::Builder::new()
                    .stack_size(256 << 20)
                    .spawn_scoped(s, move || f(i))
                    .unwrap()
            })
            .collect();
        for (i, h) in hs.into_iter().enumerate() {
            match h.join() {
                Ok(r) => reports[i] = Some(r),
                Err(e) => {
                    let mut r = Report::default();
                    let msg = e
                        .downcast_ref::<String>()
                        .cloned()
                        .or_else(|| e.downcast_ref::<&str>().map(|s| s.to_string()))
                        .unwrap_or_else(|| "worker panicked".into());
                    r.engine_errors.push(format!("worker {i} panicked: {msg}"));
                    reports[i] = Some(r);
                }
            }
        }
    });
    let mut it = reports.into_iter().flatten();
    let mut acc = it.next().unwrap_or_default();
    let first_exh = acc.exhaustive;
    acc.exhaustive = first_exh;
    for r in it {
        acc.merge(r);
    }
    acc
}

// ------------------------------------------------------------------------------------------
// proptest wrapper
// ------------------------------------------------------------------------------------------
pub struct PropOutcome<T> {
    /// shrunk failing value and the failure message, if any
    pub failure: Option<(T, String)>,
    pub cases_run: u64,
}

/// Run a proptest property from a binary with a fixed seed and no persistence. `test` returns
/// Err(message) when the property is violated. The closure is re-run during shrinking; callers
/// that count statistics should consult `counting()` of the handle passed in.
pub fn run_prop<S, F>(seed: [u8; 32], cases: u32, strat: &S, mut test: F) -> PropOutcome<S::Value>
where
    S: Strategy,
    S::Value: Clone + std::fmt::Debug,
    F: FnMut(&S::Value, bool) -> Result<(), String>,
{
    let mut runner = TestRunner::new_with_rng(
        Config {
            cases,
            failure_persistence: None,
            max_shrink_iters: 4000,
            max_global_rejects: 65536,
            ..Config::default()
        },
        TestRng::from_seed(RngAlgorithm::ChaCha, &seed),
    );
    // we drive the loop ourselves so that statistics stop at the first failure
    let mut run = 0u64;
    for _ in 0..cases {
        let mut tree = match strat.new_tree(&mut runner) {
            Ok(t) => t,
            Err(_) => continue,
        };
        run += 1;
        let v = tree.current();
        if let Err(msg) = test(&v, true) {
            // shrink
            let mut best = (v, msg);
            let mut iters = 0;
            loop {
                if iters > 4000 {
                    break;
                }
                if !tree.simplify() {
                    break;
                }
                loop {
                    iters += 1;
                    let c = tree.current();
                    match test(&c, false) {
                        Err(m) => {
                            best = (c, m);
                            break;
                        }
                        Ok(()) => {
                            if !tree.complicate() {
                                break;
                            }
                            if iters > 4000 {
                                break;
                            }
                        }
                    }
                }
            }
            return PropOutcome { failure: Some(best), cases_run: run };
        }
    }
    let _ = (TestCaseError::fail("x"), None::<TestError<()>>);
    PropOutcome { failure: None, cases_run: run }
}

/// Monotone index map (shrinks well): maps a u16 into 0..len
pub fn idx(i: u16, len: usize) -> usize {
    if len == 0 {
        0
    } else {
        ((i as usize) * len) >> 16
    }
}

// ------------------------------------------------------------------------------------------
// Known findings
// ------------------------------------------------------------------------------------------
#[derive(Clone, Debug)]
pub struct KnownFinding {
    pub status: String,
    pub property: String,
    pub signature: String,
    pub what: String,
}

pub fn load_known_findings(verif_root: &str) -> Vec<KnownFinding> {
    let p = format!("{verif_root}/KNOWN_FINDINGS.jsonl");
    let mut v = vec![];
    if let Ok(s) = std::fs::read_to_string(p) {
        for l in s.lines() {
            let l = l.trim();
            if l.is_empty() || l.starts_with('#') {
                continue;
            }
            if let Ok(j) = serde_json::from_str::<Value>(l) {
                v.push(KnownFinding {
                    status: j["status"].as_str().unwrap_or("").to_string(),
                    property: j["property"].as_str().unwrap_or("").to_string(),
                    signature: j["signature"].as_str().unwrap_or("").to_string(),
                    what: j["what"].as_str().unwrap_or("").to_string(),
                });
            }
        }
    }
    v
}

pub fn verif_root() -> String {
    std::env::var("VERIF_ROOT").unwrap_or_else(|_| "/verif".to_string())
}

pub const STD_ASSUMPTIONS: &[&str] = &[
    "svm-lite mini runtime: BPF-loader account serialisation, real marginfi::entry, real SPL-Token/Token-2022 processors, 40-line system program; no compute/heap limits, no rent collection, native (not BPF) code generation",
    "oracle/mint/user-token accounts are fabricated directly; all program-owned state is created through real instructions unless an injection is counted in coverage",
];
