//! venue_farms: a FAKE Kamino FARMS program (registered under `marginfi::constants::FARMS_PROGRAM_ID`) plus the world
//! helpers that make marginfi's permissionless `kamino_harvest_reward` executable in the engine:
//! `marginfi::entry` -> Anchor constraints -> handler -> CPI `harvest_reward` into `process` below -> CPI into the real
//! SPL-Token / Token-2022 processor, then marginfi's own `transfer_checked` to the fee wallet's token account.
//!
//! Only `harvest_reward(reward_index)` is implemented (everything else is accepted and does nothing). The account
//! layouts are the FAKE's own (marginfi treats every farms account as unchecked and never reads one):
//!
//! ```text
//! GlobalConfig (48)  : disc | treasury_vaults_authority
//! FarmState    (592) : disc | global_config | farm_vaults_authority | bump u8 (+7 pad) |
//!                      MAX_REWARDS x { reward_mint | rewards_vault | rewards_treasury_vault | token_program }
//! UserState    (104) : disc | owner | farm_state | MAX_REWARDS x pending u64
//! ```
//!
//! PDAs (of the farms program, seeds as the real program names them): `farm_vaults_authority = ["authority", farm]`,
//! `rewards_vault = ["rvault", farm, reward_mint]`, `rewards_treasury_vault = ["tvault", global_config, reward_mint]`.
//!
//! `harvest_reward` behaves like the real instruction's account constraints (`user_state.has_one = owner, farm_state`;
//! `user_reward_ata: token::mint = reward_mint, token::authority = owner`; vaults / authority by seeds) and pays the
//! user's pending reward of that index out of the rewards vault (signed with the vault authority's seeds), zeroing it.
//! Deviations from the real venue: rewards do not accrue by themselves ([`set_pending`] is the outside world acting),
//! no treasury fee is taken (the treasury vault must still be the right account), `scope_prices` is ignored.
use crate::svm::{self, Acct, Vm};
use crate::world::{self, kp, World};
use anchor_lang::{Discriminator, InstructionData, ToAccountMetas};
use kamino_mocks::kamino_farms::client::args as fargs;
use solana_program::{
    account_info::AccountInfo,
    entrypoint::ProgramResult,
    instruction::Instruction,
    program::invoke_signed,
    program_error::ProgramError,
    pubkey::Pubkey,
};

pub fn program_id() -> Pubkey {
    marginfi::constants::FARMS_PROGRAM_ID
}

pub const MAX_REWARDS: usize = 4;
pub const SEED_AUTHORITY: &[u8] = b"authority";
pub const SEED_RVAULT: &[u8] = b"rvault";
pub const SEED_TVAULT: &[u8] = b"tvault";

pub const GLOBAL_LEN: usize = 8 + 32 + 8;
pub const FARM_LEN: usize = 8 + 32 + 32 + 8 + MAX_REWARDS * 128;
pub const USER_LEN: usize = 8 + 32 + 32 + MAX_REWARDS * 8;
const F_GLOBAL: usize = 8;
const F_AUTH: usize = 40;
const F_BUMP: usize = 72;
const F_REWARDS: usize = 80;
const U_OWNER: usize = 8;
const U_FARM: usize = 40;
const U_PENDING: usize = 72;

fn disc(name: &str) -> [u8; 8] {
    solana_program::hash::hash(format!("account:{name}").as_bytes()).to_bytes()[..8].try_into().unwrap()
}
pub fn farm_discriminator() -> [u8; 8] {
    disc("FarmState")
}
pub fn user_discriminator() -> [u8; 8] {
    disc("UserState")
}
pub fn global_discriminator() -> [u8; 8] {
    disc("GlobalConfig")
}

/// error codes of the fake (`ProgramError::Custom`), outside marginfi's 6000.. range
pub mod err {
    pub const BASE: u32 = 0x4641_0000;
    pub const NOT_FARMS_ACCOUNT: u32 = BASE + 1;
    pub const WRONG_OWNER: u32 = BASE + 2;
    pub const ACCOUNT_MISMATCH: u32 = BASE + 3;
    pub const BAD_REWARD_INDEX: u32 = BASE + 4;
    pub const WRONG_TOKEN_ACCOUNT: u32 = BASE + 5;
    pub const INVALID_PDA: u32 = BASE + 6;
    pub const NOT_WRITABLE: u32 = BASE + 7;
    pub const INSUFFICIENT_REWARDS: u32 = BASE + 8;
}
fn e(c: u32) -> ProgramError {
    ProgramError::Custom(c)
}
fn pk(d: &[u8], o: usize) -> Pubkey {
    Pubkey::new_from_array(d[o..o + 32].try_into().unwrap())
}

pub fn vaults_authority_pda(farm: &Pubkey) -> (Pubkey, u8) {
    Pubkey::find_program_address(&[SEED_AUTHORITY, farm.as_ref()], &program_id())
}
pub fn rewards_vault_pda(farm: &Pubkey, mint: &Pubkey) -> Pubkey {
    Pubkey::find_program_address(&[SEED_RVAULT, farm.as_ref(), mint.as_ref()], &program_id()).0
}
pub fn treasury_vault_pda(global: &Pubkey, mint: &Pubkey) -> Pubkey {
    Pubkey::find_program_address(&[SEED_TVAULT, global.as_ref(), mint.as_ref()], &program_id()).0
}

/// Register the fake under the FARMS program id (idempotent, process-wide).
pub fn register() {
    svm::register_program(program_id(), process);
}

pub fn process(pid: &Pubkey, ais: &[AccountInfo], data: &[u8]) -> ProgramResult {
    if data.len() < 8 {
        return Ok(());
    }
    if data[..8] == *fargs::HarvestReward::DISCRIMINATOR {
        if data.len() < 16 {
            return Err(ProgramError::InvalidInstructionData);
        }
        harvest_reward(pid, ais, u64::from_le_bytes(data[8..16].try_into().unwrap()))
    } else {
        Ok(())
    }
}

/// (token mint, token owner, amount) of a token account owned by `token_program`
fn token_fields(ai: &AccountInfo, token_program: &Pubkey) -> Result<(Pubkey, Pubkey, u64), ProgramError> {
    if ai.owner != token_program {
        return Err(e(err::WRONG_TOKEN_ACCOUNT));
    }
    let d = ai.try_borrow_data()?;
    if d.len() < 165 || (d.len() > 165 && d[165] != 2) || d[108] != 1 {
        return Err(e(err::WRONG_TOKEN_ACCOUNT));
    }
    Ok((pk(&d, 0), pk(&d, 32), u64::from_le_bytes(d[64..72].try_into().unwrap())))
}

/// accounts: owner (w,s), user_state (w), farm_state (w), global_config, reward_mint, user_reward_ata (w),
/// rewards_vault (w), rewards_treasury_vault (w), farm_vaults_authority, scope_prices (opt), token_program
fn harvest_reward(pid: &Pubkey, ais: &[AccountInfo], reward_index: u64) -> ProgramResult {
    if ais.len() < 11 {
        return Err(ProgramError::NotEnoughAccountKeys);
    }
    let (owner, user, farm, global, mint, user_ata, rvault, tvault, authority, token_program) = (&ais[0], &ais[1], &ais[2], &ais[3], &ais[4], &ais[5], &ais[6], &ais[7], &ais[8], &ais[10]);
    if !owner.is_signer {
        return Err(ProgramError::MissingRequiredSignature);
    }
    if !user.is_writable || !farm.is_writable || !user_ata.is_writable || !rvault.is_writable || !tvault.is_writable {
        return Err(e(err::NOT_WRITABLE));
    }
    let idx = usize::try_from(reward_index).ok().filter(|i| *i < MAX_REWARDS).ok_or(e(err::BAD_REWARD_INDEX))?;
    // farm state, global config
    let (f_global, f_auth, f_bump, r_mint, r_vault, r_tvault, r_tp) = {
        let d = farm.try_borrow_data()?;
        if farm.owner != pid || d.len() != FARM_LEN || d[..8] != farm_discriminator() {
            return Err(e(err::NOT_FARMS_ACCOUNT));
        }
        let o = F_REWARDS + idx * 128;
        (pk(&d, F_GLOBAL), pk(&d, F_AUTH), d[F_BUMP], pk(&d, o), pk(&d, o + 32), pk(&d, o + 64), pk(&d, o + 96))
    };
    {
        let d = global.try_borrow_data()?;
        if global.owner != pid || d.len() != GLOBAL_LEN || d[..8] != global_discriminator() {
            return Err(e(err::NOT_FARMS_ACCOUNT));
        }
    }
    if *global.key != f_global {
        return Err(e(err::ACCOUNT_MISMATCH));
    }
    if r_mint == Pubkey::default() {
        return Err(e(err::BAD_REWARD_INDEX));
    }
    // user state: has_one = owner, has_one = farm_state
    let pending = {
        let d = user.try_borrow_data()?;
        if user.owner != pid || d.len() != USER_LEN || d[..8] != user_discriminator() {
            return Err(e(err::NOT_FARMS_ACCOUNT));
        }
        if pk(&d, U_OWNER) != *owner.key {
            return Err(e(err::WRONG_OWNER));
        }
        if pk(&d, U_FARM) != *farm.key {
            return Err(e(err::ACCOUNT_MISMATCH));
        }
        u64::from_le_bytes(d[U_PENDING + idx * 8..U_PENDING + idx * 8 + 8].try_into().unwrap())
    };
    let pda = Pubkey::create_program_address(&[SEED_AUTHORITY, farm.key.as_ref(), &[f_bump]], pid).map_err(|_| e(err::INVALID_PDA))?;
    if pda != f_auth || *authority.key != f_auth {
        return Err(e(err::INVALID_PDA));
    }
    if *mint.key != r_mint || *rvault.key != r_vault || *tvault.key != r_tvault || *token_program.key != r_tp || mint.owner != token_program.key {
        return Err(e(err::ACCOUNT_MISMATCH));
    }
    // user_reward_ata: token::mint = reward_mint, token::authority = owner
    let (a_mint, a_owner, _) = token_fields(user_ata, token_program.key)?;
    if a_mint != r_mint || a_owner != *owner.key {
        return Err(e(err::WRONG_TOKEN_ACCOUNT));
    }
    let (v_mint, v_owner, v_amount) = token_fields(rvault, token_program.key)?;
    if v_mint != r_mint || v_owner != f_auth {
        return Err(e(err::WRONG_TOKEN_ACCOUNT));
    }
    let (t_mint, _, _) = token_fields(tvault, token_program.key)?;
    if t_mint != r_mint {
        return Err(e(err::WRONG_TOKEN_ACCOUNT));
    }
    if pending == 0 {
        return Ok(());
    }
    if v_amount < pending {
        return Err(e(err::INSUFFICIENT_REWARDS));
    }
    let decimals = mint.try_borrow_data()?[44];
    let ix = if *token_program.key == spl_token::ID {
        spl_token::instruction::transfer_checked(token_program.key, rvault.key, mint.key, user_ata.key, authority.key, &[], pending, decimals)?
    } else if *token_program.key == spl_token_2022::ID {
        spl_token_2022::instruction::transfer_checked(token_program.key, rvault.key, mint.key, user_ata.key, authority.key, &[], pending, decimals)?
    } else {
        return Err(ProgramError::IncorrectProgramId);
    };
    invoke_signed(&ix, &[rvault.clone(), mint.clone(), user_ata.clone(), authority.clone()], &[&[SEED_AUTHORITY, farm.key.as_ref(), &[f_bump]]])?;
    let mut d = user.try_borrow_mut_data()?;
    d[U_PENDING + idx * 8..U_PENDING + idx * 8 + 8].copy_from_slice(&0u64.to_le_bytes());
    Ok(())
}

// ------------------------------------------------------------------------------------------
// world helpers
// ------------------------------------------------------------------------------------------
/// one reward of a farm, with the marginfi-side token accounts of the legitimate harvest
#[derive(Clone, Debug)]
pub struct Reward {
    pub index: u64,
    pub mint: Pubkey,
    pub token_program: Pubkey,
    pub decimals: u8,
    pub rewards_vault: Pubkey,
    pub treasury_vault: Pubkey,
    /// the canonical ATA of the bank's liquidity vault authority for the reward mint (the legitimate `user_reward_ata`)
    pub user_reward_ata: Pubkey,
    /// the canonical ATA of the global fee wallet for the reward mint (the only legitimate destination)
    pub fee_ata: Pubkey,
}
/// the farm of one Kamino bank: reward 0 pays a NEW mint, reward 1 pays the bank's own mint
#[derive(Clone, Debug)]
pub struct Farm {
    pub bank: usize,
    pub farm_state: Pubkey,
    pub user_state: Pubkey,
    pub global_config: Pubkey,
    pub vaults_authority: Pubkey,
    pub rewards: Vec<Reward>,
}

/// a token account of `mint` (SPL-Token or Token-2022, read from the mint account in the store)
pub fn token_acct_of(vm: &Vm, mint: &Pubkey, owner: Pubkey, amount: u64) -> Acct {
    let m = vm.get(mint).expect("mint");
    if m.owner == spl_token::ID {
        world::spl_token_acct(*mint, owner, amount)
    } else {
        world::t22_token_acct(&m.data, *mint, owner, amount)
    }
}
/// the canonical ATA of `wallet` for `mint`; created empty if it does not exist yet
pub fn ensure_ata(vm: &mut Vm, wallet: &Pubkey, mint: &Pubkey) -> Pubkey {
    let tp = vm.get(mint).expect("mint").owner;
    let k = world::ata(wallet, mint, &tp);
    if vm.get(&k).is_none() {
        let a = token_acct_of(vm, mint, *wallet, 0);
        vm.set(k, a);
    }
    k
}

/// Create (idempotently; all keys derived from the bank index) the farm of Kamino bank `bank`: global config, farm
/// state with two rewards (0: the new mint `kp("farm_reward_mint", bank)` of `new_decimals` decimals, SPL-Token or plain
/// Token-2022; 1: the bank's own mint), the user state of the bank's liquidity vault authority (nothing pending), the
/// rewards vaults (each holding `vault_funding` tokens) and treasury vaults, the vault authority's reward ATAs and the
/// fee wallet's ATAs. Everything venue-side is fabricated directly in the store (the venue's admin acting).
pub fn setup_farm(w: &mut World, bank: usize, new_decimals: u8, new_t22: bool, vault_funding: u64) -> Farm {
    register();
    let pid = program_id();
    w.vm.set(pid, Acct { lamports: 1, executable: true, owner: solana_program::bpf_loader::ID, data: vec![] });
    let n = bank as u64;
    let b = w.banks[bank].clone();
    let global = kp("farm_global_config", 0);
    let farm = kp("farm_state", n);
    let user = kp("farm_user_state", n);
    let (auth, bump) = vaults_authority_pda(&farm);
    let new_mint = kp("farm_reward_mint", n);
    if w.vm.get(&new_mint).is_none() {
        w.vm.set(new_mint, if new_t22 { world::t22_mint_acct(new_decimals, None) } else { world::spl_mint_acct(new_decimals) });
    }
    if w.vm.get(&global).is_none() {
        let mut d = vec![0u8; GLOBAL_LEN];
        d[..8].copy_from_slice(&global_discriminator());
        d[8..40].copy_from_slice(kp("farm_treasury_authority", 0).as_ref());
        w.vm.set(global, Acct { lamports: 1_000_000_000, data: d, owner: pid, executable: false });
    }
    let mints = [new_mint, b.mint];
    let mut rewards = vec![];
    let fresh = w.vm.get(&farm).is_none();
    let mut fd = vec![0u8; FARM_LEN];
    fd[..8].copy_from_slice(&farm_discriminator());
    fd[F_GLOBAL..F_GLOBAL + 32].copy_from_slice(global.as_ref());
    fd[F_AUTH..F_AUTH + 32].copy_from_slice(auth.as_ref());
    fd[F_BUMP] = bump;
    for (i, mint) in mints.iter().enumerate() {
        let m = w.vm.get(mint).expect("reward mint");
        let (tp, decimals) = (m.owner, m.data[44]);
        let rvault = rewards_vault_pda(&farm, mint);
        let tvault = treasury_vault_pda(&global, mint);
        if fresh {
            let a = token_acct_of(&w.vm, mint, auth, vault_funding);
            w.vm.set(rvault, a);
        }
        if w.vm.get(&tvault).is_none() {
            let a = token_acct_of(&w.vm, mint, kp("farm_treasury_authority", 0), 0);
            w.vm.set(tvault, a);
        }
        let o = F_REWARDS + i * 128;
        fd[o..o + 32].copy_from_slice(mint.as_ref());
        fd[o + 32..o + 64].copy_from_slice(rvault.as_ref());
        fd[o + 64..o + 96].copy_from_slice(tvault.as_ref());
        fd[o + 96..o + 128].copy_from_slice(tp.as_ref());
        let user_reward_ata = ensure_ata(&mut w.vm, &b.lv_auth, mint);
        let fee_wallet = w.fee_wallet;
        let fee_ata = ensure_ata(&mut w.vm, &fee_wallet, mint);
        rewards.push(Reward { index: i as u64, mint: *mint, token_program: tp, decimals, rewards_vault: rvault, treasury_vault: tvault, user_reward_ata, fee_ata });
    }
    if fresh {
        w.vm.set(farm, Acct { lamports: 1_000_000_000, data: fd, owner: pid, executable: false });
        let mut ud = vec![0u8; USER_LEN];
        ud[..8].copy_from_slice(&user_discriminator());
        ud[U_OWNER..U_OWNER + 32].copy_from_slice(b.lv_auth.as_ref());
        ud[U_FARM..U_FARM + 32].copy_from_slice(farm.as_ref());
        w.vm.set(user, Acct { lamports: 1_000_000_000, data: ud, owner: pid, executable: false });
    }
    Farm { bank, farm_state: farm, user_state: user, global_config: global, vaults_authority: auth, rewards }
}

/// outside-world knob: the user's pending reward of index `idx` becomes `amount` (and the rewards vault is topped up so
/// that it can pay it)
pub fn set_pending(vm: &mut Vm, farm: &Farm, idx: usize, amount: u64) {
    vm.modify(&farm.user_state, |a| a.data[U_PENDING + idx * 8..U_PENDING + idx * 8 + 8].copy_from_slice(&amount.to_le_bytes()));
    let v = farm.rewards[idx].rewards_vault;
    let have = world::token_amount(vm.data(&v));
    if have < amount {
        vm.modify(&v, |a| a.data[64..72].copy_from_slice(&amount.to_le_bytes()));
    }
}
pub fn pending(vm: &Vm, farm: &Farm, idx: usize) -> u64 {
    let d = vm.data(&farm.user_state);
    if d.len() != USER_LEN {
        return 0;
    }
    u64::from_le_bytes(d[U_PENDING + idx * 8..U_PENDING + idx * 8 + 8].try_into().unwrap())
}

/// every account of marginfi's `KaminoHarvestReward`, so that a caller can substitute any one of them
#[derive(Clone, Debug)]
pub struct HarvestKeys {
    pub bank: Pubkey,
    pub fee_state: Pubkey,
    pub destination_token_account: Pubkey,
    pub liquidity_vault_authority: Pubkey,
    pub user_state: Pubkey,
    pub farm_state: Pubkey,
    pub global_config: Pubkey,
    pub reward_mint: Pubkey,
    pub user_reward_ata: Pubkey,
    pub rewards_vault: Pubkey,
    pub rewards_treasury_vault: Pubkey,
    pub farm_vaults_authority: Pubkey,
    pub token_program: Pubkey,
    pub reward_index: u64,
}
/// the legitimate harvest of reward `idx` of the bank's farm
pub fn legit_keys(w: &World, farm: &Farm, idx: usize) -> HarvestKeys {
    let b = &w.banks[farm.bank];
    let r = &farm.rewards[idx];
    HarvestKeys {
        bank: b.key,
        fee_state: w.fee_state,
        destination_token_account: r.fee_ata,
        liquidity_vault_authority: b.lv_auth,
        user_state: farm.user_state,
        farm_state: farm.farm_state,
        global_config: farm.global_config,
        reward_mint: r.mint,
        user_reward_ata: r.user_reward_ata,
        rewards_vault: r.rewards_vault,
        rewards_treasury_vault: r.treasury_vault,
        farm_vaults_authority: farm.vaults_authority,
        token_program: r.token_program,
        reward_index: r.index,
    }
}
/// `kamino_harvest_reward` (permissionless: the instruction has no signer account at all)
pub fn ix_harvest(k: &HarvestKeys) -> Instruction {
    Instruction {
        program_id: marginfi::ID,
        accounts: marginfi::accounts::KaminoHarvestReward {
            bank: k.bank,
            fee_state: k.fee_state,
            destination_token_account: k.destination_token_account,
            liquidity_vault_authority: k.liquidity_vault_authority,
            user_state: k.user_state,
            farm_state: k.farm_state,
            global_config: k.global_config,
            reward_mint: k.reward_mint,
            user_reward_ata: k.user_reward_ata,
            rewards_vault: k.rewards_vault,
            rewards_treasury_vault: k.rewards_treasury_vault,
            farm_vaults_authority: k.farm_vaults_authority,
            scope_prices: None,
            farms_program: program_id(),
            token_program: k.token_program,
        }
        .to_account_metas(Some(true)),
        data: marginfi::instruction::KaminoHarvestReward { reward_index: k.reward_index }.data(),
    }
}
