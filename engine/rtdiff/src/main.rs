//! rtdiff: per-step differential test of the engine's mini runtime (svm-lite, `mfv::svm`) against the
//! real Solana runtime (solana-runtime 2.1.20 `Bank`, wired up exactly like solana-program-test does:
//! all features active, bundled BPF SPL-Token / Token-2022 / ATA programs, marginfi as a native
//! processor behind program-test's syscall stubs).
//!
//! Cases come from the engine's own campaign generator. Every transaction the campaign executes on
//! svm-lite is re-executed on the real bank from the same pre-state (all accounts of the svm-lite
//! store are written into the bank, the Clock sysvar is set) WITHOUT signature verification
//! (`Bank::simulate_transaction_unchecked`), and outcome + post-state are compared.
use mfv::campaign::{case_strategy, GenCfg, Op, Runner};
use mfv::svm::{self, Acct, Vm};
use mfv::world::WorldSpec;
use proptest::strategy::{Strategy, ValueTree};
use proptest::test_runner::{Config, RngAlgorithm, TestRng, TestRunner};
use serde_json::json;
use solana_program::program_stubs::{set_syscall_stubs, SyscallStubs};
use solana_program_runtime::loaded_programs::ProgramCacheEntry;
use solana_program_test::{processor, ProgramTest};
use solana_runtime::{
    bank::Bank,
    bank_forks::BankForks,
    genesis_utils::create_genesis_config_with_leader_ex,
    runtime_config::RuntimeConfig,
};
use solana_sdk::{
    account::{AccountSharedData, ReadableAccount},
    account_info::AccountInfo,
    clock::Clock,
    entrypoint::ProgramResult,
    fee_calculator::{FeeRateGovernor, DEFAULT_TARGET_LAMPORTS_PER_SIGNATURE},
    genesis_config::ClusterType,
    instruction::{AccountMeta, Instruction, InstructionError},
    message::Message,
    native_token::sol_to_lamports,
    poh_config::PohConfig,
    program_error::ProgramError,
    pubkey::Pubkey,
    rent::Rent,
    signature::{Keypair, Signature, Signer},
    system_program,
    transaction::{SanitizedTransaction, Transaction, TransactionError},
};
use std::cell::RefCell;
use std::collections::{BTreeMap, BTreeSet};
use std::sync::{Arc, RwLock};
use std::time::Duration;

// ------------------------------------------------------------------------------------------------
// native processors registered in the real bank
// ------------------------------------------------------------------------------------------------
thread_local! {
    static LAST_PANIC: RefCell<Option<String>> = const { RefCell::new(None) };
}

fn mfi_entry(pid: &Pubkey, accounts: &[AccountInfo], data: &[u8]) -> ProgramResult {
    let accounts: &[AccountInfo] = unsafe { std::mem::transmute(accounts) };
    match std::panic::catch_unwind(std::panic::AssertUnwindSafe(|| marginfi::entry(pid, accounts, data))) {
        Ok(r) => r,
        Err(_) => Err(ProgramError::Custom(svm::PANIC_CODE)),
    }
}
fn noop_entry(_pid: &Pubkey, _accounts: &[AccountInfo], _data: &[u8]) -> ProgramResult {
    Ok(())
}
/// same contract as svm-lite's proxy program: data = inner program id (32) + inner data
fn proxy_entry(_pid: &Pubkey, ais: &[AccountInfo], data: &[u8]) -> ProgramResult {
    if data.len() < 32 {
        return Ok(());
    }
    let inner = Pubkey::new_from_array(data[..32].try_into().unwrap());
    if inner == Pubkey::default() {
        return Ok(());
    }
    let metas: Vec<AccountMeta> = ais.iter().map(|a| AccountMeta { pubkey: *a.key, is_signer: a.is_signer, is_writable: a.is_writable }).collect();
    let ix = Instruction { program_id: inner, accounts: metas, data: data[32..].to_vec() };
    solana_program::program::invoke(&ix, ais)
}
fn spl_token_native(pid: &Pubkey, ais: &[AccountInfo], data: &[u8]) -> ProgramResult {
    spl_token::processor::Processor::process(pid, ais, data)
}
fn spl_token_2022_native(pid: &Pubkey, ais: &[AccountInfo], data: &[u8]) -> ProgramResult {
    spl_token_2022::processor::Processor::process(pid, ais, data)
}

/// svm-lite's code for "a writable account would be left rent-paying" (proposed; absent in older svm.rs)
const RENT_STATE_CODE: u32 = 0xdead_0006;

struct Dummy;
impl SyscallStubs for Dummy {}

/// The two global syscall-stub objects (svm-lite's and program-test's); exactly one is installed.
struct Switch {
    spare: Option<Box<dyn SyscallStubs>>,
    svm_active: bool,
}
impl Switch {
    fn to_svm(&mut self) {
        if !self.svm_active {
            self.spare = Some(set_syscall_stubs(self.spare.take().unwrap()));
            self.svm_active = true;
        }
    }
    fn to_real(&mut self) {
        if self.svm_active {
            self.spare = Some(set_syscall_stubs(self.spare.take().unwrap()));
            self.svm_active = false;
        }
    }
}

// ------------------------------------------------------------------------------------------------
// the real runtime
// ------------------------------------------------------------------------------------------------
struct Real {
    _forks: Arc<RwLock<BankForks>>,
    bank: Arc<Bank>,
    payer: Pubkey,
    /// what we last wrote into the bank (key -> account), to write only differences
    mirror: BTreeMap<Pubkey, Arc<Acct>>,
    clock: Option<Clock>,
    never_write: BTreeSet<Pubkey>,
}

fn build_bank(cu: Option<u64>, spl_native: bool) -> (Arc<RwLock<BankForks>>, Arc<Bank>) {
    // mirrors solana_program_test::ProgramTest::setup_bank (2.1.20)
    let rent = Rent::default();
    let fee_rate_governor = FeeRateGovernor { lamports_per_signature: DEFAULT_TARGET_LAMPORTS_PER_SIGNATURE / 2, ..FeeRateGovernor::default() };
    let bootstrap_validator_pubkey = Pubkey::new_unique();
    let bootstrap_validator_stake_lamports = rent.minimum_balance(3762) + sol_to_lamports(1_000_000.0);
    let mint_keypair = Keypair::new();
    let voting_keypair = Keypair::new();
    let mut gci = create_genesis_config_with_leader_ex(
        sol_to_lamports(1_000_000.0),
        &mint_keypair.pubkey(),
        &bootstrap_validator_pubkey,
        &voting_keypair.pubkey(),
        &Pubkey::new_unique(),
        bootstrap_validator_stake_lamports,
        42,
        fee_rate_governor,
        rent.clone(),
        ClusterType::Development,
        vec![],
    );
    gci.poh_config = PohConfig::new_sleep(Duration::from_micros(100));
    let bank = Bank::new_with_paths(
        &gci,
        Arc::new(RuntimeConfig {
            compute_budget: cu.map(|m| solana_compute_budget::compute_budget::ComputeBudget { compute_unit_limit: m, ..Default::default() }),
            ..RuntimeConfig::default()
        }),
        Vec::default(),
        None,
        None,
        false,
        None,
        None,
        None,
        Arc::default(),
        None,
        None,
    );
    for (program_id, account) in solana_program_test::programs::spl_programs(&rent).iter() {
        bank.store_account(program_id, account);
    }
    let mut builtins: Vec<(Pubkey, &'static str, Option<solana_program_runtime::invoke_context::BuiltinFunctionWithContext>)> =
        vec![(marginfi::ID, "marginfi", processor!(mfi_entry))];
    for p in svm::noop_ids() {
        // the real ComputeBudget builtin stays what it is
        if p != solana_sdk::compute_budget::ID {
            builtins.push((p, "noop", processor!(noop_entry)));
        }
    }
    builtins.push((svm::proxy_id_allowed(), "proxy_allowed", processor!(proxy_entry)));
    builtins.push((svm::proxy_id_unknown(), "proxy_unknown", processor!(proxy_entry)));
    if spl_native {
        builtins.push((spl_token::ID, "spl_token_native", processor!(spl_token_native)));
        builtins.push((spl_token_2022::ID, "spl_token_2022_native", processor!(spl_token_2022_native)));
    }
    for (id, name, f) in builtins {
        bank.add_builtin(id, name, ProgramCacheEntry::new_builtin(0, name.len(), f.unwrap()));
    }
    bank.set_capitalization();
    let bank = {
        let bank = Arc::new(bank);
        bank.fill_bank_with_ticks_for_tests();
        Bank::new_from_parent(bank.clone(), bank.collector_id(), bank.slot() + 1)
    };
    let forks = BankForks::new_rw_arc(bank);
    let bank = forks.read().unwrap().working_bank();
    (forks, bank)
}

fn to_asd(a: &Acct) -> AccountSharedData {
    AccountSharedData::from(solana_sdk::account::Account { lamports: a.lamports, data: a.data.clone(), owner: a.owner, executable: a.executable, rent_epoch: u64::MAX })
}

impl Real {
    fn new(cu: Option<u64>, spl_native: bool) -> Real {
        let (forks, bank) = build_bank(cu, spl_native);
        let payer = Pubkey::new_from_array(*b"rtdiff-fee-payer-rtdiff-fee-paye");
        bank.store_account(&payer, &to_asd(&Acct { lamports: 1_000_000_000_000_000, data: vec![], owner: system_program::ID, executable: false }));
        let mut never_write: BTreeSet<Pubkey> = BTreeSet::new();
        never_write.insert(solana_sdk::sysvar::instructions::ID);
        never_write.insert(payer);
        Real { _forks: forks, bank, payer, mirror: BTreeMap::new(), clock: None, never_write }
    }

    /// make the bank's account store equal to `pre` (for everything svm-lite knows about)
    fn sync(&mut self, pre: &Vm) -> u64 {
        let mut writes = 0;
        let gone: Vec<Pubkey> = self.mirror.keys().filter(|k| !pre.accts.contains_key(k)).copied().collect();
        for k in gone {
            self.bank.store_account(&k, &AccountSharedData::default());
            self.mirror.remove(&k);
            writes += 1;
        }
        for (k, a) in pre.accts.iter() {
            // program placeholders of svm-lite: the bank has the real programs
            if a.executable || self.never_write.contains(k) || solana_sdk::sysvar::is_sysvar_id(k) {
                continue;
            }
            let same = match self.mirror.get(k) {
                Some(m) => Arc::ptr_eq(m, a) || **m == **a,
                None => false,
            };
            if !same {
                self.bank.store_account(k, &to_asd(a));
                self.mirror.insert(*k, a.clone());
                writes += 1;
            }
        }
        if self.clock.as_ref() != Some(&pre.clock) {
            self.bank.set_sysvar_for_tests(&pre.clock);
            self.clock = Some(pre.clock.clone());
        }
        writes
    }

    fn build_tx(&self, ixs: &[Instruction]) -> Transaction {
        let msg = Message::new_with_blockhash(ixs, Some(&self.payer), &self.bank.last_blockhash());
        let n = msg.header.num_required_signatures as usize;
        Transaction { signatures: vec![Signature::default(); n], message: msg }
    }
}

// ------------------------------------------------------------------------------------------------
// comparison
// ------------------------------------------------------------------------------------------------
#[derive(Default)]
struct Stats {
    cases: u64,
    worlds_rejected: u64,
    steps_total: u64,
    steps_no_tx: u64,
    steps_compared: u64,
    ok_steps: u64,
    failed_steps: u64,
    divergences: u64,
    soft_errkind: u64,
    too_large: u64,
    too_many_locks: u64,
    cu_exhausted: u64,
    max_tx_size: u64,
    max_tx_keys: usize,
    max_units: u64,
    accounts_compared: u64,
    bytes_compared: u64,
    op_hist: BTreeMap<String, (u64, u64)>,
    err_hist: BTreeMap<String, u64>,
    errpair_hist: BTreeMap<String, u64>,
    too_large_hist: BTreeMap<String, u64>,
    div_hist: BTreeMap<String, u64>,
    saved: BTreeMap<String, u64>,
    unreconstructed: u64,
    unrec_hist: BTreeMap<String, u64>,
}

fn perr_name(e: &ProgramError) -> String {
    match e {
        ProgramError::Custom(c) => match *c {
            svm::PANIC_CODE => "svm:PANIC".into(),
            svm::PRIV_ESCALATION_CODE => "svm:PRIV_ESCALATION".into(),
            svm::READONLY_MODIFIED_CODE => "svm:READONLY_MODIFIED".into(),
            svm::UNBALANCED_CODE => "svm:UNBALANCED".into(),
            svm::EXTERNAL_MODIFIED_CODE => "svm:EXTERNAL_MODIFIED".into(),
            0xdead_0004 => "svm:CALL_DEPTH".into(),
            RENT_STATE_CODE => "svm:RENT_STATE".into(),
            c => format!("Custom({c})"),
        },
        other => format!("{other:?}"),
    }
}
fn ierr_name(e: &InstructionError) -> String {
    match e {
        InstructionError::Custom(c) if *c == svm::PANIC_CODE => "real:PANIC".into(),
        InstructionError::Custom(c) => format!("Custom({c})"),
        other => format!("{other:?}"),
    }
}

#[derive(PartialEq)]
enum ErrCmp {
    Same,
    /// not both Custom, and the kinds differ (informational)
    SoftDifferent,
    Different,
}

fn cmp_err(s: &ProgramError, r: &InstructionError, real_panic: &Option<String>) -> ErrCmp {
    use InstructionError as IE;
    let sentinel = |c: u32| matches!(c, svm::PANIC_CODE | svm::PRIV_ESCALATION_CODE | svm::READONLY_MODIFIED_CODE | svm::UNBALANCED_CODE | svm::EXTERNAL_MODIFIED_CODE | 0xdead_0004 | RENT_STATE_CODE);
    match (s, r) {
        (ProgramError::Custom(a), IE::Custom(b)) if !sentinel(*a) && *b != svm::PANIC_CODE => {
            if a == b {
                ErrCmp::Same
            } else {
                ErrCmp::Different
            }
        }
        (ProgramError::Custom(a), _) if sentinel(*a) => {
            let real_is_panic = matches!(r, IE::Custom(c) if *c == svm::PANIC_CODE) || matches!(r, IE::ProgramFailedToComplete);
            let pm = real_panic.clone().unwrap_or_default();
            let ok = match *a {
                svm::PANIC_CODE => real_is_panic,
                // program-test's CPI stub unwraps the runtime's refusal => a panic carrying the reason
                svm::PRIV_ESCALATION_CODE => matches!(r, IE::PrivilegeEscalation) || (real_is_panic && pm.contains("PrivilegeEscalation")),
                svm::READONLY_MODIFIED_CODE => matches!(r, IE::ReadonlyLamportChange | IE::ReadonlyDataModified) || (real_is_panic && pm.contains("Readonly")),
                svm::UNBALANCED_CODE => matches!(r, IE::UnbalancedInstruction),
                svm::EXTERNAL_MODIFIED_CODE => matches!(r, IE::ExternalAccountLamportSpend | IE::ExternalAccountDataModified | IE::ModifiedProgramId) || (real_is_panic && pm.contains("External")),
                RENT_STATE_CODE => false,
                _ => matches!(r, IE::CallDepth),
            };
            if ok {
                ErrCmp::Same
            } else {
                ErrCmp::Different
            }
        }
        (_, IE::Custom(c)) if *c == svm::PANIC_CODE => ErrCmp::Different,
        (s, r) => {
            // at least one side is a builtin error kind
            let sc = u64::from(s.clone());
            let rc = ProgramError::try_from(r.clone()).ok().map(u64::from);
            if rc == Some(sc) {
                ErrCmp::Same
            } else {
                ErrCmp::SoftDifferent
            }
        }
    }
}

struct Rec {
    /// step index within the case (builder txs: 9000+, auxiliary txs of a step: same index, battery: 1000+)
    j: usize,
    /// histogram key
    opname: String,
    /// what it is, for the report
    what: String,
    ixs: Vec<Instruction>,
    pre: Vm,
    post: Vm,
    out: svm::TxOutcome,
    svm_panic: Option<String>,
    /// outcome the engine itself recorded for this transaction (if it recorded one)
    step_ok: Option<bool>,
}

/// run one transaction on svm-lite from `pre`
fn svm_tx(j: usize, opname: &str, what: String, pre: &Vm, ixs: Vec<Instruction>, step_ok: Option<bool>) -> Rec {
    let mut post = pre.clone();
    let panics0 = post.panics;
    let out = post.exec_tx(&ixs);
    let svm_panic = if post.panics != panics0 { svm::last_panic() } else { None };
    Rec { j, opname: opname.to_string(), what, ixs, pre: pre.clone(), post, out, svm_panic, step_ok }
}

fn same_store(a: &Vm, b: &Vm) -> bool {
    a.clock == b.clock && a.accts.len() == b.accts.len() && a.accts.iter().zip(b.accts.iter()).all(|((k1, v1), (k2, v2))| k1 == k2 && (Arc::ptr_eq(v1, v2) || **v1 == **v2))
}

fn first_diff(a: &[u8], b: &[u8]) -> Option<usize> {
    let n = a.len().min(b.len());
    for i in 0..n {
        if a[i] != b[i] {
            return Some(i);
        }
    }
    if a.len() != b.len() {
        Some(n)
    } else {
        None
    }
}

fn hex(b: &[u8], at: usize) -> String {
    let lo = at.saturating_sub(8).min(b.len());
    let hi = (at + 24).min(b.len());
    b[lo..hi].iter().map(|x| format!("{x:02x}")).collect::<Vec<_>>().join("")
}

struct Ctx {
    stats: Stats,
    findings_dir: String,
    verbose: bool,
    max_saved_per_kind: u64,
}

impl Ctx {
    #[allow(clippy::too_many_arguments)]
    fn diverge(&mut self, case: usize, spec: &WorldSpec, ops: &[Op], rec: &Rec, kind: &str, detail: String, logs: &[String]) {
        self.stats.divergences += 1;
        *self.stats.div_hist.entry(format!("{kind}:{}", rec.opname)).or_default() += 1;
        mfv::outln!("RTDIFF-DIVERGENCE case={case} step={} kind={kind} op={} :: {detail}", rec.j, rec.what);
        let tail: Vec<&String> = logs.iter().rev().take(if self.verbose { 60 } else { 10 }).collect();
        for l in tail.iter().rev() {
            mfv::outln!("    real-log| {l}");
        }
        let n = self.stats.saved.entry(kind.to_string()).or_default();
        if *n < self.max_saved_per_kind {
            *n += 1;
            let _ = std::fs::create_dir_all(&self.findings_dir);
            let path = format!("{}/{}-case{}-step{}.json", self.findings_dir, kind.replace([':', '/', ' '], "_"), case, rec.j);
            let v = json!({"spec": spec, "ops": ops, "step": rec.j, "kind": kind, "detail": detail, "op": rec.what,
                "ixs": rec.ixs.iter().map(|ix| json!({"program": ix.program_id.to_string(), "data_len": ix.data.len(), "disc": ix.data.iter().take(8).copied().collect::<Vec<u8>>(),
                    "accounts": ix.accounts.iter().map(|m| format!("{}{}{}", m.pubkey, if m.is_signer {":s"} else {""}, if m.is_writable {":w"} else {""})).collect::<Vec<_>>() })).collect::<Vec<_>>(),
                "real_logs": logs});
            let _ = std::fs::write(&path, serde_json::to_string_pretty(&v).unwrap());
        }
    }
}

fn name_of(k: &Pubkey, r: &Runner) -> String {
    let w = &r.w;
    if *k == w.group {
        return "group".into();
    }
    if *k == w.fee_state {
        return "fee_state".into();
    }
    if *k == w.fee_wallet {
        return "fee_wallet".into();
    }
    for (i, b) in w.banks.iter().enumerate() {
        for (n, kk) in [("bank", b.key), ("mint", b.mint), ("oracle", b.oracle_key), ("liq_vault", b.lv), ("ins_vault", b.iv), ("fee_vault", b.fv), ("fee_ata", b.fee_ata), ("lv_auth", b.lv_auth), ("iv_auth", b.iv_auth), ("fv_auth", b.fv_auth)] {
            if *k == kk {
                return format!("{n}[{i}]");
            }
        }
    }
    for (i, u) in w.users.iter().enumerate() {
        if *k == u.auth {
            return format!("user[{i}].auth");
        }
        for (j, a) in u.accts.iter().enumerate() {
            if k == a {
                return format!("user[{i}].macct[{j}]");
            }
            if *k == mfv::world::World::liq_record_key(a) {
                return format!("user[{i}].liq_record[{j}]");
            }
        }
        for (j, a) in u.tokens.iter().enumerate() {
            if k == a {
                return format!("user[{i}].token[{j}]");
            }
        }
    }
    for (n, kk) in [("admin", w.roles.admin), ("risk_admin", w.roles.risk), ("fee_admin", w.roles.fee_admin), ("stranger", w.roles.stranger)] {
        if *k == kk {
            return n.into();
        }
    }
    "?".into()
}


// ------------------------------------------------------------------------------------------------
// transactions the engine executes outside of `Runner::step`'s recorded transaction
// ------------------------------------------------------------------------------------------------
fn mfi_ix(accounts: Vec<AccountMeta>, data: Vec<u8>) -> Instruction {
    Instruction { program_id: marginfi::ID, accounts, data }
}

/// Re-derive, transaction by transaction, what `World::build` executed; every stage is verified against
/// what the engine's builder actually produced (so a drift between this copy and world.rs is noticed
/// and reported as "unreconstructed", never as a divergence).
fn builder_recs(spec: &WorldSpec, r: &Runner) -> Result<Vec<Rec>, String> {
    use anchor_lang::{InstructionData, ToAccountMetas};
    use mfv::world::*;
    let mut recs = vec![];
    let j = 9000usize;
    let empty = WorldSpec { banks: vec![], n_users: 0, ..spec.clone() };
    let w0 = World::build(&empty).map_err(|_| "empty-world".to_string())?;
    // stage 0: fee state, group, roles, program fee switch
    let mut vm = Vm::new(START_TIME);
    let ro = &w0.roles;
    for k in [ro.admin, ro.emode, ro.curve, ro.limit, ro.emissions, ro.metadata, ro.risk, ro.fee_admin, ro.stranger] {
        vm.set(k, wallet_acct(1_000_000_000_000));
    }
    vm.set(w0.fee_wallet, wallet_acct(1_000_000_000));
    let mut ixs = vec![
        mfi_ix(
            marginfi::accounts::InitFeeState { payer: ro.fee_admin, fee_state: w0.fee_state, system_program: system_program::ID }.to_account_metas(Some(true)),
            marginfi::instruction::InitGlobalFeeState {
                admin: ro.fee_admin,
                fee_wallet: w0.fee_wallet,
                bank_init_flat_sol_fee: spec.bank_init_flat_sol_fee,
                liquidation_flat_sol_fee: spec.liq_flat_sol_fee,
                program_fee_fixed: w_mill(spec.program_fee_fixed),
                program_fee_rate: w_mill(spec.program_fee_rate),
                liquidation_max_fee: w_mill(spec.liq_max_fee),
            }
            .data(),
        ),
        mfi_ix(
            marginfi::accounts::MarginfiGroupInitialize { marginfi_group: w0.group, admin: ro.admin, fee_state: w0.fee_state, system_program: system_program::ID }.to_account_metas(Some(true)),
            marginfi::instruction::MarginfiGroupInitialize {}.data(),
        ),
        w0.ix_group_configure(&w0.roles.clone(), None, None),
    ];
    if !spec.program_fees_enabled {
        ixs.push(mfi_ix(
            marginfi::accounts::ConfigGroupFee { marginfi_group: w0.group, global_fee_admin: ro.fee_admin, fee_state: w0.fee_state }.to_account_metas(Some(true)),
            marginfi::instruction::ConfigGroupFee { enable_program_fee: false }.data(),
        ));
    }
    for (n, ix) in ixs.into_iter().enumerate() {
        let rec = svm_tx(j, ["build:init_fee_state", "build:group_init", "build:group_configure", "build:config_group_fee"][n], format!("world build stage 0 tx {n}"), &vm, vec![ix], Some(true));
        vm = rec.post.clone();
        recs.push(rec);
    }
    if !same_store(&vm, &w0.vm) {
        return Err("stage0".into());
    }
    // stage 1: banks
    let mut w = w0.clone();
    for (i, b) in spec.banks.iter().enumerate() {
        let before = w.vm.clone();
        w.add_bank(i, b).map_err(|_| "add_bank".to_string())?;
        let info = w.banks[i].clone();
        let mut vm = before.clone();
        // fabricated accounts (mint, the fee wallet's ATA, the oracle feed)
        for k in [info.mint, info.fee_ata, info.oracle_key] {
            if let Some(a) = w.vm.accts.get(&k) {
                vm.accts.insert(k, a.clone());
            }
        }
        let admin = w.roles.admin;
        let mut cfg = bank_config_compact(b);
        cfg.operational_state = marginfi_type_crate_state_operational();
        let mut ixs: Vec<(&str, Instruction)> = vec![(
            "build:add_bank",
            mfi_ix(
                marginfi::accounts::LendingPoolAddBank {
                    marginfi_group: w.group,
                    admin,
                    fee_payer: admin,
                    fee_state: w.fee_state,
                    global_fee_wallet: w.fee_wallet,
                    bank_mint: info.mint,
                    bank: info.key,
                    liquidity_vault_authority: info.lv_auth,
                    liquidity_vault: info.lv,
                    insurance_vault_authority: info.iv_auth,
                    insurance_vault: info.iv,
                    fee_vault_authority: info.fv_auth,
                    fee_vault: info.fv,
                    token_program: info.token_program,
                    system_program: system_program::ID,
                }
                .to_account_metas(Some(true)),
                marginfi::instruction::LendingPoolAddBank { bank_config: cfg }.data(),
            ),
        )];
        match b.oracle.kind {
            0 => ixs.push(("build:set_fixed_price", w.ix_set_fixed_price(i, b.oracle.fixed_price().into(), admin))),
            k => ixs.push(("build:config_oracle", w.ix_config_oracle(i, if k == 1 { 3 } else { 4 }, info.oracle_key, admin))),
        }
        let mut opt = marginfi_type_crate_opt_default();
        let mut need = false;
        if b.op_state != 1 {
            opt.operational_state = Some(op_state(b.op_state));
            need = true;
        }
        if b.permissionless_bad_debt {
            opt.permissionless_bad_debt_settlement = Some(true);
            need = true;
        }
        if need {
            ixs.push(("build:configure_bank", w.ix_configure_bank(i, opt, admin)));
        }
        let mut stage = vec![];
        for (name, ix) in ixs {
            let rec = svm_tx(j + 1 + i, name, format!("world build bank {i} (token kind {}, oracle kind {}): {name}", b.token, b.oracle.kind), &vm, vec![ix], Some(true));
            vm = rec.post.clone();
            stage.push(rec);
        }
        if !same_store(&vm, &w.vm) {
            return Err("bank-stage".into());
        }
        recs.extend(stage);
    }
    // stage 2: users
    for u in 0..spec.n_users as usize {
        let before = w.vm.clone();
        w.add_user(u).map_err(|_| "add_user".to_string())?;
        let usr = w.users[u].clone();
        let mut vm = before.clone();
        vm.set(usr.auth, wallet_acct(1_000_000_000_000));
        let rec = svm_tx(j + 100 + u, "build:account_init", format!("world build user {u}: account init"), &vm, vec![w.ix_account_init(usr.accts[0], usr.auth)], Some(true));
        vm = rec.post.clone();
        for k in usr.tokens.iter() {
            if let Some(a) = w.vm.accts.get(k) {
                vm.accts.insert(*k, a.clone());
            }
        }
        if !same_store(&vm, &w.vm) {
            return Err("user-stage".into());
        }
        recs.push(rec);
    }
    if !same_store(&w.vm, &r.w.vm) {
        return Err("final".into());
    }
    Ok(recs)
}

fn marginfi_type_crate_state_operational() -> marginfi_type_crate::types::BankOperationalState {
    marginfi_type_crate::types::BankOperationalState::Operational
}
fn marginfi_type_crate_opt_default() -> marginfi_type_crate::types::BankConfigOpt {
    marginfi_type_crate::types::BankConfigOpt::default()
}

/// side transactions executed by `Runner::step` before the recorded transaction
fn aux_pre_recs(r: &Runner, st: &mfv::campaign::Step, before: &Vm, mid: &Vm) -> Result<Vec<Rec>, String> {
    let mut vm = before.clone();
    vm.clock = mid.clock.clone();
    // fabricated accounts (oracle feeds, token accounts): not owned by marginfi / the system program
    let keys: BTreeSet<Pubkey> = before.accts.keys().chain(mid.accts.keys()).copied().collect();
    let mut changed_mfi: Vec<Pubkey> = vec![];
    for k in keys {
        let (a, b) = (before.accts.get(&k), mid.accts.get(&k));
        let same = match (a, b) {
            (Some(x), Some(y)) => Arc::ptr_eq(x, y) || **x == **y,
            (None, None) => true,
            _ => false,
        };
        if same {
            continue;
        }
        let owner = b.or(a).map(|x| x.owner).unwrap_or_default();
        if owner == marginfi::ID || owner == system_program::ID {
            changed_mfi.push(k);
        } else {
            match b {
                Some(y) => {
                    vm.accts.insert(k, y.clone());
                }
                None => {
                    vm.accts.remove(&k);
                }
            }
        }
    }
    let mut recs = vec![];
    if changed_mfi.is_empty() {
        return if same_store(&vm, mid) { Ok(recs) } else { Err("fabricated".into()) };
    }
    let mut cands: Vec<(&str, Instruction)> = vec![];
    // fixed-price banks whose account changed: the admin set a new price
    for (i, b) in r.w.banks.iter().enumerate() {
        if b.oracle_kind == 0 && changed_mfi.contains(&b.key) {
            cands.push(("aux:set_fixed_price", r.w.ix_set_fixed_price(i, b.spec.oracle.fixed_price().into(), r.w.roles.admin)));
        }
    }
    // liquidation record created on demand
    if let Some(acct) = st.macct {
        let rec_key = mfv::world::World::liq_record_key(&acct);
        if changed_mfi.contains(&rec_key) && before.accts.get(&rec_key).is_none() {
            let payer = match (&st.op, st.user) {
                (Op::Receivership { .. }, Some(ui)) => Some(r.w.users[ui].auth),
                (Op::Sunset { .. }, _) => Some(r.w.roles.risk),
                _ => None,
            };
            if let Some(p) = payer {
                cands.push(("aux:init_liq_record", r.w.ix_init_liq_record(acct, p)));
            }
        }
    }
    for (name, ix) in cands {
        let rec = svm_tx(st.index, name, format!("side transaction {name} before {:?}", st.op), &vm, vec![ix], None);
        vm = rec.post.clone();
        recs.push(rec);
    }
    if same_store(&vm, mid) {
        Ok(recs)
    } else {
        Err("pre".into())
    }
}

/// A fixed battery of further catalogue instructions run from the case's final state (each its own
/// transaction, state carried forward on success): delegate-admin configuration, e-mode, pause switch,
/// lone bracket ends (instruction introspection), foreign instructions in the same transaction, and
/// marginfi reached by CPI through a proxy program (stack height 2).
fn battery_recs(r: &Runner, n_ops: usize, known_gaps: bool) -> Vec<Rec> {
    use mfv::world::*;
    let w = &r.w;
    let mut out: Vec<Rec> = vec![];
    let mut vm = w.vm.clone();
    let nb = w.banks.len();
    let u0 = w.users[0].clone();
    let u1 = w.users[1 % w.users.len()].clone();
    let b0 = n_ops % nb;
    let b1 = (n_ops + 1) % nb;
    let cb = solana_sdk::compute_budget::ComputeBudgetInstruction::set_compute_unit_limit(1_400_000);
    let foreign = Instruction { program_id: svm::noop_ids()[1], accounts: vec![AccountMeta::new(u0.tokens[b0], false), AccountMeta::new_readonly(u0.auth, true)], data: vec![1, 2, 3] };
    let dep = |amt: u64| w.ix_deposit(u0.accts[0], u0.auth, b0, u0.tokens[b0], amt, None);
    // marginfi reached through a proxy: the callee program must be among the instruction's accounts on
    // the real runtime, so it is appended (both runtimes get the identical instruction)
    let via = |proxy: Pubkey, ix: &Instruction| {
        let mut x = svm::wrap_cpi(proxy, ix);
        x.accounts.push(AccountMeta::new_readonly(marginfi::ID, false));
        x
    };
    let entries = vec![EmodeEntrySpec { tag: 7, flags: 1, init: 600_000, maint: 700_000 }];
    let list: Vec<(&str, Vec<Instruction>)> = vec![
        ("bat:interest_only", vec![w.ix_configure_interest_only(b0, curve_opt(&w.banks[b0].spec.curve), w.roles.curve)]),
        ("bat:interest_only_stranger", vec![w.ix_configure_interest_only(b0, curve_opt(&w.banks[b0].spec.curve), w.roles.stranger)]),
        ("bat:limits_only", vec![w.ix_configure_limits_only(b0, Some(u64::MAX), Some(u64::MAX), None, w.roles.limit)]),
        ("bat:emode_config", vec![w.ix_config_emode(b0, 7, &entries, w.roles.emode)]),
        ("bat:emode_clone", vec![w.ix_clone_emode(b0, b1, w.roles.emode)]),
        ("bat:cb+deposit", vec![cb.clone(), dep(1000)]),
        ("bat:deposit+foreign", vec![dep(1000), foreign.clone()]),
        ("bat:foreign+deposit+foreign", vec![foreign.clone(), dep(7), foreign.clone()]),
        ("bat:two_deposits_one_tx", vec![dep(5), w.ix_deposit(u1.accts[0], u1.auth, b1, u1.tokens[b1], 9, None)]),
        ("bat:deposit_then_failing", vec![dep(5), w.ix_withdraw_fees(b0, w.roles.stranger, u0.tokens[b0], 1)]),
        ("bat:cpi_allowed_deposit", vec![via(svm::proxy_id_allowed(), &dep(11))]),
        ("bat:cpi_unknown_deposit", vec![via(svm::proxy_id_unknown(), &dep(13))]),
        ("bat:cpi_borrow", vec![via(svm::proxy_id_unknown(), &w.ix_borrow(u0.accts[0], u0.auth, b1, u0.tokens[b1], 1))]),
        ("bat:cpi_start_flashloan", vec![via(svm::proxy_id_allowed(), &w.ix_start_flashloan(u0.accts[0], u0.auth, 1)), w.ix_end_flashloan(u0.accts[0], u0.auth, w.risk_metas(&u0.accts[0], None, None))]),
        ("bat:flashloan_empty", vec![w.ix_start_flashloan(u0.accts[0], u0.auth, 1), w.ix_end_flashloan(u0.accts[0], u0.auth, w.risk_metas(&u0.accts[0], None, None))]),
        ("bat:flashloan_foreign_inside", vec![w.ix_start_flashloan(u0.accts[0], u0.auth, 2), foreign.clone(), w.ix_end_flashloan(u0.accts[0], u0.auth, w.risk_metas(&u0.accts[0], None, None))]),
        ("bat:flashloan_no_end", vec![w.ix_start_flashloan(u0.accts[0], u0.auth, 1)]),
        ("bat:flashloan_bad_index", vec![w.ix_start_flashloan(u0.accts[0], u0.auth, 5), w.ix_end_flashloan(u0.accts[0], u0.auth, w.risk_metas(&u0.accts[0], None, None))]),
        ("bat:end_flashloan_alone", vec![w.ix_end_flashloan(u0.accts[0], u0.auth, w.risk_metas(&u0.accts[0], None, None))]),
        ("bat:init_liq_record", vec![w.ix_init_liq_record(u1.accts[0], u0.auth)]),
        ("bat:init_liq_record_again", vec![w.ix_init_liq_record(u1.accts[0], u0.auth)]),
        ("bat:start_liq_alone", vec![w.ix_start_liquidation(u1.accts[0], u0.auth)]),
        ("bat:end_liq_alone", vec![w.ix_end_liquidation(u1.accts[0], u0.auth, w.risk_metas(&u1.accts[0], None, None))]),
        ("bat:start_end_liq", vec![w.ix_start_liquidation(u1.accts[0], u0.auth), w.ix_end_liquidation(u1.accts[0], u0.auth, w.risk_metas(&u1.accts[0], None, None))]),
        ("bat:cb+start_end_liq", vec![cb.clone(), w.ix_start_liquidation(u1.accts[0], u0.auth), w.ix_end_liquidation(u1.accts[0], u0.auth, w.risk_metas(&u1.accts[0], None, None))]),
        ("bat:start_deleverage_alone", vec![w.ix_start_deleverage(u1.accts[0], w.roles.risk)]),
        ("bat:pulse", vec![w.ix_pulse_health(u1.accts[0])]),
        ("bat:panic_pause", vec![w.ix_panic_pause(w.roles.fee_admin)]),
        ("bat:propagate_fee", vec![w.ix_propagate_fee_state()]),
        ("bat:deposit_paused", vec![dep(3)]),
        ("bat:unpause_permissionless", vec![w.ix_panic_unpause_permissionless()]),
        ("bat:panic_unpause", vec![w.ix_panic_unpause(w.roles.fee_admin)]),
        ("bat:propagate_fee2", vec![w.ix_propagate_fee_state()]),
        ("bat:close_bank", vec![w.ix_close_bank(b1, w.roles.admin)]),
        ("bat:close_account", vec![w.ix_close_account(u1.accts[0], u1.auth)]),
        ("bat:system_transfer_toplevel", vec![solana_sdk::system_instruction::transfer(&u0.auth, &w.fee_wallet, 12345)]),
        ("bat:system_transfer_overspend", vec![solana_sdk::system_instruction::transfer(&w.roles.stranger, &w.fee_wallet, u64::MAX)]),
        ("bat:system_transfer_from_program_owned", vec![solana_sdk::system_instruction::transfer(&u0.accts[0], &w.fee_wallet, 1)]),
        ("bat:system_create_account", vec![solana_sdk::system_instruction::create_account(&u0.auth, &kp("rtdiff_new", n_ops as u64), 2_000_000, 100, &marginfi::ID)]),
        ("bat:system_create_account_existing", vec![solana_sdk::system_instruction::create_account(&u0.auth, &w.fee_wallet, 2_000_000, 100, &marginfi::ID)]),
        ("bat:system_assign", vec![solana_sdk::system_instruction::assign(&w.roles.stranger, &marginfi::ID)]),
        ("bat:system_allocate", vec![solana_sdk::system_instruction::allocate(&w.roles.emissions, 64)]),
    ];
    let mut list = list;
    if known_gaps {
        // deliberately provokes a documented gap of svm-lite: the real runtime refuses a transaction that
        // leaves a writable account rent-paying (InsufficientFundsForRent); svm-lite has no rent-state check
        list.push(("gap:system_create_account_underfunded", vec![solana_sdk::system_instruction::create_account(&u0.auth, &kp("rtdiff_new2", n_ops as u64), 10, 100, &marginfi::ID)]));
        // flags are per MESSAGE on the real runtime (union over all instructions naming the account); svm-lite
        // hands every instruction its own flags
        let mut ro = dep(17);
        for m in ro.accounts.iter_mut() {
            if m.pubkey == w.banks[b0].key {
                m.is_writable = false;
            }
        }
        list.push(("gap:writable_flag_promotion", vec![ro, w.ix_accrue(b0)]));
        let mut ns = dep(19);
        for m in ns.accounts.iter_mut() {
            if m.pubkey == u0.auth {
                m.is_signer = false;
            }
        }
        list.push(("gap:signer_flag_promotion", vec![ns, solana_sdk::system_instruction::transfer(&u0.auth, &w.fee_wallet, 1)]));
        // svm-lite lets a program CPI into any known program; the real runtime requires the callee's program
        // account among the calling instruction's accounts (engine's wrap_cpi does not add it)
        list.push(("gap:cpi_without_callee_program_account", vec![svm::wrap_cpi(svm::proxy_id_unknown(), &dep(23))]));
        list.push(("gap:system_transfer_leaves_rent_paying", vec![solana_sdk::system_instruction::transfer(&u0.auth, &kp("rtdiff_new3", n_ops as u64), 10)]));
    }
    for (k, (name, ixs)) in list.into_iter().enumerate() {
        let rec = svm_tx(1000 + k, name, format!("battery {name}"), &vm, ixs, None);
        if rec.out.ok {
            vm = rec.post.clone();
        }
        out.push(rec);
    }
    out
}

fn usage() -> ! {
    eprintln!("usage: rtdiff --cases N --seed S [--max-ops M] [--only-case I] [--cu UNITS] [--spl bpf|native] [--findings DIR] [--replay FILE] [--corpus DIR] [--verbose] [--no-builder] [--no-battery] [--probe-known-gaps]");
    std::process::exit(64);
}

fn main() {
    if std::env::var("RUST_LOG").is_err() {
        std::env::set_var("RUST_LOG", "error");
    }
    let args: Vec<String> = std::env::args().collect();
    let mut cases: u32 = 50;
    let mut seed: u64 = 0;
    let mut max_ops: usize = 40;
    let mut only_case: Option<usize> = None;
    let mut cu: Option<u64> = None;
    let mut spl_native = false;
    let mut findings_dir = "/verif/.work/rtdiff-findings".to_string();
    let mut replay: Option<String> = None;
    let mut corpus: Option<String> = None;
    let mut verbose = false;
    let mut with_builder = true;
    let mut with_battery = true;
    let mut known_gaps = false;
    let mut i = 1;
    while i < args.len() {
        let val = |i: usize| args.get(i + 1).cloned().unwrap_or_else(|| usage());
        match args[i].as_str() {
            "--cases" => {
                cases = val(i).parse().unwrap_or_else(|_| usage());
                i += 1;
            }
            "--seed" => {
                seed = val(i).parse().unwrap_or_else(|_| usage());
                i += 1;
            }
            "--max-ops" => {
                max_ops = val(i).parse().unwrap_or_else(|_| usage());
                i += 1;
            }
            "--only-case" => {
                only_case = Some(val(i).parse().unwrap_or_else(|_| usage()));
                i += 1;
            }
            "--cu" => {
                cu = Some(val(i).parse().unwrap_or_else(|_| usage()));
                i += 1;
            }
            "--spl" => {
                spl_native = match val(i).as_str() {
                    "native" => true,
                    "bpf" => false,
                    _ => usage(),
                };
                i += 1;
            }
            "--findings" => {
                findings_dir = val(i);
                i += 1;
            }
            "--replay" => {
                replay = Some(val(i));
                i += 1;
            }
            "--corpus" => {
                corpus = Some(val(i));
                i += 1;
            }
            "--verbose" => verbose = true,
            "--no-builder" => with_builder = false,
            "--no-battery" => with_battery = false,
            "--probe-known-gaps" => known_gaps = true,
            _ => usage(),
        }
        i += 1;
    }

    mfv::common::silence_program_stdout();
    // quiet panic hook that remembers the message (program panics are expected outcomes)
    std::panic::set_hook(Box::new(|info| {
        let msg = info.payload().downcast_ref::<String>().cloned().or_else(|| info.payload().downcast_ref::<&str>().map(|s| s.to_string())).unwrap_or_default();
        let loc = info.location().map(|l| format!("{}:{}", l.file(), l.line())).unwrap_or_default();
        LAST_PANIC.with(|p| *p.borrow_mut() = Some(format!("{msg} @ {loc}")));
    }));

    // --- the two sets of syscall stubs ---
    svm::init();
    let svm_stubs = set_syscall_stubs(Box::new(Dummy));
    let t0 = std::time::Instant::now();
    {
        // installs program-test's stubs (its `Once`); the context itself is not used
        let rt = tokio::runtime::Builder::new_current_thread().enable_all().build().unwrap();
        rt.block_on(async {
            let pt = ProgramTest::default();
            let _ctx = pt.start_with_context().await;
        });
    }
    let mut real = Real::new(cu, spl_native);
    // now: program-test stubs installed; put svm-lite's back and keep program-test's as the spare
    let pt_stubs = set_syscall_stubs(svm_stubs);
    let mut sw = Switch { spare: Some(pt_stubs), svm_active: true };
    eprintln!("rtdiff: real runtime ready in {:?} (spl = {})", t0.elapsed(), if spl_native { "native 7.0.0 processors" } else { "bundled BPF spl_token 3.5.0 / spl_token_2022 5.0.2" });

    let mut cx = Ctx { stats: Stats::default(), findings_dir, verbose, max_saved_per_kind: 5 };

    // --- cases ---
    let mut case_list: Vec<(usize, WorldSpec, Vec<Op>)> = vec![];
    if let Some(f) = &replay {
        let v: serde_json::Value = serde_json::from_str(&std::fs::read_to_string(f).expect("replay file")).expect("json");
        let spec: WorldSpec = serde_json::from_value(v["spec"].clone()).expect("spec");
        let ops: Vec<Op> = serde_json::from_value(v["ops"].clone()).expect("ops");
        case_list.push((0, spec, ops));
    } else if let Some(dir) = &corpus {
        // coverage-guided corpus of the engine's libFuzzer driver: bytes -> case (first `cases` files, sorted)
        let mut files: Vec<std::path::PathBuf> = std::fs::read_dir(dir).expect("corpus dir").filter_map(|e| e.ok().map(|e| e.path())).filter(|p| p.is_file()).collect();
        files.sort();
        for (ci, f) in files.iter().enumerate().take(cases as usize) {
            let data = std::fs::read(f).unwrap_or_default();
            let (spec, ops) = mfv::campaign::decode_case(&data);
            if only_case.map(|c| c == ci).unwrap_or(true) {
                case_list.push((ci, spec, ops));
            }
        }
    } else {
        let cfg = GenCfg { max_ops, ..GenCfg::default() };
        let strat = case_strategy(&cfg);
        let seed32 = solana_program::hash::hashv(&[b"rtdiff", &seed.to_le_bytes()]).to_bytes();
        let mut runner = TestRunner::new_with_rng(Config { failure_persistence: None, ..Config::default() }, TestRng::from_seed(RngAlgorithm::ChaCha, &seed32));
        for ci in 0..cases as usize {
            let tree = match strat.new_tree(&mut runner) {
                Ok(t) => t,
                Err(_) => continue,
            };
            let (spec, ops) = tree.current();
            if only_case.map(|c| c == ci).unwrap_or(true) {
                case_list.push((ci, spec, ops));
            }
        }
    }

    let t1 = std::time::Instant::now();
    let (mut t_svm, mut t_real) = (Duration::ZERO, Duration::ZERO);
    for (ci, spec, ops) in case_list.iter() {
        let ci = *ci;
        cx.stats.cases += 1;
        // ---------- svm-lite ----------
        sw.to_svm();
        let ts = std::time::Instant::now();
        let mut r = match Runner::new(spec) {
            Ok(r) => r,
            Err(_) => {
                cx.stats.worlds_rejected += 1;
                continue;
            }
        };
        let mut recs: Vec<Rec> = vec![];
        if with_builder {
            match builder_recs(spec, &r) {
                Ok(v) => recs.extend(v),
                Err(why) => {
                    cx.stats.unreconstructed += 1;
                    *cx.stats.unrec_hist.entry(format!("builder:{why}")).or_default() += 1;
                }
            }
        }
        for op in ops.iter() {
            let before = r.w.vm.clone();
            let users_before: Vec<Pubkey> = r.w.users.iter().map(|u| u.accts[0]).collect();
            let st = r.step(op);
            cx.stats.steps_total += 1;
            let has_tx = st.pre_vm.is_some() && !st.ixs.is_empty();
            let mid: Vm = if has_tx { st.pre_vm.clone().unwrap() } else { r.w.vm.clone() };
            // transactions the runner executed on the side BEFORE the recorded one (oracle price
            // instructions, liquidation-record creation): reconstruct, verify, compare
            if !same_store(&before, &mid) {
                match aux_pre_recs(&r, &st, &before, &mid) {
                    Ok(v) => recs.extend(v),
                    Err(why) => {
                        cx.stats.unreconstructed += 1;
                        *cx.stats.unrec_hist.entry(format!("{}:{why}", op.name())).or_default() += 1;
                    }
                }
            }
            if !has_tx {
                cx.stats.steps_no_tx += 1;
                continue;
            }
            // exact post-state of exactly this transaction (the runner may run follow-up bookkeeping txs)
            let rec = svm_tx(st.index, op.name(), format!("{op:?}"), &mid, st.ixs.clone(), Some(st.ok));
            let after_tx = rec.post.clone();
            recs.push(rec);
            if !same_store(&after_tx, &r.w.vm) {
                // follow-up: a closed account is re-created
                let mut done = false;
                if let (Op::CloseAccount { .. }, Some(ui)) = (op, st.user) {
                    let new = r.w.users[ui].accts[0];
                    if new != users_before[ui] {
                        let mut ix = r.w.ix_account_init(new, r.w.users[ui].auth);
                        for m in ix.accounts.iter_mut() {
                            if m.pubkey == new {
                                m.is_signer = true;
                            }
                        }
                        let rec = svm_tx(st.index, "aux:account_init", format!("account re-init after {op:?}"), &after_tx, vec![ix], Some(true));
                        if same_store(&rec.post, &r.w.vm) {
                            recs.push(rec);
                            done = true;
                        }
                    }
                }
                if !done {
                    cx.stats.unreconstructed += 1;
                    *cx.stats.unrec_hist.entry(format!("{}:post", op.name())).or_default() += 1;
                }
            }
        }
        if with_battery {
            recs.extend(battery_recs(&r, ops.len(), known_gaps));
        }
        t_svm += ts.elapsed();
        // ---------- real runtime ----------
        sw.to_real();
        let tr = std::time::Instant::now();
        for rec in recs.iter() {
            compare_step(&mut cx, &mut real, &r, ci, spec, ops, rec);
        }
        t_real += tr.elapsed();
        sw.to_svm();
    }

    // --- report ---
    let s = &cx.stats;
    mfv::outln!("--- op kinds compared (ok / failed on svm-lite) ---");
    for (k, (a, b)) in &s.op_hist {
        mfv::outln!("  {k:<24} ok={a:<6} failed={b}");
    }
    mfv::outln!("--- errors seen (svm-lite, failing steps) ---");
    for (k, n) in &s.err_hist {
        mfv::outln!("  {k:<40} {n}");
    }
    if !s.errpair_hist.is_empty() {
        mfv::outln!("--- error pairs where the two runtimes name the failure differently (svm-lite => real) ---");
        for (k, n) in &s.errpair_hist {
            mfv::outln!("  {k:<70} {n}");
        }
    }
    if !s.too_large_hist.is_empty() {
        mfv::outln!("--- transactions larger than 1232 bytes as a legacy transaction (still compared; the bank does not enforce the packet size) ---");
        for (k, n) in &s.too_large_hist {
            mfv::outln!("  {k:<24} {n}");
        }
    }
    if !s.unrec_hist.is_empty() {
        mfv::outln!("--- side transactions of the engine that could not be reconstructed (not compared) ---");
        for (k, n) in &s.unrec_hist {
            mfv::outln!("  {k:<40} {n}");
        }
    }
    if !s.div_hist.is_empty() {
        mfv::outln!("--- divergences by kind:op ---");
        for (k, n) in &s.div_hist {
            mfv::outln!("  {k:<50} {n}");
        }
    }
    mfv::outln!(
        "rtdiff: detail: worlds_rejected={} steps_total={} steps_without_tx={} accounts_compared={} bytes_compared={} max_tx_bytes={} max_tx_keys={} max_units_consumed={} soft_errkind_mismatch={} side_tx_unreconstructed={} svm_time={:?} real_time={:?} wall={:?}",
        s.worlds_rejected, s.steps_total, s.steps_no_tx, s.accounts_compared, s.bytes_compared, s.max_tx_size, s.max_tx_keys, s.max_units, s.soft_errkind, s.unreconstructed, t_svm, t_real, t1.elapsed()
    );
    mfv::outln!(
        "rtdiff: cases={} steps_compared={} ok_steps={} failed_steps={} skipped_too_large={} skipped_too_many_account_locks={} compute_exhausted={} divergences={}",
        s.cases, s.steps_compared, s.ok_steps, s.failed_steps, s.too_large, s.too_many_locks, s.cu_exhausted, s.divergences
    );
    std::process::exit(if s.divergences > 0 { 2 } else { 0 });
}

fn compare_step(cx: &mut Ctx, real: &mut Real, r: &Runner, ci: usize, spec: &WorldSpec, ops: &[Op], rec: &Rec) {
    let opn = rec.opname.clone();
    // self-consistency of svm-lite (re-execution from the recorded pre-state)
    if let Some(step_ok) = rec.step_ok {
        if rec.out.ok != step_ok {
            cx.diverge(ci, spec, ops, rec, "svm-replay-mismatch", format!("runner said ok={} but re-execution from pre_vm gives ok={} err={:?}", step_ok, rec.out.ok, rec.out.err), &[]);
            return;
        }
    }
    real.sync(&rec.pre);
    let tx = real.build_tx(&rec.ixs);
    let size = bincode::serialized_size(&tx).unwrap_or(0);
    let nkeys = tx.message.account_keys.len();
    cx.stats.max_tx_size = cx.stats.max_tx_size.max(size);
    cx.stats.max_tx_keys = cx.stats.max_tx_keys.max(nkeys);
    if size > 1232 {
        cx.stats.too_large += 1;
        *cx.stats.too_large_hist.entry(opn.clone()).or_default() += 1;
    }
    let keys: Vec<Pubkey> = tx.message.account_keys.clone();
    let stx = match SanitizedTransaction::try_from_legacy_transaction(tx, real.bank.get_reserved_account_keys()) {
        Ok(t) => t,
        Err(e) => {
            cx.diverge(ci, spec, ops, rec, "sanitize", format!("real runtime refused to sanitize the transaction: {e:?} (svm-lite ok={})", rec.out.ok), &[]);
            return;
        }
    };
    LAST_PANIC.with(|p| *p.borrow_mut() = None);
    let sim = real.bank.simulate_transaction_unchecked(&stx, false);
    let real_panic = LAST_PANIC.with(|p| p.borrow().clone());
    cx.stats.max_units = cx.stats.max_units.max(sim.units_consumed);

    // transaction-level refusals of the real runtime
    match &sim.result {
        Err(TransactionError::TooManyAccountLocks) => {
            cx.stats.too_many_locks += 1;
            return;
        }
        Err(TransactionError::InstructionError(_, InstructionError::ComputationalBudgetExceeded)) => {
            cx.stats.cu_exhausted += 1;
            return;
        }
        Err(TransactionError::InstructionError(_, InstructionError::ProgramFailedToComplete)) if sim.logs.iter().any(|l| l.contains("exceeded CUs") || l.contains("Exceeded compute budget") || l.contains("exceeded maximum number of instructions")) => {
            cx.stats.cu_exhausted += 1;
            return;
        }
        Err(TransactionError::InstructionError(..)) | Ok(()) => {}
        // a transaction-level rent-state refusal, which svm-lite (once it has the rule) reports as 0xdead_0006
        Err(TransactionError::InsufficientFundsForRent { .. }) if matches!(&rec.out.err, Some((_, ProgramError::Custom(c))) if *c == RENT_STATE_CODE) => {
            cx.stats.steps_compared += 1;
            cx.stats.failed_steps += 1;
            cx.stats.op_hist.entry(opn.clone()).or_default().1 += 1;
            *cx.stats.err_hist.entry(format!("{opn}[tx] svm:RENT_STATE")).or_default() += 1;
            return;
        }
        Err(other) => {
            let extra = match other {
                TransactionError::InsufficientFundsForRent { account_index } => {
                    let k = keys.get(*account_index as usize).copied().unwrap_or_default();
                    let pre = rec.pre.get(&k).cloned().unwrap_or_default();
                    let post = rec.post.get(&k).cloned().unwrap_or_default();
                    format!(
                        " account={k} ({}) pre(lamports={}, len={}, owner={}) svm-post(lamports={}, len={}, owner={}) rent-min(post len)={}",
                        name_of(&k, r), pre.lamports, pre.data.len(), pre.owner, post.lamports, post.data.len(), post.owner, Rent::default().minimum_balance(post.data.len())
                    )
                }
                _ => String::new(),
            };
            cx.diverge(ci, spec, ops, rec, &format!("tx-refused:{}", format!("{other:?}").split(['{', '(', ' ']).next().unwrap_or("")), format!("real runtime refused the transaction: {other:?}{extra}; svm-lite ok={} err={:?}", rec.out.ok, rec.out.err), &sim.logs);
            return;
        }
    }

    cx.stats.steps_compared += 1;
    let e = cx.stats.op_hist.entry(opn.clone()).or_default();
    if rec.out.ok {
        e.0 += 1;
        cx.stats.ok_steps += 1;
    } else {
        e.1 += 1;
        cx.stats.failed_steps += 1;
    }
    if let Some((i, pe)) = &rec.out.err {
        *cx.stats.err_hist.entry(format!("{opn}[ix {i}] {}", perr_name(pe))).or_default() += 1;
    }

    match (&rec.out.err, &sim.result) {
        (None, Ok(())) => {}
        (Some((si, se)), Err(TransactionError::InstructionError(ri, re))) => {
            if *si != *ri as usize {
                cx.diverge(ci, spec, ops, rec, "fail-index", format!("both fail, but svm-lite at instruction {si} with {} and real at instruction {ri} with {}", perr_name(se), ierr_name(re)), &sim.logs);
                return;
            }
            match cmp_err(se, re, &real_panic) {
                ErrCmp::Same => {}
                ErrCmp::SoftDifferent => {
                    cx.stats.soft_errkind += 1;
                    *cx.stats.errpair_hist.entry(format!("{opn}[ix {si}] {} => {}", perr_name(se), ierr_name(re))).or_default() += 1;
                }
                ErrCmp::Different => {
                    cx.diverge(
                        ci, spec, ops, rec, "error-code",
                        format!("both fail at instruction {si}, svm-lite with {} (panic: {:?}) and real with {} (panic: {:?})", perr_name(se), rec.svm_panic, ierr_name(re), real_panic),
                        &sim.logs,
                    );
                }
            }
            return;
        }
        (None, Err(TransactionError::InstructionError(ri, re))) => {
            cx.diverge(ci, spec, ops, rec, "svm-ok-real-fails", format!("svm-lite succeeds; real fails at instruction {ri} with {} (panic: {:?})", ierr_name(re), real_panic), &sim.logs);
            return;
        }
        (Some((si, se)), Ok(())) => {
            cx.diverge(ci, spec, ops, rec, "svm-fails-real-ok", format!("real succeeds; svm-lite fails at instruction {si} with {} (panic: {:?})", perr_name(se), rec.svm_panic), &sim.logs);
            return;
        }
        _ => unreachable!(),
    }

    // ---------- both succeeded: compare the post-state ----------
    let in_tx: BTreeSet<Pubkey> = keys.iter().copied().collect();
    let real_post: BTreeMap<Pubkey, &AccountSharedData> = sim.post_simulation_accounts.iter().map(|(k, a)| (*k, a)).collect();
    let mut union: BTreeSet<Pubkey> = rec.pre.accts.keys().copied().collect();
    union.extend(rec.post.accts.keys().copied());
    union.extend(in_tx.iter().copied());
    let absent = Acct { lamports: 0, data: vec![], owner: system_program::ID, executable: false };
    for k in union {
        if k == real.payer || solana_sdk::sysvar::is_sysvar_id(&k) {
            continue;
        }
        let pre = rec.pre.accts.get(&k).map(|a| a.as_ref()).unwrap_or(&absent);
        if pre.executable {
            continue;
        }
        let post = rec.post.accts.get(&k).map(|a| a.as_ref()).unwrap_or(&absent);
        if !in_tx.contains(&k) {
            // the real runtime cannot touch it; svm-lite must not either
            if pre != post {
                cx.diverge(ci, spec, ops, rec, "svm-changed-foreign-account", format!("account {k} ({}) is not part of the transaction but svm-lite changed it", name_of(&k, r)), &sim.logs);
                return;
            }
            continue;
        }
        let Some(ra) = real_post.get(&k) else {
            cx.diverge(ci, spec, ops, rec, "missing-post-account", format!("account {k} not returned by the simulation"), &sim.logs);
            return;
        };
        // an account with zero lamports does not exist after the transaction (both sides)
        let (r_lam, r_owner, r_data): (u64, Pubkey, &[u8]) = if ra.lamports() == 0 { (0, system_program::ID, &[]) } else { (ra.lamports(), *ra.owner(), ra.data()) };
        cx.stats.accounts_compared += 1;
        cx.stats.bytes_compared += r_data.len() as u64;
        let nm = name_of(&k, r);
        if r_lam != post.lamports {
            cx.diverge(ci, spec, ops, rec, "post-lamports", format!("account {k} ({nm}): lamports svm-lite={} real={} (pre={})", post.lamports, r_lam, pre.lamports), &sim.logs);
            return;
        }
        if r_owner != post.owner {
            cx.diverge(ci, spec, ops, rec, "post-owner", format!("account {k} ({nm}): owner svm-lite={} real={}", post.owner, r_owner), &sim.logs);
            return;
        }
        if r_data.len() != post.data.len() {
            cx.diverge(ci, spec, ops, rec, "post-data-len", format!("account {k} ({nm}): data length svm-lite={} real={} (pre={})", post.data.len(), r_data.len(), pre.data.len()), &sim.logs);
            return;
        }
        if let Some(off) = first_diff(r_data, &post.data) {
            let ndiff = r_data.iter().zip(post.data.iter()).filter(|(a, b)| a != b).count();
            cx.diverge(
                ci, spec, ops, rec, "post-data",
                format!(
                    "account {k} ({nm}, owner {}): {} byte(s) differ, first at offset {off}: svm-lite ..{}.. real ..{}.. (pre ..{}..)",
                    post.owner, ndiff, hex(&post.data, off), hex(r_data, off), hex(&pre.data, off.min(pre.data.len()))
                ),
                &sim.logs,
            );
            return;
        }
        if ra.lamports() != 0 && ra.executable() != post.executable {
            cx.diverge(ci, spec, ops, rec, "post-executable", format!("account {k} ({nm}): executable svm-lite={} real={}", post.executable, ra.executable()), &sim.logs);
            return;
        }
    }
}
